//! C15 harness, caller-buffer sweep: every C function that writes text into a buffer the CALLER supplies
//! (`<buf>: *mut c_char, <len>` out-parameters of capi/src/io.rs — the translator enumerates them into
//! Gen/CApi.lean `callerBufParams`, the `cstr callerparams` record ties this file's list to that table) is
//! called with EVERY capacity from 0 to needed+3 on guard-zone buffers (canary bytes before and after the
//! `cap` usable bytes).  Each call is made twice with different canary values, so the set of bytes the library
//! wrote is observed exactly (a byte is written iff it has the same value after both calls).
//!
//! Oracle (the property, evaluated on the implementation): no byte outside the `cap` usable bytes is written;
//! nothing is written when cap = 0; a truncating function leaves a NUL inside the capacity whenever cap >= 1;
//! the text before it is a prefix of the full text, valid UTF-8 (cut at a character boundary), and the full
//! text whenever it fits (cap >= len+1); an all-or-nothing function (`chewing_phone_to_bopomofo`) writes the
//! full text + NUL when it fits and nothing otherwise, and returns len+1 either way; the lengths
//! `chewing_userphrase_has_next` reports are len+1 of what a buffer of that size receives.
//!
//! Records for the byte-level model (Model/CStr.lean `callerCopy` / `fitCopy`):
//!
//!   cstr caller <function> <buffer parameter> <cap> x<full text> => <w> b<the first w bytes of the buffer>
//!        (w = 1 + offset of the last byte written, 0 = nothing written)
//!   cstr callerparams => <function>:<buffer parameter>:<length parameter>,…      (what this harness sweeps)
//!
//! The sweep runs in a child process (`--worker`): a panic inside an `extern "C"` function aborts it, the parent
//! reports the call it died in.
#![allow(deprecated)]

use std::collections::BTreeMap;
use std::ffi::{c_char, c_uint, CString};
use std::io::Write;
use std::process::{Command, Stdio};

use chewing_capi::output::chewing_phone_to_bopomofo;
use chewing_capi::setup::*;
use chewing_capi::userphrase::*;
use vharness::*;

const PRE: usize = 16;
const POST: usize = 16;
const CANARIES: [u8; 2] = [0xA5, 0x5A];

/// the caller-buffer parameters this harness sweeps (function, buffer parameter, length parameter)
const SWEPT: [(&str, &str, &str); 3] = [
    ("chewing_phone_to_bopomofo", "buf", "len"),
    ("chewing_userphrase_get", "bopomofo_buf", "bopomofo_len"),
    ("chewing_userphrase_get", "phrase_buf", "phrase_len"),
];

const SYLS: [&str; 6] = ["ㄘㄜˋ", "ㄕˋ", "ㄒㄧㄣ", "ㄎㄨˋ", "ㄧㄣ", "ㄓㄨㄤˋ"];

fn hexs(b: &[u8]) -> String {
    let mut s = String::with_capacity(2 * b.len());
    for x in b {
        s.push_str(&format!("{:02x}", x));
    }
    s
}

fn repo_path() -> String {
    std::env::var("VERIF_REPO").unwrap_or_else(|_| "/repo".into())
}

/// a caller buffer of `cap` usable bytes between two guard zones
struct Guarded {
    cap: usize,
    mem: Vec<u8>,
}

impl Guarded {
    fn new(cap: usize, canary: u8) -> Guarded {
        Guarded { cap, mem: vec![canary; PRE + cap + POST] }
    }
    fn ptr(&mut self) -> *mut c_char {
        unsafe { self.mem.as_mut_ptr().add(PRE).cast() }
    }
}

/// what the two calls (same arguments, different canaries) left behind
struct Seen {
    /// offsets (relative to the start of the usable bytes; negative = in the front guard) of every byte written
    written: Vec<isize>,
    /// usable bytes + rear guard after the first call
    bytes: Vec<u8>,
}

fn observe(a: &Guarded, b: &Guarded) -> Seen {
    let written = (0..a.mem.len()).filter(|&i| a.mem[i] == b.mem[i]).map(|i| i as isize - PRE as isize).collect();
    Seen { written, bytes: a.mem[PRE..].to_vec() }
}

struct Sweep {
    out: Out,
    stats: BTreeMap<String, u64>,
    violations: u64,
}

impl Sweep {
    fn bump(&mut self, k: &str) {
        *self.stats.entry(k.to_string()).or_insert(0) += 1;
    }
    fn fail(&mut self, class: &str, what: &str) {
        self.violations += 1;
        self.bump(&format!("caller_violation_{}", class));
        if self.violations <= 40 {
            self.out.oracle_fail("C15", "new", &format!("caller-{} {}", class, what));
        }
    }

    /// record + oracle for one (function, parameter, capacity, full text); `truncating`: the function cuts the text
    /// to fit (else: all or nothing)
    fn judge(&mut self, func: &str, param: &str, cap: usize, full: &[u8], seen: &Seen, truncating: bool, how: &str) {
        let w = seen.written.iter().copied().max().map_or(0, |m| (m + 1).max(0) as usize);
        let shown = &seen.bytes[..w.min(seen.bytes.len())];
        self.out.rec(&format!("cstr caller {} {} {} x{} => {} b{}", func, param, cap, hexs(full), w, hexs(shown)));
        self.bump("caller_records");
        self.bump(&format!("caller_records_{}_{}", func, param));
        let call = format!(
            "{}({} of {} bytes; full text x{} = {} bytes; {}): buffer+guard after the call b{}",
            func, param, cap, hexs(full), full.len(), how, hexs(&seen.bytes[..(cap + 8).min(seen.bytes.len())])
        );
        // 1. nothing outside the caller's bytes
        if let Some(&o) = seen.written.iter().find(|&&o| o < 0) {
            self.fail("underrun", &format!("wrote {} byte(s) BEFORE the buffer: {}", -o, call));
            return;
        }
        if let Some(&o) = seen.written.iter().filter(|&&o| o as usize >= cap).max() {
            self.fail("overrun", &format!("wrote {} byte(s) PAST the end of the buffer (offset {} >= cap {}): {}", o as usize + 1 - cap, o, cap, call));
            return;
        }
        if cap == 0 {
            return;
        }
        let fits = cap >= full.len() + 1;
        if fits {
            self.bump("caller_fitting_cases");
        } else {
            self.bump("caller_truncating_cases");
            if (full[cap - 1] & 0xC0) == 0x80 {
                self.bump("caller_cut_inside_character_cases");
            }
        }
        if !truncating && !fits {
            if !seen.written.is_empty() {
                self.fail("partial", &format!("the text does not fit, yet {} byte(s) were written: {}", seen.written.len(), call));
            }
            return;
        }
        // 2. a terminator inside the capacity
        let buf = &seen.bytes[..cap];
        let Some(nul) = buf.iter().position(|&b| b == 0) else {
            self.fail("nul", &format!("no NUL terminator inside the buffer: {}", call));
            return;
        };
        if !seen.written.contains(&(nul as isize)) {
            self.fail("nul", &format!("the NUL at offset {} was not written by the call: {}", nul, call));
            return;
        }
        let text = &buf[..nul];
        // 3. prefix of the full text, whole characters only, everything when it fits
        if !full.starts_with(text) {
            self.fail("prefix", &format!("text b{} is not a prefix of the full text: {}", hexs(text), call));
        } else if std::str::from_utf8(text).is_err() {
            self.fail("utf8", &format!("text b{} is cut inside a character (not valid UTF-8): {}", hexs(text), call));
        } else if fits && text != full {
            self.fail("same", &format!("the text fits but b{} was stored: {}", hexs(text), call));
        }
    }
}

fn text_corpus(rng: &mut Rng, thorough: bool) -> Vec<String> {
    let atoms = ["a", "é", "ˋ", "測", "ㄘ", "𠀀", "😀", "\u{7f}", "\u{80}", "\u{7ff}", "\u{800}", "\u{ffff}", "\u{10000}", "\u{10ffff}"];
    let mut v: Vec<String> = vec!["測試".into(), "新酷音".into(), "𠀀é測a".into(), "測試測試測試測試測試測".into()];
    for a in atoms {
        v.push(a.to_string());
    }
    for a in atoms {
        for b in ["a", "é", "測", "𠀀"] {
            v.push(format!("{}{}", a, b));
            v.push(format!("{}{}", b, a));
        }
    }
    // every multi-byte width at every offset behind 0..3 bytes of padding
    for a in ["é", "測", "𠀀"] {
        for pad in 0..4 {
            v.push(format!("{}{}{}", "x".repeat(pad), a, a));
        }
    }
    for _ in 0..(if thorough { 600 } else { 60 }) {
        let n = 1 + rng.below(11) as usize;
        v.push((0..n).map(|_| *rng.pick(&atoms)).collect());
    }
    v.sort();
    v.dedup();
    v
}

unsafe fn worker_main() {
    let thorough = tier_is_thorough();
    let mut rng = Rng::new(seed_from_env() ^ 0xCA11_E7B0_F5);
    let mut sw = Sweep { out: Out::new(), stats: BTreeMap::new(), violations: 0 };
    let swept: Vec<String> = SWEPT.iter().map(|(f, b, l)| format!("{}:{}:{}", f, b, l)).collect();
    sw.out.rec(&format!("cstr callerparams => {}", swept.join(",")));

    // ---------------------------------------------------------------------------------- chewing_userphrase_get
    let dir = tempfile::tempdir().unwrap();
    let sys = CString::new(format!("{}/tests/data", repo_path())).unwrap();
    let upath = CString::new(format!("{}/:memory:", dir.path().display())).unwrap();
    eprintln!("@@ chewing_new2");
    let ctx = chewing_new2(sys.as_ptr(), upath.as_ptr(), None, std::ptr::null_mut());
    assert!(!ctx.is_null(), "chewing_new2 returned NULL");
    chewing_set_logger(ctx, None, std::ptr::null_mut());
    let mut added: Vec<(Vec<u8>, Vec<u8>)> = Vec::new();
    for (i, t) in text_corpus(&mut rng, thorough).iter().enumerate() {
        let n = t.chars().count();
        let syls: Vec<&str> = (0..n).map(|k| SYLS[(i + 2 * k + rng.below(2) as usize) % SYLS.len()]).collect();
        let bopo = syls.join(" ");
        let (p, b) = (CString::new(t.as_str()).unwrap(), CString::new(bopo.as_str()).unwrap());
        eprintln!("@@ chewing_userphrase_add x{} x{}", hexs(t.as_bytes()), hexs(bopo.as_bytes()));
        if chewing_userphrase_add(ctx, p.as_ptr(), b.as_ptr()) == 1 {
            added.push((t.as_bytes().to_vec(), bopo.into_bytes()));
            sw.bump("caller_userphrases_added");
        } else {
            sw.bump("caller_userphrases_refused");
        }
    }
    // pass 0: the protocol exactly (buffers of the reported sizes) = the full texts, in enumeration order
    let mut full: Vec<(Vec<u8>, Vec<u8>)> = Vec::new();
    {
        let mut firsts: Vec<(Guarded, Guarded)> = Vec::new();
        for (round, &canary) in CANARIES.iter().enumerate() {
            eprintln!("@@ chewing_userphrase_enumerate (exact sizes, canary {:#x})", canary);
            assert_eq!(0, chewing_userphrase_enumerate(ctx));
            let mut ix = 0;
            loop {
                let (mut pl, mut bl): (c_uint, c_uint) = (0, 0);
                if chewing_userphrase_has_next(ctx, &mut pl, &mut bl) != 1 {
                    break;
                }
                let mut pb = Guarded::new(pl as usize, canary);
                let mut bb = Guarded::new(bl as usize, canary);
                eprintln!("@@ chewing_userphrase_get entry {} phrase_len {} bopomofo_len {}", ix, pl, bl);
                let r = chewing_userphrase_get(ctx, pb.ptr(), pl, bb.ptr(), bl);
                if r != 0 {
                    sw.fail("protocol", &format!("chewing_userphrase_get = {} after has_next = 1 (entry {})", r, ix));
                }
                if round == 0 {
                    firsts.push((pb, bb));
                } else if let Some((pa, ba)) = firsts.get(ix) {
                    if (pa.cap, ba.cap) != (pb.cap, bb.cap) {
                        sw.fail("protocol", &format!("entry {}: has_next reported ({}, {}) then ({}, {}) in two enumerations of the same dictionary", ix, pa.cap, ba.cap, pl, bl));
                    } else {
                        let sp = observe(pa, &pb);
                        let sb = observe(ba, &bb);
                        let ptext: Vec<u8> = sp.bytes.iter().take(pa.cap).take_while(|&&b| b != 0).copied().collect();
                        let btext: Vec<u8> = sb.bytes.iter().take(ba.cap).take_while(|&&b| b != 0).copied().collect();
                        // the reported length is the text + NUL
                        if ptext.len() + 1 != pa.cap || btext.len() + 1 != ba.cap {
                            sw.fail("length", &format!("has_next reported ({}, {}) but buffers of these sizes received b{} / b{}", pa.cap, ba.cap, hexs(&ptext), hexs(&btext)));
                        }
                        sw.judge("chewing_userphrase_get", "phrase_buf", pa.cap, &ptext, &sp, true, "size reported by has_next");
                        sw.judge("chewing_userphrase_get", "bopomofo_buf", ba.cap, &btext, &sb, true, "size reported by has_next");
                        full.push((ptext, btext));
                    }
                }
                ix += 1;
            }
        }
    }
    sw.stats.insert("caller_userphrases_enumerated".into(), full.len() as u64);
    {
        let mut a = added.clone();
        let mut f = full.clone();
        a.sort();
        a.dedup();
        f.sort();
        if a != f {
            sw.fail("protocol", &format!("the enumeration returned {} entries, {} distinct phrases were added; first difference: {:?}",
                f.len(), a.len(), a.iter().zip(f.iter()).find(|(x, y)| x != y).map(|(x, y)| (hexs(&x.0), hexs(&y.0)))));
        }
    }
    // the sweep: every capacity 0..=longest+3, three families of (phrase capacity, bopomofo capacity)
    let longest = full.iter().map(|(p, b)| p.len().max(b.len())).max().unwrap_or(0) + 1;
    for family in 0..3 {
        for cap in 0..=longest + 3 {
            let mut firsts: Vec<(Guarded, Guarded)> = Vec::new();
            for (round, &canary) in CANARIES.iter().enumerate() {
                eprintln!("@@ chewing_userphrase_enumerate (family {}, capacity {}, canary {:#x})", family, cap, canary);
                assert_eq!(0, chewing_userphrase_enumerate(ctx));
                for (ix, (pf, bf)) in full.iter().enumerate() {
                    // capacities beyond needed+3 repeat the fitting case: skip them entry by entry
                    let (pc, bc) = match family {
                        0 => (cap, cap),
                        1 => (cap, bf.len() + 1),
                        _ => (pf.len() + 1, cap),
                    };
                    let (pc, bc) = (pc.min(pf.len() + 4), bc.min(bf.len() + 4));
                    let mut pb = Guarded::new(pc, canary);
                    let mut bb = Guarded::new(bc, canary);
                    eprintln!("@@ chewing_userphrase_get entry {} x{} phrase_len {} bopomofo_len {}", ix, hexs(pf), pc, bc);
                    let r = chewing_userphrase_get(ctx, pb.ptr(), pc as c_uint, bb.ptr(), bc as c_uint);
                    if r != 0 {
                        sw.fail("protocol", &format!("chewing_userphrase_get = {} for entry {} of {}", r, ix, full.len()));
                    }
                    if round == 0 {
                        firsts.push((pb, bb));
                    } else {
                        let (pa, ba) = &firsts[ix];
                        let skip_p = (family == 0 || family == 1) && cap > pf.len() + 4;
                        let skip_b = (family == 0 || family == 2) && cap > bf.len() + 4;
                        if family != 2 && !skip_p {
                            let s = observe(pa, &pb);
                            sw.judge("chewing_userphrase_get", "phrase_buf", pc, pf, &s, true, &format!("bopomofo_len {}", bc));
                        }
                        if family != 1 && !skip_b {
                            let s = observe(ba, &bb);
                            sw.judge("chewing_userphrase_get", "bopomofo_buf", bc, bf, &s, true, &format!("phrase_len {}", pc));
                        }
                    }
                }
                let r = chewing_userphrase_get(ctx, std::ptr::null_mut(), 0, std::ptr::null_mut(), 0);
                if r != -1 {
                    sw.fail("protocol", &format!("chewing_userphrase_get = {} after the last entry", r));
                }
            }
        }
    }
    eprintln!("@@ chewing_delete");
    chewing_delete(ctx);

    // ---------------------------------------------------------------------------------- chewing_phone_to_bopomofo
    let mut phones: Vec<u16> = Vec::new();
    for p in 0..=0xFFFFu32 {
        let p = p as u16;
        let needed = chewing_phone_to_bopomofo(p, std::ptr::null_mut(), 0);
        if needed > 0 {
            phones.push(p);
        } else {
            sw.bump("caller_phone_rejected");
            // a rejected value writes nothing whatever the buffer
            if p % 97 == 0 {
                let mut a = Guarded::new(24, CANARIES[0]);
                let mut b = Guarded::new(24, CANARIES[1]);
                let r = chewing_phone_to_bopomofo(p, a.ptr(), 24);
                chewing_phone_to_bopomofo(p, b.ptr(), 24);
                let s = observe(&a, &b);
                if r >= 0 || !s.written.is_empty() {
                    sw.fail("rejected", &format!("chewing_phone_to_bopomofo({:#x}) = {} (rejected value) wrote {} byte(s)", p, r, s.written.len()));
                }
            }
        }
    }
    sw.stats.insert("caller_phone_accepted".into(), phones.len() as u64);
    let step = if thorough { 1 } else { 23 };
    let mut k = (seed_from_env() % step as u64) as usize;
    while k < phones.len() {
        let p = phones[k];
        k += step;
        let needed = chewing_phone_to_bopomofo(p, std::ptr::null_mut(), 0) as usize;
        // the full text: a buffer of exactly the reported size
        let mut fb = Guarded::new(needed, CANARIES[0]);
        chewing_phone_to_bopomofo(p, fb.ptr(), needed as u16);
        let fulltext: Vec<u8> = fb.mem[PRE..PRE + needed].iter().take_while(|&&b| b != 0).copied().collect();
        if fulltext.len() + 1 != needed {
            sw.fail("length", &format!("chewing_phone_to_bopomofo({:#x}) = {} but a buffer of that size received b{}", p, needed, hexs(&fulltext)));
            continue;
        }
        for cap in 0..=needed + 3 {
            let mut a = Guarded::new(cap, CANARIES[0]);
            let mut b = Guarded::new(cap, CANARIES[1]);
            eprintln!("@@ chewing_phone_to_bopomofo {:#x} len {}", p, cap);
            let r = chewing_phone_to_bopomofo(p, a.ptr(), cap as u16);
            let r2 = chewing_phone_to_bopomofo(p, b.ptr(), cap as u16);
            if r as usize != needed || r2 != r {
                sw.fail("length", &format!("chewing_phone_to_bopomofo({:#x}, len {}) = {} / {}, with len 0 it was {}", p, cap, r, r2, needed));
            }
            let s = observe(&a, &b);
            sw.judge("chewing_phone_to_bopomofo", "buf", cap, &fulltext, &s, false, &format!("phone {:#x}", p));
        }
    }
    let stats = std::mem::take(&mut sw.stats);
    for (k, v) in &stats {
        sw.out.stat(k, v);
    }
    sw.out.stat("caller_oracle_violations", sw.violations);
    sw.out.sample(&format!("caller-buffer sweep: {} user phrases x capacities 0..needed+3 x 3 families, {} phone values", full.len(), phones.len().div_ceil(step)));
    sw.out.flush();
}

fn main() {
    let args: Vec<String> = std::env::args().collect();
    if args.get(1).map(|s| s.as_str()) == Some("--worker") {
        unsafe { worker_main() };
        return;
    }
    let exe = std::env::current_exe().unwrap();
    let child = Command::new(exe).arg("--worker").stdout(Stdio::piped()).stderr(Stdio::piped()).spawn().unwrap();
    let res = child.wait_with_output().unwrap();
    let stdout = std::io::stdout();
    let mut o = stdout.lock();
    o.write_all(&res.stdout).unwrap();
    if !res.stdout.ends_with(b"\n") && !res.stdout.is_empty() {
        o.write_all(b"\n").unwrap();
    }
    if !res.status.success() {
        let err = String::from_utf8_lossy(&res.stderr);
        let last = err.lines().filter(|l| l.starts_with("@@ ")).last().unwrap_or("@@ (before the first call)").to_string();
        let tail: Vec<&str> = err.lines().filter(|l| !l.starts_with("@@ ")).rev().take(3).collect();
        writeln!(o, "!oracle C15 new caller-crash the caller-buffer sweep died ({}) in: {} -- {}", res.status, &last[3..], tail.join(" | ")).unwrap();
    }
    writeln!(o, "#stat caller_worker_ok {}", res.status.success() as u8).unwrap();
}
