#![allow(deprecated)]
//! C01 through the C API: random call histories replayed in child processes.
//!
//! A panic inside an `extern "C"` function aborts the process, so every history runs in a worker
//! (this binary re-executed with `--worker`).  The worker writes the call it is about to make (and a
//! one-byte tag for every getter it is about to read) to a progress file, unbuffered, and re-arms a
//! per-call `alarm(2)` watchdog; the parent learns from exit status + progress file + captured
//! stderr which call aborted / hung.  NO KNOWN CLASS REMAINS: every failing history is reported as
//! `new`.  The former class `no-word-for-buffered-syllable` (findings F02 and F03: some syllable in the
//! pre-edit buffer has no one-syllable word under a lookup strategy in force — the conversion engine's,
//! or that of an open candidate list) was repaired in the repository (43e8036, 0f255ea, ce48759); its
//! *state predicate* is still evaluated on the real context right before a failing call (`--inspect`)
//! as information for the reader, and on a sample of the generated histories before EVERY call
//! (`--scan`) as a statistic (`calls_from_noword_state`, …): the evidence must show that word-less
//! states are exercised.  The former witnesses (F02, F03, the simple-engine hang) stay in the directed
//! corpus as plain regression histories, followed by the calls an application can make next.  The
//! panic's source file and message kind are reported for information only.  A few failures per site
//! are shrunk (calls dropped while the history still fails at the same site).
//!
//! Oracle only: there are no model records for the C layer (the editor-level behaviour behind every
//! call is covered by the `editor` harness + Lean model); the records this binary prints are
//! `#stat`/`#sample` lines and `!oracle C01 <class> <history>` verdicts.
use chewing::dictionary::{Dictionary, DictionaryMut, LookupStrategy, Phrase, SystemDictionaryLoader, Trie, TrieBuf};
use chewing::zhuyin::Syllable;
use chewing_capi::candidates::*;
use chewing_capi::globals::*;
use chewing_capi::input::*;
use chewing_capi::layout::*;
use chewing_capi::modes::*;
use chewing_capi::output::*;
use chewing_capi::setup::*;
use chewing_capi::userphrase::*;
use chewing_capi::version::*;
use std::collections::BTreeMap;
use std::ffi::{c_char, c_int, c_uint, c_void, CStr, CString};
use std::fs::File;
use std::io::{Read, Write};
use std::os::unix::process::ExitStatusExt;
use std::path::{Path, PathBuf};
use std::process::{Command, Stdio};
use std::sync::atomic::{AtomicUsize, Ordering};
use std::sync::{Arc, Mutex};
use std::time::{Duration, Instant};
use vharness::*;

const OPTIONS_INT: [&str; 13] = [
    "chewing.user_phrase_add_direction",
    "chewing.disable_auto_learn_phrase",
    "chewing.auto_shift_cursor",
    "chewing.candidates_per_page",
    "chewing.language_mode",
    "chewing.easy_symbol_input",
    "chewing.esc_clear_all_buffer",
    "chewing.auto_commit_threshold",
    "chewing.phrase_choice_rearward",
    "chewing.character_form",
    "chewing.space_is_select_key",
    "chewing.conversion_engine",
    "chewing.enable_fullwidth_toggle_key",
];

const SIMPLE_KEYS: [&str; 19] = [
    "space", "esc", "enter", "del", "backspace", "tab", "shiftleft", "left", "shiftright", "right", "up", "home", "end",
    "pageup", "pagedown", "down", "capslock", "shiftspace", "dbltab",
];

fn repo() -> String {
    std::env::var("VERIF_REPO").unwrap_or_else(|_| "/repo".to_string())
}

// ------------------------------------------------------------------ worker side

/// progress record shared with the parent through a memory-mapped file (plain stores: no system
/// call per getter): [0..4) history index, [4..8) call index, [8] phase (0 = in the call, 1 = in the
/// getters, 2 = context creation / deletion), [9] getter tag, [10] = b'E' when all histories ran
struct Progress(*mut u8);

impl Progress {
    fn open(path: &str) -> Progress {
        let f = std::fs::OpenOptions::new().read(true).write(true).create(true).truncate(true).open(path).unwrap();
        f.set_len(64).unwrap();
        use std::os::unix::io::AsRawFd;
        let p = unsafe { libc::mmap(std::ptr::null_mut(), 64, libc::PROT_READ | libc::PROT_WRITE, libc::MAP_SHARED, f.as_raw_fd(), 0) };
        assert!(p != libc::MAP_FAILED);
        Progress(p as *mut u8)
    }
    fn null() -> Progress {
        Progress(Box::leak(Box::new([0u8; 64])).as_mut_ptr())
    }
    fn put32(&mut self, off: usize, v: u32) {
        for (i, b) in v.to_le_bytes().iter().enumerate() {
            unsafe { self.0.add(off + i).write_volatile(*b) }
        }
    }
    fn hist(&mut self, h: usize) {
        self.put32(0, h as u32);
        self.put32(4, 0);
        self.phase(2);
    }
    fn call(&mut self, c: usize) {
        self.put32(4, c as u32);
        self.phase(0);
    }
    fn phase(&mut self, p: u8) {
        unsafe { self.0.add(8).write_volatile(p) }
    }
    fn tag(&mut self, t: u8) {
        unsafe { self.0.add(9).write_volatile(t) }
    }
    fn end(&mut self) {
        unsafe { self.0.add(10).write_volatile(b'E') }
    }
}

fn cs(s: &str) -> CString {
    CString::new(s.as_bytes().iter().cloned().filter(|b| *b != 0).collect::<Vec<u8>>()).unwrap()
}

fn unhex_s(tok: &str) -> Vec<u8> {
    unhex(tok)
}

unsafe fn new_ctx(dict: &str) -> *mut ChewingContext {
    let sys = if dict == "testdata" { format!("{}/tests/data", repo()) } else { "/nonexistent-verif-syspath".to_string() };
    let sys = cs(&sys);
    let user = cs(":memory:");
    unsafe { chewing_new2(sys.as_ptr(), user.as_ptr(), None, std::ptr::null_mut()) }
}

/// one call of a history (text form, see `gen_history`)
unsafe fn run_call(ctx: *mut ChewingContext, call: &str) {
    let t: Vec<&str> = call.split(' ').collect();
    let int = |i: usize| -> c_int { t.get(i).and_then(|x| x.parse::<i64>().ok()).unwrap_or(0) as c_int };
    unsafe {
        match t[0] {
            "k" => {
                match t[1] {
                    "space" => chewing_handle_Space(ctx),
                    "esc" => chewing_handle_Esc(ctx),
                    "enter" => chewing_handle_Enter(ctx),
                    "del" => chewing_handle_Del(ctx),
                    "backspace" => chewing_handle_Backspace(ctx),
                    "tab" => chewing_handle_Tab(ctx),
                    "shiftleft" => chewing_handle_ShiftLeft(ctx),
                    "left" => chewing_handle_Left(ctx),
                    "shiftright" => chewing_handle_ShiftRight(ctx),
                    "right" => chewing_handle_Right(ctx),
                    "up" => chewing_handle_Up(ctx),
                    "home" => chewing_handle_Home(ctx),
                    "end" => chewing_handle_End(ctx),
                    "pageup" => chewing_handle_PageUp(ctx),
                    "pagedown" => chewing_handle_PageDown(ctx),
                    "down" => chewing_handle_Down(ctx),
                    "capslock" => chewing_handle_Capslock(ctx),
                    "shiftspace" => chewing_handle_ShiftSpace(ctx),
                    _ => chewing_handle_DblTab(ctx),
                };
            }
            "d" => {
                chewing_handle_Default(ctx, int(1));
            }
            "n" => {
                chewing_handle_Numlock(ctx, int(1));
            }
            "c" => {
                chewing_handle_CtrlNum(ctx, int(1));
            }
            "ci" => {
                let name = cs(t[1]);
                chewing_config_set_int(ctx, name.as_ptr(), int(2));
            }
            "cs" => {
                let name = cs(t[1]);
                let v = CString::new(unhex_s(t[2]).into_iter().filter(|b| *b != 0).collect::<Vec<u8>>()).unwrap();
                chewing_config_set_str(ctx, name.as_ptr(), v.as_ptr());
            }
            "kb" => {
                chewing_set_KBType(ctx, int(1));
            }
            "set" => match t[1] {
                "chieng" => chewing_set_ChiEngMode(ctx, int(2)),
                "shape" => chewing_set_ShapeMode(ctx, int(2)),
                "perpage" => chewing_set_candPerPage(ctx, int(2)),
                "maxlen" => chewing_set_maxChiSymbolLen(ctx, int(2)),
                "adddir" => chewing_set_addPhraseDirection(ctx, int(2)),
                "spacesel" => chewing_set_spaceAsSelection(ctx, int(2)),
                "escclean" => chewing_set_escCleanAllBuf(ctx, int(2)),
                "autoshift" => chewing_set_autoShiftCur(ctx, int(2)),
                "easysym" => chewing_set_easySymbolInput(ctx, int(2)),
                "rearward" => chewing_set_phraseChoiceRearward(ctx, int(2)),
                "autolearn" => chewing_set_autoLearn(ctx, int(2)),
                _ => chewing_set_hsuSelKeyType(ctx, int(2)),
            },
            "selkey" => {
                let keys: Vec<c_int> = (1..t.len()).map(int).collect();
                chewing_set_selKey(ctx, keys.as_ptr(), keys.len() as c_int);
            }
            "co" => {
                chewing_cand_open(ctx);
            }
            "cc" => {
                chewing_cand_close(ctx);
            }
            "cx" => {
                chewing_cand_choose_by_index(ctx, int(1));
            }
            "cf" => {
                chewing_cand_list_first(ctx);
            }
            "cl" => {
                chewing_cand_list_last(ctx);
            }
            "cn" => {
                chewing_cand_list_next(ctx);
            }
            "cp" => {
                chewing_cand_list_prev(ctx);
            }
            "ua" | "ur" | "ul" => {
                let p = CString::new(unhex_s(t[1]).into_iter().filter(|b| *b != 0).collect::<Vec<u8>>()).unwrap();
                let b = CString::new(unhex_s(t[2]).into_iter().filter(|b| *b != 0).collect::<Vec<u8>>()).unwrap();
                let pp = if t[1] == "-" { std::ptr::null() } else { p.as_ptr() };
                match t[0] {
                    "ua" => chewing_userphrase_add(ctx, pp, b.as_ptr()),
                    "ur" => chewing_userphrase_remove(ctx, pp, b.as_ptr()),
                    _ => chewing_userphrase_lookup(ctx, pp, b.as_ptr()),
                };
            }
            "ue" => {
                // enumerate with caller buffers of the given sizes (-1 = the size has_next reports)
                let (ps, bs) = (int(1), int(2));
                chewing_userphrase_enumerate(ctx);
                let mut guard = 0;
                loop {
                    let (mut pl, mut bl): (c_uint, c_uint) = (0, 0);
                    if chewing_userphrase_has_next(ctx, &mut pl, &mut bl) != 1 {
                        break;
                    }
                    // -1 = the size has_next reports; -2 = a buffer of that size announced as UINT_MAX bytes
                    // (what a C caller passing -1 for the unsigned size gets)
                    let pn = if ps < 0 { pl as usize } else { ps as usize };
                    let bn = if bs < 0 { bl as usize } else { bs as usize };
                    let mut pbuf = vec![0u8; pn.max(1)];
                    let mut bbuf = vec![0u8; bn.max(1)];
                    let pcap = if ps == -2 { c_uint::MAX } else { pn as c_uint };
                    let bcap = if bs == -2 { c_uint::MAX } else { bn as c_uint };
                    let r = if ps == -3 {
                        chewing_userphrase_get(ctx, std::ptr::null_mut(), 0, bbuf.as_mut_ptr().cast(), bcap)
                    } else {
                        chewing_userphrase_get(ctx, pbuf.as_mut_ptr().cast(), pcap, bbuf.as_mut_ptr().cast(), bcap)
                    };
                    guard += 1;
                    if r != 0 || guard > 200 {
                        break;
                    }
                }
            }
            "uep" => {
                // start an enumeration and leave it pending (one has_next, one get): later `ug` calls read it after
                // whatever happened to the user dictionary in between (F22: the iterator must own a snapshot)
                chewing_userphrase_enumerate(ctx);
                let (mut pl, mut bl): (c_uint, c_uint) = (0, 0);
                if chewing_userphrase_has_next(ctx, &mut pl, &mut bl) == 1 {
                    let mut pbuf = vec![0u8; pl as usize + 1];
                    let mut bbuf = vec![0u8; bl as usize + 1];
                    chewing_userphrase_get(ctx, pbuf.as_mut_ptr().cast(), pl, bbuf.as_mut_ptr().cast(), bl);
                }
            }
            "reset" => {
                chewing_Reset(ctx);
            }
            "ack" => {
                chewing_ack(ctx);
            }
            "commit" => {
                chewing_commit_preedit_buf(ctx);
            }
            "cleanpre" => {
                chewing_clean_preedit_buf(ctx);
            }
            "cleanbopo" => {
                chewing_clean_bopomofo_buf(ctx);
            }
            "ug" => {
                // get without enumerate / past the end
                let mut pbuf = vec![0u8; 64];
                let mut bbuf = vec![0u8; 64];
                chewing_userphrase_get(ctx, pbuf.as_mut_ptr().cast(), 64, bbuf.as_mut_ptr().cast(), 64);
                let (mut pl, mut bl): (c_uint, c_uint) = (0, 0);
                chewing_userphrase_has_next(ctx, &mut pl, &mut bl);
                chewing_userphrase_has_next(ctx, std::ptr::null_mut(), std::ptr::null_mut());
            }
            "p2b" => {
                // pure helper: any 16-bit phone value, any buffer size
                let len = int(2).clamp(0, 64) as usize;
                let mut buf = vec![0u8; len.max(1)];
                chewing_phone_to_bopomofo(int(1) as u16, buf.as_mut_ptr().cast(), len as u16);
                chewing_phone_to_bopomofo(int(1) as u16, std::ptr::null_mut(), 0);
            }
            "kbs" => {
                let v = CString::new(unhex_s(t[1]).into_iter().filter(|b| *b != 0).collect::<Vec<u8>>()).unwrap();
                chewing_KBStr2Num(v.as_ptr());
            }
            "configure" => {
                // legacy bulk configuration (ChewingConfigData is repr(C): 2 ints, 10 selection keys, 7 ints)
                let mut data: [c_int; 19] = [0; 19];
                for (i, d) in data.iter_mut().enumerate() {
                    *d = int(1 + i);
                }
                chewing_Configure(ctx, data.as_mut_ptr().cast());
                chewing_Configure(ctx, std::ptr::null_mut());
            }
            "nolog" => {
                chewing_set_logger(ctx, None, std::ptr::null_mut());
            }
            "kbt" => {
                // keyboard-type enumeration read n times without asking hasNext (far past its end), both getter variants
                chewing_kbtype_Enumerate(ctx);
                for i in 0..int(1).clamp(0, 2000) {
                    if i % 3 == 2 {
                        chewing_kbtype_hasNext(ctx);
                    }
                    if i % 2 == 0 {
                        free_s(chewing_kbtype_String(ctx));
                    } else {
                        chewing_kbtype_String_static(ctx);
                    }
                }
            }
            "sbi" => {
                // cand_string_by_index(_static) with an arbitrary index
                chewing_cand_string_by_index_static(ctx, int(1));
                let p = chewing_cand_string_by_index(ctx, int(1));
                chewing_free(p.cast());
            }
            _ => {}
        }
    }
}

unsafe fn free_s(p: *mut c_char) {
    unsafe { chewing_free(p as *mut c_void) }
}

/// every getter, each announced by a one-byte tag
unsafe fn getters(ctx: *mut ChewingContext, pr: &mut Progress) {
    unsafe {
        pr.tag(b'a');
        chewing_commit_Check(ctx);
        pr.tag(b'b');
        free_s(chewing_commit_String(ctx));
        chewing_commit_String_static(ctx);
        pr.tag(b'c');
        chewing_buffer_Check(ctx);
        chewing_buffer_Len(ctx);
        pr.tag(b'd');
        free_s(chewing_buffer_String(ctx));
        pr.tag(b'e');
        chewing_buffer_String_static(ctx);
        pr.tag(b'f');
        chewing_bopomofo_Check(ctx);
        chewing_bopomofo_String_static(ctx);
        free_s(chewing_bopomofo_String(ctx));
        chewing_zuin_Check(ctx);
        let mut zc: c_int = 0;
        free_s(chewing_zuin_String(ctx, &mut zc));
        pr.tag(b'g');
        chewing_cursor_Current(ctx);
        pr.tag(b'h');
        chewing_cand_CheckDone(ctx);
        pr.tag(b'i');
        chewing_cand_TotalPage(ctx);
        pr.tag(b'j');
        chewing_cand_ChoicePerPage(ctx);
        pr.tag(b'k');
        let total = chewing_cand_TotalChoice(ctx);
        pr.tag(b'l');
        chewing_cand_CurrentPage(ctx);
        pr.tag(b'm');
        chewing_cand_Enumerate(ctx);
        let mut n = 0;
        while chewing_cand_hasNext(ctx) == 1 && n < 400 {
            if n % 2 == 0 {
                free_s(chewing_cand_String(ctx));
            } else {
                chewing_cand_String_static(ctx);
            }
            n += 1;
        }
        pr.tag(b'n');
        for i in [-1, 0, 1, total - 1, total, total + 1, c_int::MAX, c_int::MIN] {
            chewing_cand_string_by_index_static(ctx, i);
            free_s(chewing_cand_string_by_index(ctx, i));
        }
        pr.tag(b'o');
        chewing_cand_list_has_next(ctx);
        pr.tag(b'p');
        chewing_cand_list_has_prev(ctx);
        pr.tag(b'q');
        chewing_interval_Enumerate(ctx);
        let mut n = 0;
        while chewing_interval_hasNext(ctx) == 1 && n < 100 {
            let mut it = IntervalType { from: 0, to: 0 };
            chewing_interval_Get(ctx, &mut it);
            n += 1;
        }
        pr.tag(b'r');
        chewing_aux_Check(ctx);
        chewing_aux_Length(ctx);
        free_s(chewing_aux_String(ctx));
        chewing_aux_String_static(ctx);
        pr.tag(b's');
        chewing_keystroke_CheckIgnore(ctx);
        chewing_keystroke_CheckAbsorb(ctx);
        pr.tag(b't');
        chewing_get_KBType(ctx);
        free_s(chewing_get_KBString(ctx));
        chewing_kbtype_Total(ctx);
        chewing_kbtype_Enumerate(ctx);
        let mut n = 0;
        while chewing_kbtype_hasNext(ctx) == 1 && n < 40 {
            if n % 2 == 0 {
                free_s(chewing_kbtype_String(ctx));
            } else {
                chewing_kbtype_String_static(ctx);
            }
            n += 1;
        }
        pr.tag(b'u');
        chewing_get_phoneSeqLen(ctx);
        let p = chewing_get_phoneSeq(ctx);
        chewing_free(p.cast());
        pr.tag(b'v');
        for o in OPTIONS_INT {
            let name = cs(o);
            chewing_config_has_option(ctx, name.as_ptr());
            chewing_config_get_int(ctx, name.as_ptr());
        }
        chewing_get_ChiEngMode(ctx);
        chewing_get_ShapeMode(ctx);
        chewing_get_candPerPage(ctx);
        chewing_get_maxChiSymbolLen(ctx);
        chewing_get_selKey(ctx);
        chewing_get_addPhraseDirection(ctx);
        chewing_get_spaceAsSelection(ctx);
        chewing_get_escCleanAllBuf(ctx);
        chewing_get_autoShiftCur(ctx);
        chewing_get_easySymbolInput(ctx);
        chewing_get_phraseChoiceRearward(ctx);
        chewing_get_autoLearn(ctx);
        chewing_get_hsuSelKeyType(ctx);
        chewing_version();
        chewing_version_major();
        chewing_version_minor();
        chewing_version_patch();
        chewing_version_extra();
        pr.tag(b'w');
        let mut out: *mut c_char = std::ptr::null_mut();
        let name = cs("chewing.keyboard_type");
        if chewing_config_get_str(ctx, name.as_ptr(), &mut out) == 0 {
            free_s(out);
        }
        pr.tag(b'x');
        let name = cs("chewing.selection_keys");
        let mut out: *mut c_char = std::ptr::null_mut();
        if chewing_config_get_str(ctx, name.as_ptr(), &mut out) == 0 {
            free_s(out);
        }
        pr.tag(b'.');
    }
}

fn getter_name(tag: u8) -> &'static str {
    match tag {
        b'a' => "commit_Check",
        b'b' => "commit_String",
        b'c' => "buffer_Check/Len",
        b'd' => "buffer_String",
        b'e' => "buffer_String_static",
        b'f' => "bopomofo_String",
        b'g' => "cursor_Current",
        b'h' => "cand_CheckDone",
        b'i' => "cand_TotalPage",
        b'j' => "cand_ChoicePerPage",
        b'k' => "cand_TotalChoice",
        b'l' => "cand_CurrentPage",
        b'm' => "cand_Enumerate/String",
        b'n' => "cand_string_by_index",
        b'o' => "cand_list_has_next",
        b'p' => "cand_list_has_prev",
        b'q' => "interval_Enumerate/Get",
        b'r' => "aux_String",
        b's' => "keystroke_Check",
        b't' => "kbtype getters",
        b'u' => "get_phoneSeq",
        b'v' => "config_get_int",
        b'w' => "config_get_str(keyboard_type)",
        b'x' => "config_get_str(selection_keys)",
        _ => "?",
    }
}

#[repr(C)]
struct ITimerVal {
    interval: libc::timeval,
    value: libc::timeval,
}

extern "C" {
    fn setitimer(which: c_int, new_value: *const ITimerVal, old_value: *mut ITimerVal) -> c_int;
}

/// arm (0 = disarm) the CPU-time timer of this process: ITIMER_VIRTUAL = 1, delivers SIGVTALRM
unsafe fn cpu_watchdog(secs: i64) {
    let t = ITimerVal {
        interval: libc::timeval { tv_sec: 0, tv_usec: 0 },
        value: libc::timeval { tv_sec: secs as libc::time_t, tv_usec: 0 },
    };
    unsafe {
        setitimer(1, &t, std::ptr::null_mut());
    }
}

/// `--worker <histories file> <progress file> <first history>`: runs histories `first..`
fn worker(args: &[String]) {
    let text = std::fs::read_to_string(&args[0]).unwrap();
    let mut pr = Progress::open(&args[1]);
    let first: usize = args[2].parse().unwrap();
    let with_getters = args.get(3).map(|s| s != "nogetters").unwrap_or(true);
    for (hi, h) in text.lines().enumerate().skip(first) {
        let (dict, calls) = h.split_once(" | ").unwrap_or((h, ""));
        pr.hist(hi);
        unsafe {
            libc::alarm(20);
            let ctx = new_ctx(dict);
            if ctx.is_null() {
                continue;
            }
            for (ci, call) in calls.split(" ; ").enumerate() {
                if call.is_empty() {
                    continue;
                }
                // per-call watchdog: 1 s of CPU time of this process (SIGVTALRM; not disturbed by load on a
                // shared machine) and 10 s of wall time (SIGALRM; catches a call that blocks)
                cpu_watchdog(1);
                libc::alarm(10);
                pr.call(ci);
                run_call(ctx, call);
                if with_getters {
                    pr.tag(b'a');
                    pr.phase(1);
                    getters(ctx, &mut pr);
                }
            }
            cpu_watchdog(0);
            libc::alarm(20);
            pr.phase(2);
            chewing_delete(ctx);
            libc::alarm(0);
        }
    }
    pr.end();
}

/// `--inspect <history file> <out file> <n calls> <getters after the last call: 0|1>`: replays the first
/// `n` calls (with getters, except after the last one unless asked) and dumps the facts the class
/// predicates need, read through calls that cannot reach a conversion.
fn inspect(args: &[String]) {
    let text = std::fs::read_to_string(&args[0]).unwrap();
    let mut out = File::create(&args[1]).unwrap();
    let n: usize = args[2].parse().unwrap();
    let h = text.lines().next().unwrap();
    let (dict, calls) = h.split_once(" | ").unwrap_or((h, ""));
    let mut sink = Progress::null();
    unsafe {
        libc::alarm(10);
        let ctx = new_ctx(dict);
        let calls: Vec<&str> = calls.split(" ; ").filter(|c| !c.is_empty()).collect();
        let geti = |name: &str| -> c_int {
            let name = cs(name);
            chewing_config_get_int(ctx, name.as_ptr())
        };
        // A candidate list keeps the lookup strategy it was opened with (it is rebuilt by some keys while
        // open), which no getter shows: remember every engine in force since the list was last closed.
        let mut sel_engines: Vec<c_int> = vec![];
        let mut was_selecting = false;
        for (ci, call) in calls.iter().enumerate().take(n) {
            let before = geti("chewing.conversion_engine");
            run_call(ctx, call);
            let selecting = chewing_cand_CheckDone(ctx) == 0;
            if selecting {
                if !was_selecting {
                    sel_engines.clear();
                }
                for e in [before, geti("chewing.conversion_engine")] {
                    if !sel_engines.contains(&e) {
                        sel_engines.push(e);
                    }
                }
            } else {
                sel_engines.clear();
            }
            was_selecting = selecting;
            if ci + 1 < n {
                getters(ctx, &mut sink);
            }
        }
        let _ = writeln!(out, "selengines {}", sel_engines.iter().map(|s| s.to_string()).collect::<Vec<_>>().join(" "));
        let _ = writeln!(out, "engine {}", geti("chewing.conversion_engine"));
        let _ = writeln!(out, "selecting {}", (chewing_cand_CheckDone(ctx) == 0) as u8);
        let len = chewing_get_phoneSeqLen(ctx).max(0) as usize;
        let p = chewing_get_phoneSeq(ctx);
        let syls: Vec<u16> = if p.is_null() { vec![] } else { std::slice::from_raw_parts(p, len).to_vec() };
        let _ = writeln!(out, "syls {}", syls.iter().map(|s| s.to_string()).collect::<Vec<_>>().join(" "));
        for (ps, bs) in user_phrases(ctx) {
            let _ = writeln!(out, "user {} {}", hbytes(&ps), hbytes(&bs));
        }
        let _ = writeln!(out, "END");
    }
}

/// `--scan <histories file> <out file>`: STATISTIC only.  Replays every history of the file (no getters, same
/// per-call watchdog) and evaluates the former class predicate — some buffered syllable has no word under a lookup
/// strategy in force — on the real context BEFORE every call.  One line per history:
/// `<index> <calls> <calls from a word-less state> <engine bit mask there> <with a list open> <rearward choice> <candidate-list calls / Down / Tab / Enter there>`
fn scan(args: &[String]) {
    let text = std::fs::read_to_string(&args[0]).unwrap();
    let mut out = std::fs::OpenOptions::new().create(true).append(true).open(&args[1]).unwrap();
    let first: usize = args[2].parse().unwrap();
    let mut probes: BTreeMap<String, Probe> = BTreeMap::new();
    for (hi, h) in text.lines().enumerate().skip(first) {
        let (dict, calls) = h.split_once(" | ").unwrap_or((h, ""));
        let probe = probes.entry(dict.to_string()).or_insert_with(|| Probe::load(dict));
        let _ = writeln!(out, "begin {}", hi);
        let (mut n, mut n_noword, mut engines, mut n_open, mut n_rear, mut n_list_calls) = (0u64, 0u64, 0u8, 0u64, 0u64, 0u64);
        unsafe {
            libc::alarm(20);
            let ctx = new_ctx(dict);
            if ctx.is_null() {
                continue;
            }
            let geti = |name: &str| -> c_int {
                let name = cs(name);
                chewing_config_get_int(ctx, name.as_ptr())
            };
            let mut sel_engines: Vec<i64> = vec![];
            let mut was_selecting = false;
            for call in calls.split(" ; ").filter(|c| !c.is_empty()) {
                cpu_watchdog(2);
                libc::alarm(10);
                let before = geti("chewing.conversion_engine") as i64;
                let selecting = chewing_cand_CheckDone(ctx) == 0;
                let len = chewing_get_phoneSeqLen(ctx).max(0) as usize;
                let p = chewing_get_phoneSeq(ctx);
                let syls: Vec<u16> = if p.is_null() { vec![] } else { std::slice::from_raw_parts(p, len).to_vec() };
                chewing_free(p.cast());
                let user = user_phrases(ctx)
                    .into_iter()
                    .map(|(p, b)| (String::from_utf8_lossy(&p).to_string(), String::from_utf8_lossy(&b).to_string()))
                    .collect();
                let facts = Facts { engine: before, selecting, sel_engines: sel_engines.clone(), syls, user, ok: true };
                n += 1;
                if probe.no_word(&facts).is_some() {
                    n_noword += 1;
                    engines |= 1 << before.clamp(0, 2);
                    n_open += selecting as u64;
                    n_rear += (geti("chewing.phrase_choice_rearward") == 1) as u64;
                    let t: Vec<&str> = call.split(' ').collect();
                    n_list_calls += (matches!(t[0], "co" | "cf" | "cl" | "cn" | "cp" | "cx") || (t[0] == "k" && matches!(t[1], "down" | "tab" | "enter" | "space"))) as u64;
                }
                run_call(ctx, call);
                let selecting = chewing_cand_CheckDone(ctx) == 0;
                if selecting {
                    if !was_selecting {
                        sel_engines.clear();
                    }
                    for e in [before, geti("chewing.conversion_engine") as i64] {
                        if !sel_engines.contains(&e) {
                            sel_engines.push(e);
                        }
                    }
                } else {
                    sel_engines.clear();
                }
                was_selecting = selecting;
            }
            cpu_watchdog(0);
            libc::alarm(20);
            chewing_delete(ctx);
            libc::alarm(0);
        }
        let _ = writeln!(out, "hist {} {} {} {} {} {} {}", hi, n, n_noword, engines, n_open, n_rear, n_list_calls);
    }
    let _ = writeln!(out, "END");
}

/// the user phrases the context enumerates: (phrase, bopomofo) as bytes
unsafe fn user_phrases(ctx: *mut ChewingContext) -> Vec<(Vec<u8>, Vec<u8>)> {
    let mut v = vec![];
    unsafe {
        chewing_userphrase_enumerate(ctx);
        let mut guard = 0;
        loop {
            let (mut pl, mut bl): (c_uint, c_uint) = (0, 0);
            if chewing_userphrase_has_next(ctx, &mut pl, &mut bl) != 1 || guard > 2000 {
                break;
            }
            guard += 1;
            let mut pbuf = vec![0u8; pl as usize + 8];
            let mut bbuf = vec![0u8; bl as usize + 8];
            if chewing_userphrase_get(ctx, pbuf.as_mut_ptr().cast(), pbuf.len() as c_uint, bbuf.as_mut_ptr().cast(), bbuf.len() as c_uint) != 0 {
                break;
            }
            v.push((CStr::from_ptr(pbuf.as_ptr().cast()).to_bytes().to_vec(), CStr::from_ptr(bbuf.as_ptr().cast()).to_bytes().to_vec()));
        }
    }
    v
}

// ------------------------------------------------------------------ generator

const CONS: &[u8] = b"1qaz2wsxedcrfv5tgbyhn";
const MED: &[u8] = b"ujm";
const VOW: &[u8] = b"8ik,9ol.0p;/-";
const TONE: &[u8] = b" 6347";
const STD_KEYS: &str = "1qaz2wsxedcrfv5tgbyhnujm8ik,9ol.0p;/-";
const STD_BOPO: &str = "ㄅㄆㄇㄈㄉㄊㄋㄌㄍㄎㄏㄐㄑㄒㄓㄔㄕㄖㄗㄘㄙㄧㄨㄩㄚㄛㄜㄝㄞㄟㄠㄡㄢㄣㄤㄥㄦ";

/// Standard-layout keys of a bopomofo syllable string such as "ㄘㄜˋ"
fn keys_of(bopomofo: &str) -> Vec<u8> {
    let ks: Vec<char> = STD_KEYS.chars().collect();
    let bs: Vec<char> = STD_BOPO.chars().collect();
    let mut out = vec![];
    let mut tone = b' ';
    for ch in bopomofo.chars() {
        if let Some(i) = bs.iter().position(|b| *b == ch) {
            out.push(ks[i] as u8);
        } else {
            tone = match ch {
                'ˊ' => b'6',
                'ˇ' => b'3',
                'ˋ' => b'4',
                '˙' => b'7',
                _ => b' ',
            };
        }
    }
    out.push(tone);
    out
}

const USER_POOL: [(&str, &str); 10] = [
    ("喔", "ㄛ"),
    ("哦", "ㄛˊ"),
    ("策", "ㄘㄜˋ"),
    ("測試", "ㄘㄜˋ ㄕˋ"),
    ("冊市", "ㄘㄜˋ ㄕˋ"),
    ("欸", "ㄝˋ"),
    ("嗯", "ㄣ˙"),
    ("喔喔", "ㄛ ㄛ"),
    ("𠀀", "ㄅㄧㄤˋ"),
    ("測試測試測試測試測試測", "ㄘㄜˋ ㄕˋ ㄘㄜˋ ㄕˋ ㄘㄜˋ ㄕˋ ㄘㄜˋ ㄕˋ ㄘㄜˋ ㄕˋ ㄘㄜˋ"),
];

fn push_keys(calls: &mut Vec<String>, keys: &[u8]) {
    for k in keys {
        if *k == b' ' {
            calls.push("k space".into());
        } else {
            calls.push(format!("d {}", k));
        }
    }
}

fn gen_syllable(rng: &mut Rng, testdata: bool, calls: &mut Vec<String>, partial: bool) {
    let mut keys: Vec<u8> = vec![];
    if testdata && rng.chance(3, 4) {
        keys = if rng.chance(1, 2) { b"hk4".to_vec() } else { b"g4".to_vec() };
    } else {
        if rng.chance(3, 4) {
            keys.push(*rng.pick(CONS));
        }
        if rng.chance(1, 3) {
            keys.push(*rng.pick(MED));
        }
        if rng.chance(3, 4) || keys.is_empty() {
            keys.push(*rng.pick(VOW));
        }
        keys.push(*rng.pick(TONE));
    }
    if partial && keys.len() > 1 {
        keys.truncate(1 + rng.below(keys.len() as u64 - 1) as usize);
    }
    push_keys(calls, &keys);
}

fn gen_cfg(rng: &mut Rng, calls: &mut Vec<String>) {
    match rng.below(12) {
        0 => calls.push(format!("ci chewing.conversion_engine {}", rng.below(3))),
        1 => calls.push(format!("ci chewing.candidates_per_page {}", 1 + rng.below(10))),
        2 => calls.push(format!("ci chewing.auto_commit_threshold {}", rng.below(40))),
        3 => calls.push(format!("ci chewing.auto_commit_threshold {}", rng.below(6))),
        4 => calls.push(format!("ci chewing.character_form {}", rng.below(2))),
        5 => calls.push(format!("ci chewing.language_mode {}", rng.below(2))),
        6 => {
            // any option, valid or invalid value
            let o = *rng.pick(&OPTIONS_INT);
            let v = *rng.pick(&[-1i64, 0, 1, 2, 3, 10, 11, 39, 40, 255, 1 << 20, i32::MAX as i64, i32::MIN as i64]);
            calls.push(format!("ci {} {}", o, v));
        }
        7 => {
            let w = *rng.pick(&["chieng", "shape", "perpage", "maxlen", "adddir", "spacesel", "escclean", "autoshift", "easysym", "rearward", "autolearn", "hsu"]);
            let v = *rng.pick(&[-1i64, 0, 1, 1, 0, 2, 5, 10, 11, 39, 40, 100]);
            calls.push(format!("set {} {}", w, v));
        }
        8 => calls.push(format!("kb {}", rng.range(-1, 20))),
        9 => {
            let v = *rng.pick(&[
                "KB_DEFAULT", "KB_HSU", "KB_IBM", "KB_GIN_YIEH", "KB_ET", "KB_ET26", "KB_DVORAK", "KB_DVORAK_HSU", "KB_DACHEN_CP26",
                "KB_HANYU_PINYIN", "KB_THL_PINYIN", "KB_MPS2_PINYIN", "KB_CARPALX", "KB_COLEMAK", "KB_COLEMAK_DH_ANSI",
                "KB_COLEMAK_DH_ORTH", "KB_WORKMAN", "KB_NOPE", "",
            ]);
            calls.push(format!("cs chewing.keyboard_type {}", hx(v)));
        }
        10 => {
            // ASCII selection keys only here; the non-ASCII / NUL case is F05 (C16), injected separately at low rate
            let v = *rng.pick(&["1234567890", "asdfghjkl;", "aoeuhtns-_", "123456789", "12345678901", ""]);
            calls.push(format!("cs chewing.selection_keys {}", hx(v)));
        }
        _ => {
            let keys: Vec<String> = (0..10).map(|i| if rng.chance(1, 30) { rng.range(-5, 300).to_string() } else { (b"asdfghjkl;"[i] as i64).to_string() }).collect();
            calls.push(format!("selkey {}", keys.join(" ")));
        }
    }
}

fn gen_user(rng: &mut Rng, calls: &mut Vec<String>) {
    let (p, b) = *rng.pick(&USER_POOL);
    match rng.below(10) {
        0..=2 => calls.push(format!("ua {} {}", hx(p), hx(b))),
        3 => calls.push(format!("ur {} {}", hx(p), hx(b))),
        4 => calls.push(format!("ul {} {}", if rng.chance(1, 3) { "-".to_string() } else { hx(p) }, hx(b))),
        5 => {
            // odd caller buffer sizes (F06)
            let ps = *rng.pick(&[-1i64, -1, -2, -3, 0, 1, 2, 3, 4, 7, 64]);
            let bs = *rng.pick(&[-1i64, -1, -2, 0, 1, 2, 3, 4, 7, 64]);
            calls.push(format!("ue {} {}", ps, bs));
        }
        6 => {
            // add the only word of a syllable, type it, remove it (F03), leave the rest to chance
            calls.push(format!("ua {} {}", hx(p), hx(b)));
            for syl in b.split(' ') {
                push_keys(calls, &keys_of(syl));
            }
            if rng.chance(2, 3) {
                calls.push(format!("ur {} {}", hx(p), hx(b)));
            }
        }
        7 => {
            // malformed input
            let bad = *rng.pick(&["", "ㄘ ㄘ ㄘ", "abc", "ㄘㄜˋ ㄕˋ ㄘㄜˋ ㄕˋ ㄘㄜˋ ㄕˋ ㄘㄜˋ ㄕˋ ㄘㄜˋ ㄕˋ ㄘㄜˋ ㄕˋ", "ˋ", "ㄘㄘ"]);
            calls.push(format!("ua {} {}", hx(*rng.pick(&["", "測", "測試", "abc"])), hx(bad)));
        }
        8 => calls.push("uep".into()),
        _ => calls.push(format!("ua {} {}", hx(p), hx(b))),
    }
}

fn gen_history(rng: &mut Rng, n_calls: usize) -> String {
    let testdata = rng.chance(1, 2);
    let uniform = rng.chance(1, 6);
    let mut calls: Vec<String> = vec![];
    // initial configuration
    for _ in 0..rng.below(4) {
        gen_cfg(rng, &mut calls);
    }
    while calls.len() < n_calls {
        if uniform && rng.chance(2, 3) {
            calls.push(format!("d {}", rng.below(256)));
            continue;
        }
        //            syl part key  nav edit cand cfg user misc dflt numl ctrl engine-switch
        let w = [30u32, 5, 6, 10, 5, 12, 8, 5, 4, 8, 2, 3, 3];
        match rng.weighted(&w) {
            0 => gen_syllable(rng, testdata, &mut calls, false),
            1 => gen_syllable(rng, testdata, &mut calls, true),
            2 => calls.push(format!("k {}", rng.pick(&SIMPLE_KEYS))),
            3 => calls.push(format!("k {}", rng.pick(&["left", "right", "home", "end", "shiftleft", "shiftright", "tab", "up"]))),
            4 => calls.push(format!("k {}", rng.pick(&["backspace", "del", "esc", "enter"]))),
            5 => match rng.below(14) {
                0..=2 => calls.push("k down".into()),
                3 => calls.push("co".into()),
                4 => calls.push("cc".into()),
                5 | 6 => calls.push(format!("cx {}", rng.pick(&[0i64, 0, 1, 2, 3, 5, 9, 10, 50, -1, -1, 1 << 20, i32::MAX as i64, i32::MIN as i64]))),
                7 => calls.push(format!("k {}", rng.pick(&["pagedown", "pageup", "space", "right", "left"]))),
                8 => calls.push("cf".into()),
                9 => calls.push("cl".into()),
                10 => calls.push("cn".into()),
                11 => calls.push("cp".into()),
                12 => calls.push(format!("d {}", rng.pick(b"jk1234567890"))),
                _ => calls.push(format!("sbi {}", rng.pick(&[-1i64, 0, 5, 1000, i32::MAX as i64, i32::MIN as i64]))),
            },
            6 => gen_cfg(rng, &mut calls),
            7 => gen_user(rng, &mut calls),
            8 => match rng.below(12) {
                0 => {
                    let any = rng.below(65536) as i64;
                    let phone = *rng.pick(&[any, any, 0, 0x2800, 0x7fff, 0xffff, 0x208]);
                    calls.push(format!("p2b {} {}", phone, rng.below(12)));
                }
                1 => calls.push(format!("kbs {}", hx(*rng.pick(&["KB_HSU", "KB_DEFAULT", "kb_hsu", "", "KB_\u{fffd}", "KB_MPS2_PINYIN"])))),
                2 => {
                    let v: Vec<String> = (0..19).map(|_| rng.pick(&[-1i64, 0, 1, 1, 5, 10, 11, 20, 39, 40, 49, 97, 300]).to_string()).collect();
                    calls.push(format!("configure {}", v.join(" ")));
                }
                3 => calls.push("nolog".into()),
                4 => calls.push("ug".into()),
                5 => calls.push(format!("kbt {}", rng.pick(&[0i64, 5, 17, 18, 40, 255, 256, 257, 300, 600]))),
                _ => calls.push(rng.pick(&["reset", "ack", "commit", "cleanpre", "cleanbopo", "ack"]).to_string()),
            },
            9 => {
                let (a, b) = (rng.below(256) as i64, rng.below(128) as i64);
                calls.push(format!("d {}", *rng.pick(&[a, b, 0, 255, 256, -1, 96, 32, 65, 44])));
            }
            10 => {
                let a = rng.below(256) as i64;
                calls.push(format!("n {}", *rng.pick(&[a, b'1' as i64, b'+' as i64, 0, 255])));
            }
            11 => calls.push(format!("c {}", rng.pick(b"0123456789a"))),
            _ => {
                // engine switch with a (possibly partial) syllable in the buffer (F02)
                calls.push(format!("ci chewing.conversion_engine {}", rng.pick(&[2u8, 2, 0, 1])));
                let partial = rng.chance(1, 2);
                gen_syllable(rng, testdata, &mut calls, partial);
                calls.push(format!("ci chewing.conversion_engine {}", rng.pick(&[1u8, 1, 0, 2])));
            }
        }
    }
    calls.truncate(n_calls);
    format!("{} | {}", if testdata { "testdata" } else { "builtin" }, calls.join(" ; "))
}

// ------------------------------------------------------------------ parent side

#[derive(Clone, Debug)]
struct Failure {
    history: String,
    /// index of the call during (or after) which the worker died
    call: usize,
    /// getter tag if the worker died while reading the getters after `call`
    getter: Option<u8>,
    /// "abort" | "hang" | "exit <code>" | "signal <n>"
    how: String,
    /// panic location file and message (first panic), from stderr
    file: String,
    msg: String,
}

fn parse_panic(stderr: &str) -> (String, String) {
    // thread 'main' panicked at src/editor/mod.rs:1040:76:\n<message>
    if let Some(pos) = stderr.find("panicked at ") {
        let rest = &stderr[pos + 12..];
        let mut lines = rest.lines();
        let loc = lines.next().unwrap_or("");
        let msg = lines.next().unwrap_or("").to_string();
        let file = loc.split(':').next().unwrap_or("").to_string();
        // keep only the path inside the repository
        let file = match file.find("src/") {
            Some(i) => {
                let pre = &file[..i];
                if pre.ends_with("capi/") { format!("capi/{}", &file[i..]) } else { file[i..].to_string() }
            }
            None => file,
        };
        (file, msg)
    } else {
        (String::new(), String::new())
    }
}

/// message kind: the message with numbers removed
fn msg_kind(msg: &str) -> String {
    let mut out = String::new();
    let mut last_digit = false;
    for ch in msg.chars() {
        if ch.is_ascii_digit() {
            if !last_digit {
                out.push('N');
            }
            last_digit = true;
        } else {
            out.push(ch);
            last_digit = false;
        }
    }
    out.chars().take(90).collect()
}

struct RunResult {
    /// (history index, call index, getter tag) where the worker stopped; None = ran to the end
    stopped: Option<(usize, usize, Option<u8>)>,
    how: String,
    stderr: String,
}

fn run_worker(exe: &Path, dir: &Path, tag: &str, hist_file: &Path, first: usize, getters: bool, budget: Duration) -> RunResult {
    let prog = dir.join(format!("{}.progress", tag));
    let errf = dir.join(format!("{}.stderr", tag));
    let mut child = Command::new(exe)
        .arg("--worker")
        .arg(hist_file)
        .arg(&prog)
        .arg(first.to_string())
        .arg(if getters { "getters" } else { "nogetters" })
        .stdin(Stdio::null())
        .stdout(Stdio::null())
        .stderr(File::create(&errf).unwrap())
        .env("RUST_BACKTRACE", "0")
        .spawn()
        .expect("spawn worker");
    let t0 = Instant::now();
    let status = loop {
        match child.try_wait().unwrap() {
            Some(st) => break Some(st),
            None => {
                if t0.elapsed() > budget {
                    let _ = child.kill();
                    let _ = child.wait();
                    break None;
                }
                std::thread::sleep(Duration::from_millis(2));
            }
        }
    };
    let mut progress: Vec<u8> = vec![];
    let _ = File::open(&prog).and_then(|mut f| f.read_to_end(&mut progress));
    progress.resize(64, 0);
    let mut stderr = String::new();
    let _ = File::open(&errf).and_then(|mut f| f.read_to_string(&mut stderr));
    let ok = matches!(status, Some(st) if st.success()) && progress[10] == b'E';
    if ok {
        return RunResult { stopped: None, how: "ok".into(), stderr };
    }
    let how = match status {
        None => "hang".to_string(),
        Some(st) => match st.signal() {
            Some(14) | Some(26) => "hang".to_string(),
            Some(6) | Some(4) | Some(5) => "abort".to_string(),
            Some(11) | Some(7) => "segv".to_string(),
            Some(n) => format!("signal {}", n),
            None => format!("exit {}", st.code().unwrap_or(-1)),
        },
    };
    let h = u32::from_le_bytes([progress[0], progress[1], progress[2], progress[3]]) as usize;
    let c = u32::from_le_bytes([progress[4], progress[5], progress[6], progress[7]]) as usize;
    let g = if progress[8] == 1 { Some(progress[9]) } else { None };
    RunResult { stopped: Some((h, c, g)), how, stderr }
}

/// run one history alone; Some(failure) if it does not run to the end
fn run_single(exe: &Path, dir: &Path, tag: &str, history: &str) -> Option<Failure> {
    let hf = dir.join(format!("{}.hist", tag));
    std::fs::write(&hf, format!("{}\n", history)).unwrap();
    let r = run_worker(exe, dir, tag, &hf, 0, true, Duration::from_secs(60));
    r.stopped.map(|(_, c, g)| {
        let (file, msg) = parse_panic(&r.stderr);
        Failure { history: history.to_string(), call: c, getter: g, how: r.how, file, msg }
    })
}

struct Facts {
    engine: i64,
    selecting: bool,
    /// engines in force at some moment since the open candidate list was opened
    sel_engines: Vec<i64>,
    syls: Vec<u16>,
    user: Vec<(String, String)>,
    ok: bool,
}

fn inspect_state(exe: &Path, dir: &Path, tag: &str, f: &Failure) -> Facts {
    let hf = dir.join(format!("{}.ihist", tag));
    let of = dir.join(format!("{}.iout", tag));
    std::fs::write(&hf, format!("{}\n", f.history)).unwrap();
    // state right before the failing call, or right after it when a getter failed
    let n = if f.getter.is_some() { f.call + 1 } else { f.call };
    let _ = std::fs::remove_file(&of);
    let st = Command::new(exe)
        .arg("--inspect")
        .arg(&hf)
        .arg(&of)
        .arg(n.to_string())
        .stdin(Stdio::null())
        .stdout(Stdio::null())
        .stderr(Stdio::null())
        .status();
    let mut text = String::new();
    let _ = File::open(&of).and_then(|mut f| f.read_to_string(&mut text));
    let mut facts = Facts { engine: 1, selecting: false, sel_engines: vec![], syls: vec![], user: vec![], ok: false };
    for line in text.lines() {
        let t: Vec<&str> = line.split(' ').collect();
        match t[0] {
            "engine" => facts.engine = t[1].parse().unwrap_or(1),
            "selecting" => facts.selecting = t[1] == "1",
            "selengines" => facts.sel_engines = t[1..].iter().filter_map(|x| x.parse().ok()).collect(),
            "syls" => facts.syls = t[1..].iter().filter_map(|x| x.parse().ok()).collect(),
            "user" => facts.user.push((String::from_utf8_lossy(&unhex(t[1])).to_string(), String::from_utf8_lossy(&unhex(t[2])).to_string())),
            "END" => facts.ok = st.as_ref().map(|s| s.success()).unwrap_or(false),
            _ => {}
        }
    }
    facts
}

/// the system layers the context sees (read-only, reloaded here); the user phrases come from the context's own
/// enumeration.  `Layered::remove_phrase` only touches the user layer and a `Layered` look-up is the union of its
/// layers, so asking the layers one by one is exact.
struct Probe {
    sys: Vec<Box<dyn Dictionary>>,
}

impl Probe {
    fn load(dict: &str) -> Probe {
        let sys: Vec<Box<dyn Dictionary>> = if dict == "testdata" {
            let l = SystemDictionaryLoader::new().sys_path(format!("{}/tests/data", repo()));
            let mut v = l.load().unwrap_or_default();
            v.extend(l.load_drop_in().unwrap_or_default());
            v
        } else {
            let bytes = std::fs::read(format!("{}/capi/data/mini.dat", repo())).unwrap_or_default();
            match Trie::new(&bytes[..]) {
                Ok(t) => vec![Box::new(t) as Box<dyn Dictionary>],
                Err(_) => vec![],
            }
        };
        Probe { sys }
    }

    /// the state predicate of the former class: Some(syllable) iff a buffered syllable has no one-syllable word under
    /// a lookup strategy in force
    fn no_word(&self, facts: &Facts) -> Option<u16> {
        let mut user = TrieBuf::new_in_memory();
        for (p, b) in &facts.user {
            let syls: Vec<Syllable> = b.split_ascii_whitespace().filter_map(|s| s.parse().ok()).collect();
            let _ = DictionaryMut::add_phrase(&mut user, &syls, Phrase::new(p.as_str(), 1));
        }
        // the C API sets options.lookup_strategy together with the engine: fuzzy engine = FuzzyPartialPrefix,
        // chewing / simple engine = Standard
        let strat = |e: i64| if e == 2 { LookupStrategy::FuzzyPartialPrefix } else { LookupStrategy::Standard };
        let mut strategies = vec![strat(facts.engine)];
        if facts.selecting {
            // an open phrase selector keeps the strategy it was created with
            for e in &facts.sel_engines {
                if !strategies.contains(&strat(*e)) {
                    strategies.push(strat(*e));
                }
            }
        }
        for s in &facts.syls {
            if let Ok(syl) = Syllable::try_from(*s) {
                for st in &strategies {
                    if user.lookup_first_phrase(&[syl], *st).is_none() && !self.sys.iter().any(|d| d.lookup_first_phrase(&[syl], *st).is_some()) {
                        return Some(*s);
                    }
                }
            }
        }
        None
    }
}

/// Class of a failure (abort, hang or any other death): always `new` — no known class remains.  The second
/// component is information for the reader: the panic site (file + message kind) and, from the state of the real
/// context right before the failing call (right after it when a getter failed), whether some buffered syllable has
/// no word under a lookup strategy in force (the predicate of the former class F02 / F03).
fn classify(exe: &Path, dir: &Path, tag: &str, f: &Failure) -> (String, String) {
    let (dict, _) = f.history.split_once(" | ").unwrap_or((&f.history, ""));
    let facts = inspect_state(exe, dir, tag, f);
    let kind = msg_kind(&f.msg);
    let site = if f.how == "hang" { "hang (per-call watchdog)".to_string() } else { format!("{} `{}`", f.file, kind) };
    if !facts.ok {
        return ("new".into(), format!("state inspection failed; {}", site));
    }
    if let Some(s) = Probe::load(dict).no_word(&facts) {
        return ("new".into(), format!("engine {} syllable {:#x} has no word; {}", facts.engine, s, site));
    }
    ("new".into(), site)
}

fn same_failure(a: &(String, String), b: &(String, String)) -> bool {
    a.0 == b.0 && a.1.split(';').last() == b.1.split(';').last()
}

/// drop calls while the history still fails in the same class at the same site
fn shrink(exe: &Path, dir: &Path, tag: &str, f: &Failure, class: &(String, String), budget: Duration) -> Failure {
    let t0 = Instant::now();
    let (dict, calls) = f.history.split_once(" | ").unwrap_or((&f.history, ""));
    let mut calls: Vec<String> = calls.split(" ; ").map(|s| s.to_string()).collect();
    calls.truncate(f.call + 1);
    let mut best = Failure { history: format!("{} | {}", dict, calls.join(" ; ")), ..f.clone() };
    let mut chunk = (calls.len() / 2).max(1);
    while t0.elapsed() < budget {
        let mut i = 0;
        let mut progress = false;
        while i < calls.len() && t0.elapsed() < budget {
            let end = (i + chunk).min(calls.len());
            let mut cand: Vec<String> = calls.clone();
            cand.drain(i..end);
            if cand.is_empty() {
                i = end;
                continue;
            }
            let h = format!("{} | {}", dict, cand.join(" ; "));
            let mut still = false;
            if let Some(f2) = run_single(exe, dir, tag, &h) {
                let c2 = classify(exe, dir, tag, &f2);
                if same_failure(&c2, class) {
                    let mut kept = cand.clone();
                    kept.truncate(f2.call + 1);
                    best = Failure { history: format!("{} | {}", dict, kept.join(" ; ")), ..f2 };
                    calls = kept;
                    progress = true;
                    still = true;
                }
            }
            if !still {
                i = end;
            }
        }
        if chunk > 1 {
            chunk /= 2;
        } else if !progress {
            break;
        }
    }
    best
}

/// the history cut after the failing call
fn truncated(f: &Failure) -> Failure {
    let (dict, calls) = f.history.split_once(" | ").unwrap_or((&f.history, ""));
    let mut calls: Vec<&str> = calls.split(" ; ").collect();
    calls.truncate(f.call + 1);
    Failure { history: format!("{} | {}", dict, calls.join(" ; ")), ..f.clone() }
}

fn describe(f: &Failure, class: &(String, String)) -> String {
    let calls: Vec<&str> = f.history.split_once(" | ").map(|x| x.1).unwrap_or("").split(" ; ").collect();
    let at = match f.getter {
        Some(g) => format!("getter {} after call #{} `{}`", getter_name(g), f.call, calls.get(f.call).unwrap_or(&"")),
        None => format!("call #{} `{}`", f.call, calls.get(f.call).unwrap_or(&"")),
    };
    format!("{} in {} [{}] history: {}", f.how, at, class.1, f.history)
}

/// directed histories: (label, history).  Plain regression histories: the witnesses of repaired defects stay in
/// the corpus so that a recurrence is reported like any other failure (class `new`).  The former witnesses of the
/// class `no-word-for-buffered-syllable` (F02, F03, the simple-engine hang) are replayed as they were AND followed by
/// the calls an application can make on a word-less syllable (every getter runs after every call); the `noword-*`
/// histories go through the remaining routes: the list opened on it under each engine, j / k onto it from a
/// neighbour's list (forward and rearward choice), Tab / Enter / commit, overflow of a buffer limit of 0..2.
fn directed() -> Vec<(&'static str, String)> {
    let (wo, bo) = (hx("喔"), hx("ㄛ"));
    let (ws, bs) = (hx("測試"), hx("ㄘㄜˋ ㄕˋ"));
    let (wn, bn) = (hx("嗯"), hx("ㄣ˙"));
    let (we, be) = (hx("欸"), hx("ㄝˋ"));
    let eng = |e: u8| format!("ci chewing.conversion_engine {}", e);
    let tail = "k down ; co ; cf ; cl ; cn ; cp ; sbi 0 ; cx 0 ; cc ; k tab ; k down ; k esc ; k enter";
    let list_calls = "k down ; co ; cf ; cl ; cn ; cp ; k space ; k pagedown ; cx 0 ; cc ; k esc";
    let f02 = format!("testdata | {} ; d 104 ; d 103 ; {}", eng(2), eng(1));
    let f03 = format!("testdata | ua {} {} ; d 105 ; k space ; ur {} {}", wo, bo, wo, bo);
    let f03b = format!("builtin | ua {} {} ; d 44 ; d 52 ; ur {} {}", we, be, we, be);
    let hang = format!("builtin | {} ; ua {} {} ; d 112 ; d 55 ; ur {} {} ; k down", eng(0), wn, bn, wn, bn);
    let mut v: Vec<(&'static str, String)> = vec![
        ("F02-fixed", f02.clone()),
        ("F02-fixed", format!("{} ; {}", f02, tail)),
        // same state, simple engine: the pre-edit was readable (F30) but opening the candidate list never returned
        ("F03-simple-engine-hang-fixed", hang.clone()),
        ("F03-simple-engine-hang-fixed", format!("{} ; k down ; k space ; cn ; cp ; cf ; cl ; k esc ; k tab ; co ; cx 0 ; k enter", hang)),
        ("F30-fuzzy-to-simple", format!("testdata | {} ; d 104 ; d 103 ; {}", eng(2), eng(0))),
        ("F03-fixed", f03.clone()),
        ("F03-fixed", format!("{} ; {}", f03, tail)),
        ("F03-builtin-fixed", f03b.clone()),
        ("F03-builtin-fixed", format!("{} ; {}", f03b, tail)),
        // the list opened on the word-less syllable under each of the three engines, every candidate-list call
        ("noword-open-list-each-engine", format!(
            "builtin | ua {} {} ; d 112 ; d 55 ; ur {} {} ; {} ; {lc} ; {} ; {lc} ; {} ; {lc} ; k enter",
            wn, bn, wn, bn, eng(0), eng(1), eng(2), lc = list_calls
        )),
        // the F02 way in (fuzzy engine, partial syllable), then every engine with the list calls, j / k, Tab, Enter
        ("noword-fuzzy-partial-each-engine", format!(
            "testdata | {} ; d 104 ; d 103 ; {} ; {lc} ; {} ; {lc} ; {} ; {lc} ; {} ; d 52 ; k left ; k left ; k down ; d 106 ; d 107 ; cc ; k tab ; k enter",
            eng(2), eng(0), eng(1), eng(2), eng(1), lc = list_calls
        )),
        // Tab (break / glue), DblTab, chewing_commit_preedit_buf, Enter around a word-less syllable
        ("noword-tab-enter-commit", format!(
            "testdata | ua {} {} ; d 104 ; d 107 ; d 52 ; d 105 ; k space ; d 103 ; d 52 ; ur {} {} ; k tab ; k left ; k tab ; k left ; k tab ; k dbltab ; k home ; k tab ; commit ; ua {} {} ; d 105 ; k space ; ur {} {} ; k tab ; k enter",
            wo, bo, wo, bo, wo, bo, wo, bo
        )),
    ];
    // j / k onto the word-less syllable from the list of a neighbour, forward and rearward choice, each engine
    for (rear, e) in [(0u8, 1u8), (1, 1), (0, 0), (1, 2)] {
        v.push(("noword-jk-from-neighbour", format!(
            "testdata | ci chewing.phrase_choice_rearward {} ; {} ; ua {} {} ; d 104 ; d 107 ; d 52 ; d 105 ; k space ; d 103 ; d 52 ; ur {} {} ; k home ; k down ; d 106 ; d 106 ; d 107 ; d 107 ; d 107 ; k esc ; k end ; k down ; d 107 ; d 107 ; d 106 ; d 106 ; cn ; cp ; cx 0 ; k left ; co ; cf ; cl ; k esc ; k enter",
            rear, eng(e), wo, bo, wo, bo
        )));
    }
    // overflow of a buffer limit of 0..2: the word-less syllable is committed by auto-commit (by a key, by a choice)
    for t in 0..3 {
        v.push(("noword-auto-commit", format!(
            "testdata | ua {} {} ; d 105 ; k space ; ur {} {} ; ci chewing.auto_commit_threshold {} ; d 104 ; d 107 ; d 52 ; d 103 ; d 52 ; k down ; cx 0 ; d 104 ; d 107 ; d 52 ; k enter",
            wo, bo, wo, bo, t
        )));
        v.push(("noword-auto-commit", format!(
            "builtin | {} ; ua {} {} ; d 112 ; d 55 ; d 112 ; d 55 ; ur {} {} ; set maxlen {} ; co ; cx 0 ; d 44 ; d 52 ; k enter",
            eng((t % 3) as u8), wn, bn, wn, bn, t
        )));
    }
    // a candidate chosen over Tab marks (break / glue) inside a dictionary phrase: 測試 (tests/data) and the user phrases
    // 測試測 / 測試測試, marks at every non-empty set of inner gaps, chewing / fuzzy engine, forward choice from Home and
    // rearward choice from End, the first candidate chosen by chewing_cand_choose_by_index and by the digit key, then
    // the next conversion (every getter runs after every call), more syllables, Tab, the list again, Enter
    let syl = ["d 104 ; d 107 ; d 52", "d 103 ; d 52"];
    let (w3, b3) = (hx("測試測"), hx("ㄘㄜˋ ㄕˋ ㄘㄜˋ"));
    let (w4, b4) = (hx("測試測試"), hx("ㄘㄜˋ ㄕˋ ㄘㄜˋ ㄕˋ"));
    for len in 2..=4usize {
        for mask in 1u32..(1 << (len - 1)) {
            for (e, rear) in [(1u8, 0u8), (2, 0), (1, 1), (2, 1)] {
                for by_key in [false, true] {
                    let mut c: Vec<String> = vec![eng(e), format!("ci chewing.phrase_choice_rearward {}", rear)];
                    if len > 2 {
                        c.push(format!("ua {} {}", w3, b3));
                        c.push(format!("ua {} {}", w4, b4));
                    }
                    for i in 0..len {
                        c.push(syl[i % 2].into());
                    }
                    let mut cur = len;
                    for g in (1..len).rev() {
                        if (mask >> (g - 1)) & 1 == 1 {
                            while cur > g {
                                c.push("k left".into());
                                cur -= 1;
                            }
                            c.push("k tab".into());
                        }
                    }
                    c.push(if rear == 1 { "k end" } else { "k home" }.into());
                    c.push("k down".into());
                    c.push(if by_key { "d 49" } else { "cx 0" }.into());
                    c.push("k end ; d 104 ; d 107 ; d 52 ; k tab ; k home ; k down ; k down ; cx 0 ; k enter".into());
                    v.push(("choice-over-tab-marks", format!("testdata | {}", c.join(" ; "))));
                }
            }
        }
    }
    v.extend(vec![
        ("F01-fixed", "builtin | set shape 1 ; d 1".into()),
        ("F01-fixed", "builtin | set chieng 0 ; set shape 1 ; d 1 ; d 127 ; d 255 ; n 1 ; k tab".into()),
        ("F04-fixed", "testdata | ci chewing.candidates_per_page 1 ; d 104 ; d 107 ; d 52 ; k down ; k right ; cx -1".into()),
        ("F05-fixed", format!("builtin | cs chewing.selection_keys {}", hx("ééééé"))),
        ("F05-fixed", "builtin | selkey 0 0 0 0 0 0 0 0 0 0 ; selkey 200 200 200 200 200 200 200 200 200 200".into()),
        ("F06-fixed", format!("testdata | ua {} {} ; ue 2 2", ws, bs)),
        ("F06-fixed", format!("testdata | ua {} {} ; ue -1 1 ; ue 0 0 ; ue 1 -1 ; ue -2 -2 ; ue -3 3", ws, bs)),
        ("F40-fixed", "testdata | d 104 ; d 107 ; d 52 ; d 65 ; ci chewing.auto_commit_threshold 0 ; k down ; cx 9 ; d 52".into()),
        // F41: simple engine, single-word list, chewing_cand_list_first extended the range over the following symbol
        // F22 (C15): a pending user-phrase enumeration read after the user dictionary changed (learning keys, add, remove)
        ("F22-fixed", format!("testdata | ua {} {} ; ua {} {} ; uep ; d 104 ; d 107 ; d 52 ; d 103 ; d 52 ; k enter ; ug ; ur {} {} ; ug ; ug ; uep ; ua {} {} ; ug", ws, bs, wo, bo, ws, bs, ws, bs)),
        // F42: chewing_kbtype_String[_static] called ~256 times after one chewing_kbtype_Enumerate overflowed the u8 counter
        ("F42-fixed", "builtin | kbt 300".into()),
        ("F42-fixed", "testdata | kbt 17 ; kbt 257 ; kbt 600".into()),
        ("F41-fixed", "testdata | d 104 ; d 107 ; d 52 ; d 33 ; k home ; k del ; ci chewing.conversion_engine 0 ; d 104 ; d 107 ; d 52 ; cf ; cx 0 ; ci chewing.conversion_engine 1 ; k enter".into()),
        ("F41-fixed", "testdata | d 104 ; d 107 ; d 52 ; d 33 ; k home ; k del ; ci chewing.conversion_engine 0 ; d 104 ; d 107 ; d 52 ; cf ; cf ; cl ; cx 0 ; ci chewing.conversion_engine 2 ; k enter".into()),
    ]);
    v
}

fn main() {
    let args: Vec<String> = std::env::args().collect();
    if args.len() > 1 && args[1] == "--worker" {
        worker(&args[2..]);
        return;
    }
    if args.len() > 1 && args[1] == "--inspect" {
        inspect(&args[2..]);
        return;
    }
    if args.len() > 1 && args[1] == "--scan" {
        scan(&args[2..]);
        return;
    }
    let thorough = tier_is_thorough();
    let mut n_hist: usize = if thorough { 240_000 } else { 24_000 };
    let mut n_calls: usize = 60;
    let mut threads: usize = 6;
    let mut single: Option<String> = None;
    let mut i = 1;
    while i < args.len() {
        match args[i].as_str() {
            "--histories" => {
                n_hist = args[i + 1].parse().unwrap();
                i += 1;
            }
            "--calls" => {
                n_calls = args[i + 1].parse().unwrap();
                i += 1;
            }
            "--threads" => {
                threads = args[i + 1].parse().unwrap();
                i += 1;
            }
            "--history" => {
                single = Some(args[i + 1].clone());
                i += 1;
            }
            _ => {}
        }
        i += 1;
    }
    let threads = threads.clamp(1, std::thread::available_parallelism().map(|n| n.get()).unwrap_or(4));
    let exe = std::env::current_exe().unwrap();
    let tmp = tempfile::tempdir().unwrap();
    let dir: PathBuf = tmp.path().to_path_buf();
    let mut out = Out::new();
    let seed = seed_from_env();
    let t_start = Instant::now();

    if let Some(h) = single {
        // replay of one history (text as printed in an oracle line)
        match run_single(&exe, &dir, "single", &h) {
            Some(f) => {
                let c = classify(&exe, &dir, "single", &f);
                out.oracle_fail("C01", &c.0, &describe(&f, &c));
            }
            None => out.sample("history runs to the end"),
        }
        out.flush();
        return;
    }

    let directed = directed();
    let n_directed = directed.len();
    let mut histories: Vec<String> = directed.iter().map(|d| d.1.clone()).collect();
    let mut rng = Rng::new(seed);
    for _ in 0..n_hist {
        let s = rng.next();
        histories.push(gen_history(&mut Rng::new(s), n_calls));
    }

    // parallel batches, one worker process per batch (restarted after the failing history)
    let batch = 25usize;
    let n_batches = histories.len().div_ceil(batch);
    let next = Arc::new(AtomicUsize::new(0));
    let failures: Arc<Mutex<Vec<(usize, Failure, (String, String))>>> = Arc::new(Mutex::new(vec![]));
    let hangs_not_reproduced = Arc::new(AtomicUsize::new(0));
    let histories = Arc::new(histories);
    let mut handles = vec![];
    for tid in 0..threads {
        let (next, failures, histories, exe, dir) = (next.clone(), failures.clone(), histories.clone(), exe.clone(), dir.clone());
        let hangs_not_reproduced = hangs_not_reproduced.clone();
        handles.push(std::thread::spawn(move || loop {
            let b = next.fetch_add(1, Ordering::SeqCst);
            if b >= n_batches {
                break;
            }
            let lo = b * batch;
            let hi = ((b + 1) * batch).min(histories.len());
            let bf = dir.join(format!("batch{}.txt", b));
            std::fs::write(&bf, histories[lo..hi].join("\n") + "\n").unwrap();
            let mut first = 0usize;
            while first < hi - lo {
                let r = run_worker(&exe, &dir, &format!("t{}", tid), &bf, first, true, Duration::from_secs(120));
                match r.stopped {
                    None => break,
                    Some((h, c, g)) => {
                        let (file, msg) = parse_panic(&r.stderr);
                        let mut f = Failure { history: histories[lo + h].clone(), call: c, getter: g, how: r.how, file, msg };
                        first = h + 1;
                        if f.how == "hang" {
                            // a watchdog verdict is confirmed by running the history once more on its own
                            match run_single(&exe, &dir, &format!("confirm{}", tid), &f.history) {
                                Some(f2) => f = f2,
                                None => {
                                    hangs_not_reproduced.fetch_add(1, Ordering::SeqCst);
                                    continue;
                                }
                            }
                        }
                        // state predicate evaluated in an inspection worker
                        let c = classify(&exe, &dir, &format!("cls{}", tid), &f);
                        failures.lock().unwrap().push((lo + h, f, c));
                    }
                }
            }
            let _ = std::fs::remove_file(&bf);
        }));
    }
    for h in handles {
        h.join().unwrap();
    }
    let t_run = t_start.elapsed();
    let mut failures = failures.lock().unwrap().clone();
    failures.sort_by_key(|f| f.0);
    let hangs_not_reproduced = hangs_not_reproduced.load(Ordering::SeqCst);

    // a few failures per class are shrunk
    let mut per_class: BTreeMap<String, u64> = BTreeMap::new();
    let mut per_site: BTreeMap<String, u64> = BTreeMap::new();
    let mut printed: BTreeMap<String, u64> = BTreeMap::new();
    let mut directed_class: BTreeMap<usize, String> = BTreeMap::new();
    let t_class = Instant::now();
    let shrink_box = Duration::from_secs(if thorough { 300 } else { 20 });
    for (hi, f, c) in &failures {
        *per_class.entry(c.0.clone()).or_insert(0) += 1;
        *per_site.entry(format!("{}|{}", c.0, c.1.split(';').last().unwrap_or("").trim())).or_insert(0) += 1;
        if *hi < n_directed {
            directed_class.insert(*hi, c.0.clone());
            // directed histories are minimal already: print as they are
            out.oracle_fail("C01", &c.0, &format!("[directed {}] {}", directed[*hi].0, describe(f, c)));
            continue;
        }
        let k = printed.entry(c.0.clone()).or_insert(0);
        let limit = 25;
        if *k < limit {
            *k += 1;
            let budget = 15;
            let small = if f.how == "hang" || t_class.elapsed() > shrink_box {
                truncated(f)
            } else {
                shrink(&exe, &dir, "shr", f, c, Duration::from_secs(budget))
            };
            out.oracle_fail("C01", &c.0, &describe(&small, c));
        } else if c.0 == "new" && *k < 200 {
            *k += 1;
            out.oracle_fail("C01", &c.0, &describe(&truncated(f), c));
        }
    }

    // ---------------------------------------------------------------- statistics
    out.stat("seed", seed);
    out.stat("threads", threads);
    out.stat("histories", histories.len());
    out.stat("calls_per_history", n_calls);
    out.stat("directed_histories", n_directed);
    out.stat("failing_histories", failures.len());
    out.stat("known_classes", 0);
    out.stat("failures_new", per_class.get("new").cloned().unwrap_or(0));
    let hangs = failures.iter().filter(|f| f.1.how == "hang").count();
    out.stat("hangs", hangs);
    out.stat("hangs_not_reproduced_alone", hangs_not_reproduced);
    out.stat("aborts", failures.iter().filter(|f| f.1.how == "abort").count());
    out.stat("other_deaths", failures.iter().filter(|f| f.1.how != "abort" && f.1.how != "hang").count());
    out.stat("campaign_ms", t_run.as_millis());
    out.stat("classification_ms", t_class.elapsed().as_millis());
    for (s, n) in &per_site {
        out.sample(&format!("site {} x{}", s, n));
    }
    // realised distribution, from the histories as executed (a failing history stops at its failing call)
    let stop_at: BTreeMap<usize, usize> = failures.iter().map(|(hi, f, _)| (*hi, f.call)).collect();
    let mut kinds: BTreeMap<String, u64> = BTreeMap::new();
    let mut named: BTreeMap<String, u64> = BTreeMap::new();
    let mut engines = [0u64; 3];
    let mut engine_mid = 0u64;
    let mut kbnum: BTreeMap<i64, u64> = BTreeMap::new();
    let mut kbname: BTreeMap<String, u64> = BTreeMap::new();
    let mut perpage: BTreeMap<i64, u64> = BTreeMap::new();
    let mut thresh: BTreeMap<i64, u64> = BTreeMap::new();
    let mut cx_neg = 0u64;
    let mut cx_huge = 0u64;
    let mut ue_short = 0u64;
    let mut dflt = [0u64; 256];
    let mut n_calls_run = 0u64;
    let mut dicts = [0u64; 2];
    for (hi, h) in histories.iter().enumerate() {
        let (dict, calls) = h.split_once(" | ").unwrap_or((h, ""));
        dicts[(dict == "builtin") as usize] += 1;
        let stop = stop_at.get(&hi).cloned().unwrap_or(usize::MAX);
        let mut since_key = false; // a key was typed since the last reset/commit: "mid-composition" (approximation from the text)
        for (ci, call) in calls.split(" ; ").enumerate() {
            if ci > stop {
                break;
            }
            n_calls_run += 1;
            let t: Vec<&str> = call.split(' ').collect();
            let num = |i: usize| t.get(i).and_then(|x| x.parse::<i64>().ok());
            *kinds.entry(t[0].to_string()).or_insert(0) += 1;
            match t[0] {
                "d" => {
                    since_key = true;
                    if let Some(v) = num(1) {
                        if (0..256).contains(&v) {
                            dflt[v as usize] += 1;
                        }
                    }
                }
                "k" => {
                    *named.entry(t[1].to_string()).or_insert(0) += 1;
                    if t[1] == "enter" {
                        since_key = false;
                    }
                }
                "reset" | "commit" | "cleanpre" => since_key = false,
                "ci" => match (t[1], num(2)) {
                    ("chewing.conversion_engine", Some(v)) if (0..3).contains(&v) => {
                        engines[v as usize] += 1;
                        if since_key {
                            engine_mid += 1;
                        }
                    }
                    ("chewing.candidates_per_page", Some(v)) => *perpage.entry(v).or_insert(0) += 1,
                    ("chewing.auto_commit_threshold", Some(v)) => *thresh.entry(v).or_insert(0) += 1,
                    _ => {}
                },
                "set" => match (t[1], num(2)) {
                    ("perpage", Some(v)) => *perpage.entry(v).or_insert(0) += 1,
                    ("maxlen", Some(v)) => *thresh.entry(v).or_insert(0) += 1,
                    _ => {}
                },
                "kb" => *kbnum.entry(num(1).unwrap_or(0)).or_insert(0) += 1,
                "cs" if t[1] == "chewing.keyboard_type" => {
                    *kbname.entry(String::from_utf8_lossy(&unhex(t[2])).to_string()).or_insert(0) += 1
                }
                "cx" => match num(1) {
                    Some(v) if v < 0 => cx_neg += 1,
                    Some(v) if v >= 1000 => cx_huge += 1,
                    _ => {}
                },
                "ue" => {
                    if num(1).map(|v| (0..8).contains(&v)).unwrap_or(false) || num(2).map(|v| (0..8).contains(&v)).unwrap_or(false) {
                        ue_short += 1;
                    }
                }
                _ => {}
            }
        }
    }
    out.stat("calls_executed", n_calls_run);
    out.stat("histories_testdata_dictionary", dicts[0]);
    out.stat("histories_builtin_dictionary", dicts[1]);
    for (k, n) in &kinds {
        out.stat(&format!("calls.{}", k), n);
    }
    out.stat("named_key_handlers_covered_of_19", named.len());
    out.stat("default_key_codes_covered_of_256", dflt.iter().filter(|b| **b > 0).count());
    out.stat("default_key_code_min_count", dflt.iter().min().unwrap());
    for (e, n) in engines.iter().enumerate() {
        out.stat(&format!("engine_set.{}", e), n);
    }
    out.stat("engine_set_mid_composition", engine_mid);
    out.stat("kbtype_numbers_valid_covered_of_17", kbnum.keys().filter(|k| (0..17).contains(*k)).count());
    out.stat("kbtype_number_calls", kbnum.values().sum::<u64>());
    out.stat("kbtype_names_used", kbname.len());
    out.stat("page_sizes_1_to_10_covered", perpage.keys().filter(|k| (1..=10).contains(*k)).count());
    out.stat("thresholds_0_to_39_covered", thresh.keys().filter(|k| (0..40).contains(*k)).count());
    out.stat("cand_choose_negative_index", cx_neg);
    out.stat("cand_choose_huge_index", cx_huge);
    out.stat("userphrase_get_short_buffer_enumerations", ue_short);

    // the directed corpus: which histories failed (each failure is an `!oracle C01 new` line above)
    let mut clean_by_label: BTreeMap<&str, (u64, u64)> = BTreeMap::new();
    for (i, (label, _)) in directed.iter().enumerate() {
        let got = directed_class.get(&i).cloned().unwrap_or_else(|| "clean".into());
        out.sample(&format!("directed {} -> {}", label, got));
        let e = clean_by_label.entry(label).or_insert((0, 0));
        e.0 += 1;
        e.1 += (got == "clean") as u64;
    }
    out.stat("directed_histories_clean", clean_by_label.values().map(|e| e.1).sum::<u64>());
    let former = |l: &str| l.starts_with("F02") || l.starts_with("F03") || l.starts_with("noword");
    out.stat("former_noword_class_witnesses", clean_by_label.iter().filter(|(l, _)| former(l)).map(|(_, e)| e.0).sum::<u64>());
    out.stat("former_noword_class_witnesses_clean", clean_by_label.iter().filter(|(l, _)| former(l)).map(|(_, e)| e.1).sum::<u64>());

    // STATISTIC: how often the campaign's calls start from a word-less state (the predicate of the former class F02 /
    // F03), measured by replaying the directed corpus and a sample of the generated histories in `--scan` processes
    let n_scan = (if thorough { 6000 } else { 1500 }).min(histories.len());
    let scan_file = dir.join("scan.txt");
    std::fs::write(&scan_file, histories[..n_scan].join("\n") + "\n").unwrap();
    let chunk = n_scan.div_ceil(threads);
    let mut handles = vec![];
    for tid in 0..threads {
        let (exe, dir, scan_file) = (exe.clone(), dir.clone(), scan_file.clone());
        handles.push(std::thread::spawn(move || {
            // histories [lo, hi) of the file; a scan process that dies is restarted behind the history it died in
            let (lo, hi) = (tid * chunk, ((tid + 1) * chunk).min(n_scan));
            let of = dir.join(format!("scan{}.out", tid));
            let mut lines: Vec<String> = vec![];
            let mut first = lo;
            while first < hi {
                let _ = std::fs::remove_file(&of);
                let part = dir.join(format!("scan{}.in", tid));
                let text = std::fs::read_to_string(&scan_file).unwrap();
                std::fs::write(&part, text.lines().skip(first).take(hi - first).collect::<Vec<_>>().join("\n") + "\n").unwrap();
                let _ = Command::new(&exe).arg("--scan").arg(&part).arg(&of).arg("0").stdin(Stdio::null()).stdout(Stdio::null()).stderr(Stdio::null()).status();
                let got = std::fs::read_to_string(&of).unwrap_or_default();
                let done = got.lines().any(|l| l == "END");
                let begun = got.lines().filter(|l| l.starts_with("begin ")).count();
                // `hist <index in the part> …` -> absolute index
                for l in got.lines().filter(|l| l.starts_with("hist ")) {
                    let mut t: Vec<String> = l.split(' ').map(|x| x.to_string()).collect();
                    t[1] = (t[1].parse::<usize>().unwrap_or(0) + first).to_string();
                    lines.push(t.join(" "));
                }
                if done {
                    break;
                }
                first += begun.max(1);
            }
            lines
        }));
    }
    let (mut sc_hist, mut sc_calls, mut sc_noword, mut sc_hist_noword, mut sc_open, mut sc_rear, mut sc_list) = (0u64, 0u64, 0u64, 0u64, 0u64, 0u64, 0u64);
    let mut sc_engine = [0u64; 3];
    let mut sc_directed_noword = 0u64;
    for h in handles {
        for l in h.join().unwrap() {
            let t: Vec<u64> = l.split(' ').skip(1).filter_map(|x| x.parse().ok()).collect();
            if t.len() < 7 {
                continue;
            }
            // the break-down below counts the directed corpus too (it is replayed on every run); the totals and the
            // estimate for the whole campaign are from the sampled generated histories only
            if (t[0] as usize) < n_directed {
                sc_directed_noword += t[2];
            } else {
                sc_hist += 1;
                sc_calls += t[1];
                sc_noword += t[2];
                sc_hist_noword += (t[2] > 0) as u64;
            }
            for (e, n) in sc_engine.iter_mut().enumerate() {
                *n += ((t[3] >> e) & 1 == 1) as u64;
            }
            sc_open += t[4];
            sc_rear += t[5];
            sc_list += t[6];
        }
    }
    out.stat("directed_calls_from_noword_state", sc_directed_noword);
    out.stat("scan_generated_histories", sc_hist);
    out.stat("scan_calls", sc_calls);
    out.stat("calls_from_noword_state", sc_noword);
    out.stat("histories_reaching_noword_state", sc_hist_noword);
    for (e, n) in sc_engine.iter().enumerate() {
        out.stat(&format!("noword_incl_directed.histories_under_engine.{}", e), n);
    }
    out.stat("noword_incl_directed.calls_with_list_open", sc_open);
    out.stat("noword_incl_directed.calls_with_rearward_choice", sc_rear);
    out.stat("noword_incl_directed.list_calls_down_tab_enter_space", sc_list);
    if sc_hist > 0 {
        // extrapolated to the whole campaign (same generator, same seed stream)
        out.stat("calls_from_noword_state_estimated_campaign", sc_noword * (histories.len() - n_directed) as u64 / sc_hist);
    }
    out.flush();
}
