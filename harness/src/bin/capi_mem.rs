//! C15 harness: memory safety of the C API under any call order + well-formedness of its strings.
//!
//! Parent mode (no arguments): generates seeded C-API histories (enumerate/has_next/get protocols of the four
//! iterators interrupted at every step by other calls), runs them in child processes (`--worker <file>`), natively
//! and — a subset — under valgrind memcheck, evaluates the C15 oracles and prints transcript records for the model:
//!
//!   cstr copy <cap> x<text> => b<bytes up to the last non-zero byte> <number of trailing zero bytes>   (hook verif_copy_cstr)
//!   cstr valid b<bytes> => 0|1                         (std::str::from_utf8)
//!   cstr get <which> <cap> x<heap variant text> => b<prefix> <zeros>                 (context buffers, dumped to capacity)
//!   own run <call,call,…> => ok                        (ghost model: protocol results, registry, no use of an invalid object)
//!   own mem <call,call,…> => clean|ub                  (the same history under memcheck: the former F22 witnesses + twins, random histories)
//!   own memsub <clean|ub> <call,call,…> => ok          (memcheck error ⇒ the model predicted ub; histories with mutations inside the user-phrase enumeration)
//!
//! a call is `<exported function>[:arg…][=<result>]`; the model classifies the function with the tables the translator
//! regenerates from capi/src/io.rs.
//!
//! Worker mode: executes the histories of a file through the real C API; a panic inside an `extern "C"` function
//! aborts the process, the parent notices the missing end marker and restarts after the culprit.
#![allow(deprecated)]
#![allow(static_mut_refs)]

use std::alloc::{GlobalAlloc, Layout, System};
use std::collections::{BTreeMap, BTreeSet};
use std::ffi::{c_char, c_int, c_uint, c_void, CStr, CString};
use std::io::Write;
use std::process::Command;
use std::sync::atomic::{AtomicBool, AtomicUsize, Ordering::SeqCst};


use chewing_capi::candidates::*;
use chewing_capi::globals::*;
use chewing_capi::input::*;
use chewing_capi::layout::*;
use chewing_capi::output::*;
use chewing_capi::setup::*;
use chewing_capi::userphrase::*;
use vharness::*;

// ------------------------------------------------------------------------------------------------
// Layout-checking allocator (worker only): remembers the Layout of every live block and compares it
// with the Layout passed to dealloc/realloc.  glibc's free() ignores the size, valgrind does too; the
// GlobalAlloc contract does not (F23: chewing_free rebuilt a Vec<c_void> from a Box<[u16]>).
// ------------------------------------------------------------------------------------------------
const SLOTS: usize = 1 << 18;
static mut KEYS: [usize; SLOTS] = [0; SLOTS];
static mut VALS: [usize; SLOTS] = [0; SLOTS];
static TRACK: AtomicBool = AtomicBool::new(false);
static LOCK: AtomicBool = AtomicBool::new(false);
static LIVE: AtomicUsize = AtomicUsize::new(0);
static MISMATCH: AtomicUsize = AtomicUsize::new(0);
static FIRST_MISMATCH: [AtomicUsize; 4] = [AtomicUsize::new(0), AtomicUsize::new(0), AtomicUsize::new(0), AtomicUsize::new(0)];

struct CheckAlloc;

fn slot_of(p: usize) -> usize {
    ((p >> 3).wrapping_mul(0x9E37_79B9_7F4A_7C15)) >> (64 - 18)
}
fn lock() {
    while LOCK.compare_exchange_weak(false, true, SeqCst, SeqCst).is_err() {
        std::hint::spin_loop();
    }
}
fn unlock() {
    LOCK.store(false, SeqCst);
}
unsafe fn tab_insert(p: usize, v: usize) {
    if LIVE.load(SeqCst) > SLOTS / 2 {
        return;
    }
    let mut i = slot_of(p);
    while KEYS[i] != 0 {
        if KEYS[i] == p {
            VALS[i] = v;
            return;
        }
        i = (i + 1) & (SLOTS - 1);
    }
    KEYS[i] = p;
    VALS[i] = v;
    LIVE.fetch_add(1, SeqCst);
}
unsafe fn tab_remove(p: usize) -> Option<usize> {
    let mut i = slot_of(p);
    loop {
        if KEYS[i] == 0 {
            return None;
        }
        if KEYS[i] == p {
            break;
        }
        i = (i + 1) & (SLOTS - 1);
    }
    let v = VALS[i];
    // backward-shift deletion
    let mut j = i;
    loop {
        j = (j + 1) & (SLOTS - 1);
        if KEYS[j] == 0 {
            break;
        }
        let k = slot_of(KEYS[j]);
        let stay = if i <= j { i < k && k <= j } else { i < k || k <= j };
        if stay {
            continue;
        }
        KEYS[i] = KEYS[j];
        VALS[i] = VALS[j];
        i = j;
    }
    KEYS[i] = 0;
    LIVE.fetch_sub(1, SeqCst);
    Some(v)
}
/// size of the live block at `p`, if the allocator tracks one there
unsafe fn tab_size(p: usize) -> Option<usize> {
    lock();
    let mut i = slot_of(p);
    let mut r = None;
    while KEYS[i] != 0 {
        if KEYS[i] == p {
            r = Some(VALS[i] >> 6);
            break;
        }
        i = (i + 1) & (SLOTS - 1);
    }
    unlock();
    r
}
fn enc(l: Layout) -> usize {
    (l.size() << 6) | (l.align().trailing_zeros() as usize)
}
unsafe fn check_out(p: *mut u8, l: Layout) {
    lock();
    let r = tab_remove(p as usize);
    unlock();
    if let Some(v) = r {
        if v != enc(l) {
            if MISMATCH.fetch_add(1, SeqCst) == 0 {
                FIRST_MISMATCH[0].store(v >> 6, SeqCst);
                FIRST_MISMATCH[1].store(1 << (v & 63), SeqCst);
                FIRST_MISMATCH[2].store(l.size(), SeqCst);
                FIRST_MISMATCH[3].store(l.align(), SeqCst);
            }
        }
    }
}
unsafe impl GlobalAlloc for CheckAlloc {
    unsafe fn alloc(&self, l: Layout) -> *mut u8 {
        let p = System.alloc(l);
        if TRACK.load(SeqCst) && !p.is_null() {
            lock();
            tab_insert(p as usize, enc(l));
            unlock();
        }
        p
    }
    unsafe fn alloc_zeroed(&self, l: Layout) -> *mut u8 {
        let p = System.alloc_zeroed(l);
        if TRACK.load(SeqCst) && !p.is_null() {
            lock();
            tab_insert(p as usize, enc(l));
            unlock();
        }
        p
    }
    unsafe fn dealloc(&self, p: *mut u8, l: Layout) {
        if TRACK.load(SeqCst) {
            check_out(p, l);
        }
        System.dealloc(p, l)
    }
    unsafe fn realloc(&self, p: *mut u8, l: Layout, new_size: usize) -> *mut u8 {
        if TRACK.load(SeqCst) {
            check_out(p, l);
        }
        let q = System.realloc(p, l, new_size);
        if TRACK.load(SeqCst) && !q.is_null() {
            lock();
            tab_insert(q as usize, enc(Layout::from_size_align_unchecked(new_size, l.align())));
            unlock();
        }
        q
    }
}

#[global_allocator]
static GLOBAL: CheckAlloc = CheckAlloc;


// ------------------------------------------------------------------------------------------------
// shared tables (parent generates indices, worker resolves them)
// ------------------------------------------------------------------------------------------------

/// reviewed capacities of the context buffers (public.rs); the translator regenerates them into Gen/CApi.lean,
/// Props/C15 proves they are these values (`buffers_reviewed`), the model recomputes every dump with the
/// capacity printed in the record.
const CAP_COMMIT: usize = 256;
const CAP_PREEDIT: usize = 256;
const CAP_BOPOMOFO: usize = 16;
const CAP_CAND: usize = 256;
const CAP_AUX: usize = 256;
const CAP_KBTYPE: usize = 32;

/// user phrases the histories add / remove / look up.  Every syllable used has words in both system
/// dictionaries, so removing a user phrase never produces the word-less-syllable state of F02/F03 (C01).
const POOL: [(&str, &str); 12] = [
    ("測", "ㄘㄜˋ"),
    ("冊", "ㄘㄜˋ"),
    ("策", "ㄘㄜˋ"),
    ("試", "ㄕˋ"),
    ("測試", "ㄘㄜˋ ㄕˋ"),
    ("策士", "ㄘㄜˋ ㄕˋ"),
    ("𠀀", "ㄘㄜˋ"),
    ("é", "ㄕˋ"),
    ("a", "ㄕˋ"),
    ("𠀀é測a", "ㄘㄜˋ ㄕˋ ㄘㄜˋ ㄕˋ"),
    ("測試測試測試測試測試測", "ㄘㄜˋ ㄕˋ ㄘㄜˋ ㄕˋ ㄘㄜˋ ㄕˋ ㄘㄜˋ ㄕˋ ㄘㄜˋ ㄕˋ ㄘㄜˋ"),
    ("世", "ㄕˋ"),
];

const INT_OPTIONS: [&str; 12] = [
    "chewing.user_phrase_add_direction",
    "chewing.disable_auto_learn_phrase",
    "chewing.auto_shift_cursor",
    "chewing.candidates_per_page",
    "chewing.language_mode",
    "chewing.easy_symbol_input",
    "chewing.esc_clear_all_buffer",
    "chewing.auto_commit_threshold",
    "chewing.phrase_choice_rearward",
    "chewing.space_is_select_key",
    "chewing.conversion_engine",
    "chewing.no_such_option",
];
const IX_ENGINE: usize = 10;

const SELKEYS: [&str; 3] = ["1234567890", "asdfghjkl;", "aoeuhtnsid"];

/// selection-key arrays for the legacy int setters (`chewing_set_selKey`, `chewing_Configure`), which store whatever ten
/// integers they are given: ASCII, Latin-1 codes 0x80..=0xFF (keysyms of an AZERTY digit row), 0 for unused slots,
/// values beyond a byte (low byte 0xE9 / 0x00), negative values.  Whatever the context holds, every string getter —
/// `chewing_config_get_str("chewing.selection_keys")` in particular — must hand out well-formed text or an error.
const SELKEY_ARRAYS: [[i32; 10]; 9] = [
    [49, 50, 51, 52, 53, 54, 55, 56, 57, 48],
    [0xE9, 0x22, 0x27, 0x28, 0x2D, 0xE8, 0x5F, 0xE7, 0xE0, 0x29],
    [0x80, 0xFF, 0xA0, 0xC3, 0xA9, 0xBF, 0xC0, 0xDF, 0xF7, 0x81],
    [0x7F, 0x80, 0x7E, 0xC2, 0xA0, 0xE2, 0x82, 0xAC, 0xF0, 0x9F],
    [49, 50, 51, 52, 53, 0, 0, 0, 0, 0],
    [0xE9, 0, 0xE8, 0, 97, 0, 0, 0, 0, 0],
    [0x1E9, 0x141, 65, 66, 0x7FFF_FFE9, 67, 68, 69, 70, 0x2C3],
    [256, 49, 50, 51, 52, 53, 54, 55, 56, 57],
    [-1, -128, -23, -200, i32::MIN + 0xC3, 49, 50, 51, 52, 53],
];

const KEY_NAMES: [&str; 17] = [
    "Space", "Esc", "Enter", "Del", "Backspace", "Tab", "Left", "Right", "Up", "Down", "Home", "End", "PageUp",
    "PageDown", "ShiftLeft", "ShiftRight", "Capslock",
];

// ------------------------------------------------------------------------------------------------
// worker
// ------------------------------------------------------------------------------------------------

struct Heap {
    addr: usize,
    size: usize,
    freed: bool,
}

struct Worker {
    ctx: *mut ChewingContext,
    ctx_lo: usize,
    ctx_hi: usize,
    empty_ptr: usize,
    step: usize,
    heap: Vec<Heap>,
    up_snap: Option<Vec<(Vec<u8>, Vec<u8>)>>,
    up_pos: usize,
    cand_snap: Option<Vec<Vec<u8>>>,
    cand_pos: usize,
    int_snap: Option<Vec<(i32, i32)>>,
    int_pos: usize,
    kb_names: Vec<Vec<u8>>,
    kb_pos: Option<usize>,
    last_uh: Option<(u32, u32)>,
    calls: Vec<String>,
    gets: BTreeSet<String>,
    problems: Vec<String>,
    static_pointer: u8,
    strict: bool,
}

fn hexs(b: &[u8]) -> String {
    let mut s = String::with_capacity(2 * b.len());
    for x in b {
        s.push_str(&format!("{:02x}", x));
    }
    s
}

/// (bytes up to the last non-zero byte, number of trailing zero bytes)
fn split_dump(d: &[u8]) -> (Vec<u8>, usize) {
    let n = d.iter().rposition(|b| *b != 0).map_or(0, |i| i + 1);
    (d[..n].to_vec(), d.len() - n)
}

/// longest prefix of `s` that is at most `max` bytes long and ends at a character boundary
fn boundary_prefix(s: &[u8], max: usize) -> &[u8] {
    let mut n = s.len().min(max);
    while n > 0 && n < s.len() && (s[n] & 0xC0) == 0x80 {
        n -= 1;
    }
    &s[..n]
}

impl Worker {
    fn problem(&mut self, class: &str, what: String) {
        self.problems.push(format!("{} step={} {}", class, self.step, what));
    }

    fn tok(&mut self, name: &str, args: &str, ret: &str) {
        let mut t = String::from(name);
        if !args.is_empty() {
            t.push(':');
            t.push_str(args);
        }
        if !ret.is_empty() {
            t.push('=');
            t.push_str(ret);
        }
        self.calls.push(t);
    }

    unsafe fn take_heap(&mut self, p: *mut c_char, what: &str) -> Option<Vec<u8>> {
        if p.is_null() {
            return None;
        }
        let bytes = CStr::from_ptr(p).to_bytes().to_vec();
        if std::str::from_utf8(&bytes).is_err() {
            self.problem("utf8", format!("{} heap result is not valid UTF-8: b{}", what, hexs(&bytes)));
        }
        Some(bytes)
    }

    /// frees a heap string at once (observation getters); checked by the layout allocator
    unsafe fn free_now(&mut self, p: *mut c_void, what: &str) {
        let before = MISMATCH.load(SeqCst);
        chewing_free(p);
        if MISMATCH.load(SeqCst) != before {
            self.problem("free-layout", format!("chewing_free of a {} result deallocates with a different layout", what));
        }
    }

    /// a static getter must return the context's own buffer or the global empty string
    fn check_static_ptr(&mut self, which: &str, st: *const c_char) -> bool {
        let a = st as usize;
        if a == self.empty_ptr || (a >= self.ctx_lo && a < self.ctx_hi) {
            true
        } else {
            self.problem(
                "static-ptr",
                format!("{}_static returned {:#x}: neither inside the context [{:#x}, {:#x}) nor the global empty string", which, a, self.ctx_lo, self.ctx_hi),
            );
            false
        }
    }

    /// static getter: dump the context buffer up to its capacity, compare with the heap variant
    unsafe fn pair(&mut self, which: &str, cap: usize, st: *const c_char, hp: *mut c_char) {
        let heap = self.take_heap(hp, which);
        if !hp.is_null() {
            self.free_now(hp.cast(), which);
        }
        if st.is_null() {
            self.problem("null", format!("{}_static returned NULL", which));
            return;
        }
        if !self.check_static_ptr(which, st) {
            return;
        }
        if st as usize == self.empty_ptr {
            if heap.as_deref().map_or(false, |h| !h.is_empty()) {
                self.problem("same", format!("{}: static variant is the empty string, heap variant x{}", which, hexs(&heap.unwrap())));
            }
            return;
        }
        let dump = std::slice::from_raw_parts(st as *const u8, cap).to_vec();
        let (pre, zeros) = split_dump(&dump);
        let nul = dump.iter().position(|b| *b == 0);
        let text: &[u8] = match nul {
            Some(n) => &dump[..n],
            None => {
                self.problem(
                    "nul",
                    format!("{}_static: no NUL terminator within the {}-byte buffer: b{}", which, cap, hexs(&dump)),
                );
                &dump[..]
            }
        };
        if std::str::from_utf8(text).is_err() {
            self.problem("utf8", format!("{}_static text is not valid UTF-8: b{}", which, hexs(text)));
        }
        match heap {
            Some(h) => {
                self.gets.insert(format!("cstr get {} {} x{} => b{} {}", which, cap, hexs(&h), hexs(&pre), zeros));
                if h != text {
                    let overlong = h.len() >= cap && nul.is_some() && text == boundary_prefix(&h, cap - 1);
                    let class = if overlong { "same-overlong" } else { "same" };
                    self.problem(
                        class,
                        format!(
                            "{}: static variant ({} bytes) differs from the heap variant ({} bytes, {} chars): static x{} heap x{}",
                            which,
                            text.len(),
                            h.len(),
                            String::from_utf8_lossy(&h).chars().count(),
                            hexs(text),
                            hexs(&h)
                        ),
                    );
                }
            }
            None => self.problem("null", format!("{} heap variant returned NULL", which)),
        }
    }

    unsafe fn observe(&mut self) {
        let c = self.ctx;
        self.pair("commit", CAP_COMMIT, chewing_commit_String_static(c), chewing_commit_String(c));
        self.pair("buffer", CAP_PREEDIT, chewing_buffer_String_static(c), chewing_buffer_String(c));
        self.pair("bopomofo", CAP_BOPOMOFO, chewing_bopomofo_String_static(c), chewing_bopomofo_String(c));
        self.pair("aux", CAP_AUX, chewing_aux_String_static(c), chewing_aux_String(c));
    }

    /// registers a heap result of an op (kept until a later `fr`), returns its id
    fn keep(&mut self, p: *mut c_void, size: usize) -> usize {
        self.heap.push(Heap { addr: p as usize, size, freed: false });
        self.heap.len() - 1
    }

    unsafe fn all_candidates(&mut self) -> Vec<Vec<u8>> {
        let n = chewing_cand_TotalChoice(self.ctx);
        let mut v = Vec::new();
        for i in 0..n {
            let p = chewing_cand_string_by_index_static(self.ctx, i);
            v.push(CStr::from_ptr(p).to_bytes().to_vec());
        }
        v
    }

    unsafe fn drain_userphrases(&mut self) -> Vec<(Vec<u8>, Vec<u8>)> {
        let mut v = Vec::new();
        loop {
            let (mut pl, mut bl): (c_uint, c_uint) = (0, 0);
            if chewing_userphrase_has_next(self.ctx, &mut pl, &mut bl) != 1 {
                break;
            }
            let mut pb = vec![0xAAu8; pl as usize];
            let mut bb = vec![0xAAu8; bl as usize];
            if chewing_userphrase_get(self.ctx, pb.as_mut_ptr().cast(), pl, bb.as_mut_ptr().cast(), bl) != 0 {
                self.problem("proto-up", "has_next = 1 but get fails while draining".into());
                break;
            }
            pb.pop();
            bb.pop();
            v.push((pb, bb));
            if v.len() > 10_000 {
                break;
            }
        }
        v
    }

    unsafe fn exec(&mut self, op: &str) -> String {
        let c = self.ctx;
        let mut parts = op.split(':');
        let name = parts.next().unwrap();
        let a1: i64 = parts.next().and_then(|s| s.parse().ok()).unwrap_or(0);
        let a2: i64 = parts.next().and_then(|s| s.parse().ok()).unwrap_or(0);
        let prev_uh = self.last_uh.take();
        match name {
            // ---------------------------------------------------------------- keys
            "k" => {
                chewing_handle_Default(c, a1 as c_int);
                self.tok("chewing_handle_Default", "", "");
                String::new()
            }
            "key" => {
                let kn = KEY_NAMES[a1 as usize % KEY_NAMES.len()];
                match kn {
                    "Space" => chewing_handle_Space(c),
                    "Esc" => chewing_handle_Esc(c),
                    "Enter" => chewing_handle_Enter(c),
                    "Del" => chewing_handle_Del(c),
                    "Backspace" => chewing_handle_Backspace(c),
                    "Tab" => chewing_handle_Tab(c),
                    "Left" => chewing_handle_Left(c),
                    "Right" => chewing_handle_Right(c),
                    "Up" => chewing_handle_Up(c),
                    "Down" => chewing_handle_Down(c),
                    "Home" => chewing_handle_Home(c),
                    "End" => chewing_handle_End(c),
                    "PageUp" => chewing_handle_PageUp(c),
                    "PageDown" => chewing_handle_PageDown(c),
                    "ShiftLeft" => chewing_handle_ShiftLeft(c),
                    "ShiftRight" => chewing_handle_ShiftRight(c),
                    _ => chewing_handle_Capslock(c),
                };
                self.tok(&format!("chewing_handle_{}", kn), "", "");
                String::new()
            }
            "cn" => {
                chewing_handle_CtrlNum(c, b'0' as c_int + (a1 as c_int % 10));
                self.tok("chewing_handle_CtrlNum", "", "");
                String::new()
            }
            "dt" => {
                chewing_handle_DblTab(c);
                self.tok("chewing_handle_DblTab", "", "");
                String::new()
            }
            // ---------------------------------------------------------------- user phrases
            "ue" => {
                // enumerate, drain (the snapshot the iteration has to reproduce), enumerate again
                chewing_userphrase_enumerate(c);
                let snap = self.drain_userphrases();
                let r = chewing_userphrase_enumerate(c);
                let n = snap.len();
                self.up_snap = Some(snap);
                self.up_pos = 0;
                self.tok("chewing_userphrase_enumerate", &n.to_string(), "");
                format!("ret={} n={}", r, n)
            }
            "uh" => {
                let (mut pl, mut bl): (c_uint, c_uint) = (7777, 7777);
                let r = chewing_userphrase_has_next(c, &mut pl, &mut bl);
                self.tok("chewing_userphrase_has_next", "", &r.to_string());
                if self.strict {
                    let expect = self.up_snap.as_ref().and_then(|s| s.get(self.up_pos).cloned());
                    match (r, expect) {
                        (1, Some((p, b))) => {
                            if pl as usize != p.len() + 1 || bl as usize != b.len() + 1 {
                                self.problem(
                                    "proto-up",
                                    format!("has_next lengths {} {} but the next entry needs {} {}", pl, bl, p.len() + 1, b.len() + 1),
                                );
                            }
                        }
                        (0, None) => {}
                        (r, e) => self.problem(
                            "proto-up",
                            format!("has_next = {} but the enumeration snapshot has {} entry at position {}", r, if e.is_some() { "an" } else { "no" }, self.up_pos),
                        ),
                    }
                }
                if r == 1 && pl < 4096 && bl < 4096 {
                    self.last_uh = Some((pl, bl));
                }
                if r != 1 {
                    // has_next = 0 drops the exhausted iterator
                    self.up_snap = None;
                }
                format!("ret={} pl={} bl={}", r, pl, bl)
            }
            "ug" => {
                // buffers exactly as large as has_next said (heap blocks: memcheck sees any overrun), else ample
                let (pl, bl) = prev_uh.unwrap_or((1024, 1024));
                let mut pb = vec![0xAAu8; pl as usize];
                let mut bb = vec![0xAAu8; bl as usize];
                let r = chewing_userphrase_get(c, pb.as_mut_ptr().cast(), pl, bb.as_mut_ptr().cast(), bl);
                self.tok("chewing_userphrase_get", "", &r.to_string());
                if self.strict {
                    let expect = self.up_snap.as_ref().and_then(|s| s.get(self.up_pos).cloned());
                    match (r, expect) {
                        (0, Some((p, b))) => {
                            let pn = pb.iter().position(|x| *x == 0);
                            let bn = bb.iter().position(|x| *x == 0);
                            match (pn, bn) {
                                (Some(pn), Some(bn)) => {
                                    if std::str::from_utf8(&pb[..pn]).is_err() || std::str::from_utf8(&bb[..bn]).is_err() {
                                        self.problem("utf8", format!("userphrase_get wrote invalid UTF-8: b{} b{}", hexs(&pb[..pn]), hexs(&bb[..bn])));
                                    }
                                    if pb[..pn] != p[..] || bb[..bn] != b[..] {
                                        self.problem(
                                            "snap-up",
                                            format!("get returned x{} / x{} but the enumeration snapshot has x{} / x{} at position {}",
                                                hexs(&pb[..pn]), hexs(&bb[..bn]), hexs(&p), hexs(&b), self.up_pos),
                                        );
                                    }
                                }
                                _ => self.problem("nul", "userphrase_get: no NUL terminator in a caller buffer".into()),
                            }
                        }
                        (-1, None) => {}
                        (r, e) => self.problem(
                            "proto-up",
                            format!("get = {} but the enumeration snapshot has {} entry at position {}", r, if e.is_some() { "an" } else { "no" }, self.up_pos),
                        ),
                    }
                }
                if r == 0 {
                    self.up_pos += 1;
                }
                format!("ret={} exact={}", r, prev_uh.is_some())
            }
            "ua" | "ur" | "ul" => {
                let (p, b) = POOL[a1 as usize % POOL.len()];
                let (p, b) = (CString::new(p).unwrap(), CString::new(b).unwrap());
                let (r, f) = match name {
                    "ua" => (chewing_userphrase_add(c, p.as_ptr(), b.as_ptr()), "chewing_userphrase_add"),
                    "ur" => (chewing_userphrase_remove(c, p.as_ptr(), b.as_ptr()), "chewing_userphrase_remove"),
                    _ => (chewing_userphrase_lookup(c, p.as_ptr(), b.as_ptr()), "chewing_userphrase_lookup"),
                };
                self.tok(f, "", "");
                format!("ret={}", r)
            }
            // ---------------------------------------------------------------- candidates
            "ce" => {
                let sel = chewing_cand_CheckDone(c) == 0;
                if sel {
                    let all = self.all_candidates();
                    let skip = (chewing_cand_CurrentPage(c) * chewing_cand_ChoicePerPage(c)).max(0) as usize;
                    // the enumeration runs from the start of the current page to the END of the list (paginated_candidates
                    // skips but does not take; paging itself is C07's subject)
                    self.cand_snap = Some(all.into_iter().skip(skip).collect());
                    self.cand_pos = 0;
                }
                chewing_cand_Enumerate(c);
                let n = self.cand_snap.as_ref().map_or(0, |s| s.len());
                self.tok("chewing_cand_Enumerate", &format!("{}:{}", sel as u8, n), "");
                format!("sel={} n={}", sel, n)
            }
            "ch" => {
                let sel = chewing_cand_CheckDone(c) == 0;
                let r = chewing_cand_hasNext(c);
                self.tok("chewing_cand_hasNext", &(sel as u8).to_string(), &r.to_string());
                let left = self.cand_snap.as_ref().map_or(0, |s| s.len().saturating_sub(self.cand_pos));
                if (r == 1) != (sel && left > 0) {
                    self.problem("proto-cand", format!("cand_hasNext = {} selecting = {} but {} snapshot items remain", r, sel, left));
                }
                format!("ret={}", r)
            }
            "cs" | "ct" => {
                let expect = self.cand_snap.as_ref().and_then(|s| s.get(self.cand_pos).cloned());
                let got: Vec<u8>;
                if name == "cs" {
                    let p = chewing_cand_String(c);
                    got = self.take_heap(p, "cand_String").unwrap_or_default();
                    self.keep(p.cast(), got.len() + 1);
                    self.tok("chewing_cand_String", &(p as usize).to_string(), &(!got.is_empty() as u8).to_string());
                } else {
                    let p = chewing_cand_String_static(c);
                    if !self.check_static_ptr("cand_String", p) {
                        return "bad-pointer".into();
                    }
                    got = CStr::from_ptr(p).to_bytes().to_vec();
                    if std::str::from_utf8(&got).is_err() {
                        self.problem("utf8", format!("cand_String_static is not valid UTF-8: b{}", hexs(&got)));
                    }
                    if p as usize != self.empty_ptr {
                        let dump = std::slice::from_raw_parts(p as *const u8, CAP_CAND).to_vec();
                        let (pre, zeros) = split_dump(&dump);
                        if let Some(e) = &expect {
                            self.gets.insert(format!("cstr get cand {} x{} => b{} {}", CAP_CAND, hexs(e), hexs(&pre), zeros));
                        }
                    }
                    self.tok("chewing_cand_String_static", "", &(!got.is_empty() as u8).to_string());
                }
                match expect {
                    Some(e) => {
                        if e != got {
                            self.problem("snap-cand", format!("candidate x{} but the enumeration snapshot has x{} at position {}", hexs(&got), hexs(&e), self.cand_pos));
                        }
                        self.cand_pos += 1;
                    }
                    None => {
                        if !got.is_empty() {
                            self.problem("snap-cand", format!("candidate x{} after the end of the enumeration snapshot", hexs(&got)));
                        }
                    }
                }
                format!("x{}", hexs(&got))
            }
            "co" => {
                let r = chewing_cand_open(c);
                self.tok("chewing_cand_open", "", "");
                format!("ret={}", r)
            }
            "cc" => {
                let r = chewing_cand_close(c);
                self.tok("chewing_cand_close", "", "");
                format!("ret={}", r)
            }
            "ci" => {
                let r = chewing_cand_choose_by_index(c, a1 as c_int);
                self.tok("chewing_cand_choose_by_index", "", "");
                format!("ret={}", r)
            }
            "cx" => {
                let st = chewing_cand_string_by_index_static(c, a1 as c_int);
                let hp = chewing_cand_string_by_index(c, a1 as c_int);
                let h = self.take_heap(hp, "cand_string_by_index").unwrap_or_default();
                self.free_now(hp.cast(), "cand_string_by_index");
                self.tok("chewing_cand_string_by_index_static", "", "");
                if !self.check_static_ptr("cand_string_by_index", st) {
                    return "bad-pointer".into();
                }
                // the static variant returns the global empty string (not the context buffer) when out of range
                let stext = CStr::from_ptr(st).to_bytes().to_vec();
                if std::str::from_utf8(&stext).is_err() {
                    self.problem("utf8", format!("cand_string_by_index_static is not valid UTF-8: b{}", hexs(&stext)));
                }
                if st as usize != self.empty_ptr {
                    let dump = std::slice::from_raw_parts(st as *const u8, CAP_CAND).to_vec();
                    let (pre, zeros) = split_dump(&dump);
                    self.gets.insert(format!("cstr get cand {} x{} => b{} {}", CAP_CAND, hexs(&h), hexs(&pre), zeros));
                }
                if stext != h {
                    self.problem("same", format!("cand_string_by_index({}): static x{} heap x{}", a1, hexs(&stext), hexs(&h)));
                }
                format!("x{}", hexs(&h))
            }
            "clf" | "cll" | "cln" | "clp" => {
                let (r, f) = match name {
                    "clf" => (chewing_cand_list_first(c), "chewing_cand_list_first"),
                    "cll" => (chewing_cand_list_last(c), "chewing_cand_list_last"),
                    "cln" => (chewing_cand_list_next(c), "chewing_cand_list_next"),
                    _ => (chewing_cand_list_prev(c), "chewing_cand_list_prev"),
                };
                self.tok(f, "", "");
                format!("ret={}", r)
            }
            // ---------------------------------------------------------------- intervals
            "ie" => {
                chewing_interval_Enumerate(c);
                let mut snap = Vec::new();
                while chewing_interval_hasNext(c) == 1 && snap.len() < 1000 {
                    let mut it = IntervalType { from: -7, to: -7 };
                    chewing_interval_Get(c, &mut it);
                    snap.push((it.from, it.to));
                }
                chewing_interval_Enumerate(c);
                let n = snap.len();
                self.int_snap = Some(snap);
                self.int_pos = 0;
                self.tok("chewing_interval_Enumerate", &n.to_string(), "");
                format!("n={}", n)
            }
            "ih" => {
                let r = chewing_interval_hasNext(c);
                self.tok("chewing_interval_hasNext", "", &r.to_string());
                let left = self.int_snap.as_ref().map_or(0, |s| s.len().saturating_sub(self.int_pos));
                if (r == 1) != (left > 0) {
                    self.problem("proto-int", format!("interval_hasNext = {} but {} snapshot items remain", r, left));
                }
                format!("ret={}", r)
            }
            "ig" => {
                let mut it = IntervalType { from: -7, to: -7 };
                chewing_interval_Get(c, &mut it);
                let wrote = it.from != -7 || it.to != -7;
                self.tok("chewing_interval_Get", "", &(wrote as u8).to_string());
                let expect = self.int_snap.as_ref().and_then(|s| s.get(self.int_pos).cloned());
                match expect {
                    Some(e) => {
                        if !wrote || e != (it.from, it.to) {
                            self.problem("snap-int", format!("interval ({}, {}) but the enumeration snapshot has {:?} at position {}", it.from, it.to, e, self.int_pos));
                        }
                        self.int_pos += 1;
                    }
                    None => {
                        if wrote {
                            self.problem("snap-int", format!("interval ({}, {}) after the end of the enumeration snapshot", it.from, it.to));
                        }
                    }
                }
                format!("{} {}", it.from, it.to)
            }
            // ---------------------------------------------------------------- keyboard types
            "ke" => {
                chewing_kbtype_Enumerate(c);
                self.kb_pos = Some(0);
                let n = chewing_kbtype_Total(c);
                self.tok("chewing_kbtype_Enumerate", &n.to_string(), "");
                format!("n={}", n)
            }
            "kh" => {
                let r = chewing_kbtype_hasNext(c);
                self.tok("chewing_kbtype_hasNext", "", &r.to_string());
                let left = self.kb_pos.map_or(0, |p| self.kb_names.len().saturating_sub(p));
                if (r == 1) != (left > 0) {
                    self.problem("proto-kb", format!("kbtype_hasNext = {} but {} names remain", r, left));
                }
                format!("ret={}", r)
            }
            "ks" | "kt" => {
                let expect = self.kb_pos.and_then(|p| self.kb_names.get(p).cloned());
                let got: Vec<u8>;
                if name == "ks" {
                    let p = chewing_kbtype_String(c);
                    got = self.take_heap(p, "kbtype_String").unwrap_or_default();
                    self.keep(p.cast(), got.len() + 1);
                    self.tok("chewing_kbtype_String", &(p as usize).to_string(), &(!got.is_empty() as u8).to_string());
                } else {
                    let p = chewing_kbtype_String_static(c);
                    if !self.check_static_ptr("kbtype_String", p) {
                        return "bad-pointer".into();
                    }
                    got = CStr::from_ptr(p).to_bytes().to_vec();
                    if std::str::from_utf8(&got).is_err() {
                        self.problem("utf8", format!("kbtype_String_static is not valid UTF-8: b{}", hexs(&got)));
                    }
                    if p as usize != self.empty_ptr {
                        let dump = std::slice::from_raw_parts(p as *const u8, CAP_KBTYPE).to_vec();
                        let (pre, zeros) = split_dump(&dump);
                        if let Some(e) = &expect {
                            self.gets.insert(format!("cstr get kbtype {} x{} => b{} {}", CAP_KBTYPE, hexs(e), hexs(&pre), zeros));
                        }
                    }
                    self.tok("chewing_kbtype_String_static", "", &(!got.is_empty() as u8).to_string());
                }
                match expect {
                    Some(e) => {
                        if e != got {
                            self.problem("snap-kb", format!("keyboard name x{} but position {} is x{}", hexs(&got), self.kb_pos.unwrap(), hexs(&e)));
                        }
                        self.kb_pos = self.kb_pos.map(|p| p + 1);
                    }
                    None => {
                        if !got.is_empty() {
                            self.problem("snap-kb", format!("keyboard name x{} after the end of the enumeration", hexs(&got)));
                        }
                    }
                }
                format!("x{}", hexs(&got))
            }
            "kb" => {
                let r = chewing_set_KBType(c, a1 as c_int);
                self.tok("chewing_set_KBType", "", "");
                format!("ret={}", r)
            }
            "kbs" => {
                let nm = self.kb_names[a1 as usize % self.kb_names.len()].clone();
                let v = CString::new(nm).unwrap();
                let r = chewing_config_set_str(c, c"chewing.keyboard_type".as_ptr(), v.as_ptr());
                self.tok("chewing_config_set_str", "", "");
                format!("ret={}", r)
            }
            "selk" => {
                let v = CString::new(SELKEYS[a1 as usize % SELKEYS.len()]).unwrap();
                let r = chewing_config_set_str(c, c"chewing.selection_keys".as_ptr(), v.as_ptr());
                self.tok("chewing_config_set_str", "", "");
                format!("ret={}", r)
            }
            "ssk" => {
                // the legacy setter: ten integers, stored as they are
                let keys = SELKEY_ARRAYS[a1 as usize % SELKEY_ARRAYS.len()];
                chewing_set_selKey(c, keys.as_ptr(), 10);
                self.tok("chewing_set_selKey", "", "");
                format!("{:?}", keys)
            }
            "conf" => {
                // the legacy bulk call (ChewingConfigData is repr(C): 2 ints, 10 selection keys, 7 ints) with the current
                // values of the other options
                let keys = SELKEY_ARRAYS[a1 as usize % SELKEY_ARRAYS.len()];
                let mut data: [c_int; 19] = [0; 19];
                data[0] = chewing_get_candPerPage(c);
                data[1] = chewing_get_maxChiSymbolLen(c);
                data[2..12].copy_from_slice(&keys);
                data[12] = chewing_get_addPhraseDirection(c);
                data[13] = chewing_get_spaceAsSelection(c);
                data[14] = chewing_get_escCleanAllBuf(c);
                data[15] = chewing_get_autoShiftCur(c);
                data[16] = chewing_get_easySymbolInput(c);
                data[17] = chewing_get_phraseChoiceRearward(c);
                let r = chewing_Configure(c, data.as_mut_ptr().cast());
                self.tok("chewing_Configure", "", "");
                format!("ret={} {:?}", r, keys)
            }
            "cfg" => {
                let ix = a1 as usize % INT_OPTIONS.len();
                let nm = CString::new(INT_OPTIONS[ix]).unwrap();
                // engine changes with a non-empty buffer lead to the word-less-syllable states of F02/F30 (C03/C01):
                // random histories change the engine only when idle; the F35 witness uses `cfgx`
                if ix == IX_ENGINE && (chewing_buffer_Len(c) != 0 || chewing_bopomofo_Check(c) != 0) {
                    return "skipped".into();
                }
                let r = chewing_config_set_int(c, nm.as_ptr(), a2 as c_int);
                self.tok("chewing_config_set_int", "", "");
                format!("ret={}", r)
            }
            "cfgx" => {
                let nm = CString::new(INT_OPTIONS[a1 as usize % INT_OPTIONS.len()]).unwrap();
                let r = chewing_config_set_int(c, nm.as_ptr(), a2 as c_int);
                self.tok("chewing_config_set_int", "", "");
                format!("ret={}", r)
            }
            "reset" => {
                chewing_Reset(c);
                self.tok("chewing_Reset", "", "");
                // since the C17 fix `chewing_Reset drops the pending enumeration iterators`: all four slots are empty
                self.up_snap = None;
                self.up_pos = 0;
                self.cand_snap = None;
                self.cand_pos = 0;
                self.int_snap = None;
                self.int_pos = 0;
                self.kb_pos = None;
                self.last_uh = None;
                String::new()
            }
            "ack" => {
                chewing_ack(c);
                self.tok("chewing_ack", "", "");
                String::new()
            }
            "commit" => {
                let r = chewing_commit_preedit_buf(c);
                self.tok("chewing_commit_preedit_buf", "", "");
                format!("ret={}", r)
            }
            "clean" => {
                let r = chewing_clean_preedit_buf(c);
                self.tok("chewing_clean_preedit_buf", "", "");
                format!("ret={}", r)
            }
            "cleanb" => {
                let r = chewing_clean_bopomofo_buf(c);
                self.tok("chewing_clean_bopomofo_buf", "", "");
                format!("ret={}", r)
            }
            // ---------------------------------------------------------------- heap results kept for a later free
            "ps" => {
                let n = chewing_get_phoneSeqLen(c);
                let p = chewing_get_phoneSeq(c);
                // a client reads chewing_get_phoneSeqLen() elements of the array: they must lie inside the block that
                // chewing_get_phoneSeq allocated (round 3, after the seeded change C15-phoneseqlen-counts-all-symbols)
                if let Some(sz) = tab_size(p as usize) {
                    if 2 * n.max(0) as usize > sz {
                        self.problem("phoneseq-len-beyond-array", format!("chewing_get_phoneSeqLen = {} but chewing_get_phoneSeq allocated {} bytes ({} elements): reading the announced length runs past the block", n, sz, sz / 2));
                    }
                }
                self.keep(p.cast(), 2 * n.max(0) as usize);
                self.tok("chewing_get_phoneSeq", &format!("{}:{}", p as usize, n), "");
                format!("len={}", n)
            }
            "hs" => {
                let (p, f) = match a1 % 6 {
                    0 => (chewing_get_KBString(c), "chewing_get_KBString"),
                    1 => (chewing_buffer_String(c), "chewing_buffer_String"),
                    2 => (chewing_commit_String(c), "chewing_commit_String"),
                    3 => (chewing_aux_String(c), "chewing_aux_String"),
                    4 => (chewing_bopomofo_String(c), "chewing_bopomofo_String"),
                    _ => {
                        let mut n: c_int = 0;
                        (chewing_zuin_String(c, &mut n), "chewing_zuin_String")
                    }
                };
                let t = self.take_heap(p, "heap getter").unwrap_or_default();
                self.keep(p.cast(), t.len() + 1);
                self.tok(f, &(p as usize).to_string(), "");
                format!("x{}", hexs(&t))
            }
            "cgs" => {
                let mut p: *mut c_char = std::ptr::null_mut();
                let nm = if a1 % 2 == 0 { c"chewing.keyboard_type" } else { c"chewing.selection_keys" };
                let r = chewing_config_get_str(c, nm.as_ptr(), &mut p);
                let t = self.take_heap(p, "config_get_str").unwrap_or_default();
                if (r == 0) == p.is_null() {
                    self.problem("proto-cgs", format!("chewing_config_get_str returned {} with a {} result pointer", r, if p.is_null() { "NULL" } else { "non-NULL" }));
                }
                if a1 % 2 != 0 {
                    // the selection keys as the context holds them (chewing_get_selKey points into the context)
                    let kp = chewing_get_selKey(c);
                    if !kp.is_null() {
                        let keys: Vec<i32> = std::slice::from_raw_parts(kp as *const i32, 10).to_vec();
                        let ks: Vec<String> = keys.iter().map(|k| k.to_string()).collect();
                        // model record: the text is the UTF-8 encoding of `char::from(key as u8)` per key, an error iff a low byte is 0
                        self.gets.insert(format!("cstr selkeys {} => {} {}", ks.join(","), r, if p.is_null() { "-".to_string() } else { format!("x{}", hexs(&t)) }));
                        // and directly: what a reader decodes is one character per key, the key's low byte as a code point
                        let want: String = keys.iter().map(|k| char::from(*k as u8)).collect();
                        if keys.iter().any(|k| *k as u8 == 0) {
                            if r == 0 {
                                self.problem("selkeys-text", format!("config_get_str(selection_keys) = OK x{} although a key's low byte is 0: keys {:?}", hexs(&t), keys));
                            }
                        } else if r != 0 || t != want.as_bytes() {
                            self.problem("selkeys-text", format!("config_get_str(selection_keys) = {} x{} but the keys {:?} read x{}", r, hexs(&t), keys, hexs(want.as_bytes())));
                        }
                    }
                }
                if !p.is_null() {
                    self.keep(p.cast(), t.len() + 1);
                    self.tok("chewing_config_get_str", &(p as usize).to_string(), "");
                }
                format!("ret={} x{}", r, hexs(&t))
            }
            "p2b" => {
                // pure helper writing into a caller buffer of `len` bytes (a heap block: memcheck sees any overrun)
                let (phone, len) = (a1 as u16, (a2 as usize).min(64));
                let mut buf = vec![0xAAu8; len];
                let r = chewing_phone_to_bopomofo(phone, if len == 0 { std::ptr::null_mut() } else { buf.as_mut_ptr().cast() }, len as u16);
                self.tok("chewing_phone_to_bopomofo", "", "");
                if r > 0 && len >= r as usize {
                    let n = r as usize - 1;
                    if buf[n] != 0 || buf[..n].contains(&0) {
                        self.problem("nul", format!("phone_to_bopomofo({:#x}, len {}) = {}: the text is not NUL-terminated at {}: b{}", phone, len, r, n, hexs(&buf)));
                    } else if std::str::from_utf8(&buf[..n]).is_err() {
                        // (an empty text is well-formed: the empty syllable 0x8000 and the bare first-tone value 0x0005 spell
                        // as ""; values that are no syllable, e.g. 0x6a07, are answered with -1 since the repair of C13's F47)
                        self.problem("utf8", format!("phone_to_bopomofo({:#x}) wrote b{}: not valid UTF-8", phone, hexs(&buf[..n])));
                    }
                    if buf[n + 1..].iter().any(|b| *b != 0xAA) {
                        self.problem("overrun", format!("phone_to_bopomofo({:#x}, len {}) = {} wrote beyond its text: b{}", phone, len, r, hexs(&buf)));
                    }
                } else if buf.iter().any(|b| *b != 0xAA) {
                    self.problem("overrun", format!("phone_to_bopomofo({:#x}, len {}) = {} wrote into a buffer that is too short: b{}", phone, len, r, hexs(&buf)));
                }
                format!("ret={}", r)
            }
            "gsk" => {
                // chewing_get_selKey hands out a pointer INTO the context (not a heap result): reading it is fine,
                // passing it to chewing_free must be ignored
                let p = chewing_get_selKey(c);
                let a = p as usize;
                if !(a >= self.ctx_lo && a + 40 <= self.ctx_hi) {
                    self.problem("static-ptr", format!("chewing_get_selKey returned {:#x}: not ten ints inside the context", a));
                    return "bad-pointer".into();
                }
                let keys: Vec<i32> = std::slice::from_raw_parts(p as *const i32, 10).to_vec();
                self.tok("chewing_get_selKey", "", "");
                chewing_free(p.cast());
                self.tok("chewing_free", &a.to_string(), "");
                format!("{:?}", keys)
            }
            "fr" => {
                // release a live result
                let cands: Vec<usize> = (0..self.heap.len()).filter(|i| !self.heap[*i].freed && self.heap[*i].addr != 0).collect();
                if cands.is_empty() {
                    return "none".into();
                }
                let id = cands[a1 as usize % cands.len()];
                let addr = self.heap[id].addr;
                let before = MISMATCH.load(SeqCst);
                chewing_free(addr as *mut c_void);
                if MISMATCH.load(SeqCst) != before {
                    self.problem("free-layout", format!("chewing_free of heap result #{} deallocates with a different layout", id));
                }
                self.heap[id].freed = true;
                self.tok("chewing_free", &addr.to_string(), "");
                format!("id={}", id)
            }
            "frs" => {
                // a caller-owned block whose address equals that of a RELEASED library result (the allocator reuses it):
                // chewing_free must ignore it — it is not a result of the library (same class as the interior pointer of
                // chewing_get_selKey, which the documentation tells the caller to pass to chewing_free)
                let cands: Vec<usize> = (0..self.heap.len())
                    .filter(|i| self.heap[*i].freed && self.heap[*i].size > 0 && !self.heap.iter().any(|h| !h.freed && h.addr == self.heap[*i].addr))
                    .collect();
                if cands.is_empty() {
                    return "none".into();
                }
                let id = cands[a1 as usize % cands.len()];
                let (addr, size) = (self.heap[id].addr, self.heap[id].size);
                let q = libc::malloc(size) as usize;
                if q != addr {
                    libc::free(q as *mut c_void);
                    return "no-reuse".into();
                }
                chewing_free(q as *mut c_void);
                // at once, before any other allocation can take the block: is the caller's block still allocated?
                let r = libc::malloc(size) as usize;
                self.tok("chewing_free", &q.to_string(), "");
                if r == q {
                    // the library released the caller's block
                    self.problem("free-stale", format!("chewing_free released a caller-owned block at {:#x} because a result released earlier had that address (stale OWNED entry)", q));
                    libc::free(r as *mut c_void);
                } else {
                    libc::free(r as *mut c_void);
                    libc::free(q as *mut c_void);
                }
                format!("id={}", id)
            }
            "fru" => {
                // a pointer the library never handed out, and NULL
                let a = (&mut self.static_pointer as *mut u8) as usize;
                chewing_free(a as *mut c_void);
                self.tok("chewing_free", &a.to_string(), "");
                chewing_free(std::ptr::null_mut());
                self.tok("chewing_free", "0", "");
                String::new()
            }
            _ => "unknown-op".into(),
        }
    }
}

/// layout of the persisted user dictionary = pool ids added through a first context and flushed by chewing_delete
unsafe fn prepare_user_file(sys: &CString, path: &CString, ids: &[usize]) {
    if ids.is_empty() {
        return;
    }
    let ctx = chewing_new2(sys.as_ptr(), path.as_ptr(), None, std::ptr::null_mut());
    assert!(!ctx.is_null());
    for i in ids {
        let (p, b) = POOL[*i % POOL.len()];
        let (p, b) = (CString::new(p).unwrap(), CString::new(b).unwrap());
        chewing_userphrase_add(ctx, p.as_ptr(), b.as_ptr());
    }
    chewing_delete(ctx);
}

fn repo_path() -> String {
    std::env::var("VERIF_REPO").unwrap_or_else(|_| "/repo".into())
}

/// history line: `<hid> <S|U> <T|B> <M|F<id.id…>> <op,op,…>`   (S = strict snapshot oracles; U = without them, unused since the F22 fix)
unsafe fn run_history(line: &str) {
    let f: Vec<&str> = line.split(' ').collect();
    let (hid, fam, dict, user, ops) = (f[0], f[1], f[2], f[3], f.get(4).copied().unwrap_or(""));
    println!("H {}", hid);
    let dir = tempfile::tempdir().unwrap();
    let sys = if dict == "T" { format!("{}/tests/data", repo_path()) } else { format!("{}/no-such-dir", dir.path().display()) };
    let sys = CString::new(sys).unwrap();
    let upath = if user == "M" {
        format!("{}/:memory:", dir.path().display())
    } else {
        format!("{}/chewing.dat", dir.path().display())
    };
    let upath = CString::new(upath).unwrap();
    if let Some(ids) = user.strip_prefix('F') {
        let ids: Vec<usize> = ids.split('.').filter_map(|s| s.parse().ok()).collect();
        prepare_user_file(&sys, &upath, &ids);
    }
    eprintln!("@@ {} new", hid);
    let ctx = chewing_new2(sys.as_ptr(), upath.as_ptr(), None, std::ptr::null_mut());
    if ctx.is_null() {
        println!("X 0 setup chewing_new2 returned NULL");
        println!("E {} mismatch=0 calls=", hid);
        return;
    }
    chewing_set_logger(ctx, None, std::ptr::null_mut());
    let mut w = Worker {
        ctx,
        ctx_lo: ctx as usize,
        ctx_hi: ctx as usize + std::mem::size_of::<ChewingContext>(),
        empty_ptr: chewing_cand_String_static(std::ptr::null_mut()) as usize,
        step: 0,
        heap: Vec::new(),
        up_snap: None,
        up_pos: 0,
        cand_snap: None,
        cand_pos: 0,
        int_snap: None,
        int_pos: 0,
        kb_names: Vec::new(),
        kb_pos: None,
        last_uh: None,
        calls: Vec::new(),
        gets: BTreeSet::new(),
        problems: Vec::new(),
        static_pointer: 0,
        strict: fam == "S",
    };
    // keyboard-type names (heap variant), once
    chewing_kbtype_Enumerate(ctx);
    while chewing_kbtype_hasNext(ctx) == 1 && w.kb_names.len() < 100 {
        let p = chewing_kbtype_String(ctx);
        w.kb_names.push(CStr::from_ptr(p).to_bytes().to_vec());
        chewing_free(p.cast());
    }
    chewing_kbtype_hasNext(ctx);
    let mismatch0 = MISMATCH.load(SeqCst);
    for (i, op) in ops.split(',').filter(|s| !s.is_empty()).enumerate() {
        w.step = i;
        eprintln!("@@ {} {} {}", hid, i, op);
        println!("B {} {}", i, op);
        let r = w.exec(op);
        eprintln!("@@ {} {} observe", hid, i);
        println!("O {} {} {}", i, op, r);
        w.observe();
        for p in w.problems.drain(..) {
            println!("X {} {}", i, p);
        }
    }
    // every heap result still held can be released with the library's free function
    eprintln!("@@ {} end free", hid);
    for i in 0..w.heap.len() {
        if !w.heap[i].freed && w.heap[i].addr != 0 {
            let before = MISMATCH.load(SeqCst);
            chewing_free(w.heap[i].addr as *mut c_void);
            if MISMATCH.load(SeqCst) != before {
                println!("X {} free-layout chewing_free of heap result #{} deallocates with a different layout", w.step, i);
            }
            w.heap[i].freed = true;
            let a = w.heap[i].addr.to_string();
            w.tok("chewing_free", &a, "");
        }
    }
    eprintln!("@@ {} end delete", hid);
    chewing_delete(ctx);
    eprintln!("@@ {} end done", hid);
    for g in &w.gets {
        println!("R {}", g);
    }
    let mm = MISMATCH.load(SeqCst) - mismatch0;
    let fm: Vec<usize> = FIRST_MISMATCH.iter().map(|a| a.load(SeqCst)).collect();
    println!("E {} mismatch={} first={}/{}->{}/{} calls={}", hid, mm, fm[0], fm[1], fm[2], fm[3], w.calls.join(","));
}

fn worker_main(file: &str) {
    let text = std::fs::read_to_string(file).expect("history file");
    TRACK.store(true, SeqCst);
    for line in text.lines() {
        if line.trim().is_empty() {
            continue;
        }
        unsafe { run_history(line) };
        std::io::stdout().flush().unwrap();
    }
    TRACK.store(false, SeqCst);
    println!("DONE");
}

// ------------------------------------------------------------------------------------------------
// parent: generation
// ------------------------------------------------------------------------------------------------

const SYLL_KEYS: [&str; 6] = ["hk4", "g4", "hk4g4", "hk4g4hk4", "xu;", "5j/"];

/// ops whose exported function the translator classifies as possibly mutating the user dictionary
fn is_mutating(op: &str) -> bool {
    let n = op.split(':').next().unwrap();
    matches!(n, "k" | "key" | "cn" | "ua" | "ur" | "ci" | "commit")
}

fn gen_ops(rng: &mut Rng, disciplined: bool, len: usize) -> Vec<String> {
    let mut ops: Vec<String> = Vec::new();
    let mut stale = true; // no enumeration yet
    while ops.len() < len {
        let w = rng.weighted(&[14, 8, 6, 10, 10, 10, 5, 4, 8, 8, 8, 8, 6, 5, 6, 5, 4, 3, 3, 3]);
        let mut new: Vec<String> = Vec::new();
        match w {
            0 => {
                for ch in rng.pick(&SYLL_KEYS).bytes() {
                    new.push(format!("k:{}", ch));
                }
            }
            1 => new.push(format!("key:{}", rng.below(KEY_NAMES.len() as u64))),
            2 => new.push("key:2".into()),
            3 => new.push("ue".into()),
            4 => new.push("uh".into()),
            5 => new.push("ug".into()),
            6 => new.push(format!("{}:{}", rng.pick(&["ua", "ua", "ur", "ul"]), rng.below(POOL.len() as u64))),
            7 => {
                new.push("key:9".into()); // Down: open the candidate list
                new.push("ce".into());
            }
            8 => new.push((*rng.pick(&["ce", "ch", "cs", "ct", "ct", "ch"])).to_string()),
            9 => new.push((*rng.pick(&["ie", "ih", "ig", "ig"])).to_string()),
            10 => new.push((*rng.pick(&["ke", "kh", "ks", "kt", "kt"])).to_string()),
            11 => new.push(match rng.below(8) {
                0 => "co".to_string(),
                1 => "cc".to_string(),
                2 => format!("ci:{}", rng.below(4)),
                3 => format!("cx:{}", rng.below(6)),
                4 => "clf".to_string(),
                5 => "cll".to_string(),
                6 => "cln".to_string(),
                _ => "clp".to_string(),
            }),
            12 => match rng.below(7) {
                0 => new.push(format!("kb:{}", rng.below(19))),
                1 => new.push(format!("kbs:{}", rng.below(17))),
                2 => new.push(format!("selk:{}", rng.below(3))),
                3 | 4 => {
                    // legacy int setters with codes outside ASCII (0x80..=0xFF, 0, beyond a byte, negative), then the
                    // string getter of the named option (and now and then the raw keys, the other string option)
                    new.push(format!("{}:{}", rng.pick(&["ssk", "ssk", "conf"]), rng.below(SELKEY_ARRAYS.len() as u64)));
                    new.push("cgs:1".into());
                    if rng.chance(1, 3) {
                        new.push((*rng.pick(&["gsk", "cgs:0", "hs:0"])).to_string());
                    }
                }
                _ => {
                    let ix = rng.below(INT_OPTIONS.len() as u64);
                    let v = if ix == 3 { rng.range(1, 10) } else if ix == 7 { rng.range(0, 39) } else { rng.range(0, 2) };
                    new.push(format!("cfg:{}:{}", ix, v));
                }
            },
            13 => new.push((*rng.pick(&["reset", "ack", "commit", "clean", "cleanb", "dt", "cn:1"])).to_string()),
            14 => new.push(match rng.below(5) {
                4 => {
                    let (a, b) = (rng.below(65536), rng.below(65536));
                    format!("p2b:{}:{}", *rng.pick(&[a, b, 0x2004, 0x0208, 0, 0xFFFF]), rng.below(20))
                }
                0 => {
                    // every other time over a buffer that certainly mixes syllables with a non-syllable (hk4 then ','):
                    // the phone sequence holds the syllables only, so its announced length must too
                    if rng.chance(1, 2) { "k:104,k:107,k:52,k:44,ps".to_string() } else { "ps".to_string() }
                }
                1 => format!("hs:{}", rng.below(6)),
                2 => "gsk".to_string(),
                _ => format!("cgs:{}", rng.below(2)),
            }),
            15 => {
                new.push(format!("fr:{}", rng.below(8)));
                if rng.chance(1, 3) {
                    new.push(format!("frs:{}", rng.below(8)));
                }
            }
            16 => new.push("fru".into()),
            17 => {
                // walk the whole keyboard-type enumeration, mixing the two getter variants
                new.push("ke".into());
                // now and then far beyond the end (the u8 counter of the earlier code overflowed at the 256th read)
                let reads = if rng.chance(1, 12) { 258 + rng.below(40) } else { 10 + rng.below(10) };
                for _ in 0..reads {
                    if rng.chance(1, 2) {
                        new.push("kh".into());
                    }
                    new.push((*rng.pick(&["kt", "kt", "ks"])).to_string());
                }
            }
            18 => {
                // walk the user-phrase enumeration to its end (and one step beyond)
                new.push("ue".into());
                for _ in 0..(1 + rng.below(6)) {
                    new.push("uh".into());
                    new.push("ug".into());
                }
            }
            _ => {
                // open the candidate list and walk one page, twice (the second enumeration restarts it)
                for ch in "hk4".bytes() {
                    new.push(format!("k:{}", ch));
                }
                new.push("key:9".into());
                new.push("ce".into());
                for _ in 0..(1 + rng.below(4)) {
                    new.push((*rng.pick(&["ct", "cs", "ch"])).to_string());
                }
                new.push("ce".into());
                for _ in 0..(1 + rng.below(4)) {
                    new.push((*rng.pick(&["ct", "cs", "ch"])).to_string());
                }
            }
        }
        for op in new {
            if disciplined && (op == "uh" || op == "ug") && stale {
                ops.push("ue".into());
                stale = false;
            }
            if op == "ue" {
                stale = false;
            } else if is_mutating(&op) {
                stale = true;
            }
            ops.push(op);
        }
    }
    ops
}

fn gen_setup(rng: &mut Rng) -> (String, String) {
    let dict = if rng.chance(3, 4) { "T" } else { "B" };
    let user = if rng.chance(1, 3) {
        "M".to_string()
    } else {
        let n = rng.below(5);
        let ids: Vec<String> = (0..n).map(|_| rng.below(POOL.len() as u64).to_string()).collect();
        format!("F{}", ids.join("."))
    };
    (dict.to_string(), user)
}

/// the former witnesses of F22 (use of the borrowed user-phrase iterator after a mutation; repaired by `fix:
/// chewing_userphrase_enumerate takes a snapshot …`) and their twins: every one of them must now be clean under
/// memcheck and satisfy the strict snapshot oracles — a recurrence is reported as `new`.  (name, user file, ops)
fn witness_corpus() -> Vec<(&'static str, &'static str, &'static str)> {
    let learn = "k:104,k:107,k:52,k:103,k:52,key:2"; // hk4 g4 Enter: commits 測試 => auto-learn => reload of the Trie
    vec![
        // enumerate, get, learning key sequence (first reload of the session replaces the Trie), get
        ("w-f22-get", "F0.3.4", "ue,ug,LEARN,ug"),
        // has_next caches an owned entry: the get after the mutation is served from the cache, the next one is not
        ("w-f22-cached", "F0.3.4", "ue,uh,LEARN,ug,ug"),
        ("w-f22-hasnext", "F0.3.4", "ue,ug,LEARN,uh"),
        // the other ways to replace the storage under a pending enumeration: add / remove (+ a key: reload), drained to the end
        ("w-f22-add", "F0.3.4", "ue,ug,ua:5,ua:6,k:104,uh,ug,uh,ug,uh,ug,uh"),
        ("w-f22-remove", "F0.3.4", "ue,uh,ur:0,ur:3,k:104,ug,uh,ug,uh,ug,uh,ug"),
        ("w-f22-memory", "M", "ua:1,ua:2,ua:3,ue,ug,ua:4,ur:1,ur:2,ur:3,ug,uh,ug,uh,ug"),
        // clean twins: the mutation happens before the enumeration / the enumeration is restarted after it
        ("w-clean-before", "F0.3.4", "LEARN,ue,ug,uh,ug,uh,ug,uh,ug,uh"),
        ("w-clean-restart", "F0.3.4", "ue,ug,LEARN,ue,uh,ug,uh,ug,uh,ug,uh,ug,uh"),
        ("w-clean-cached-only", "F0.3.4", "ue,uh,LEARN,ug,ue,ug"),
        // has_next = 0 drops the exhausted iterator: later calls touch nothing even after a mutation
        ("w-clean-exhausted", "F0.3.4", "ue,uh,ug,uh,ug,uh,ug,uh,LEARN,ug,ug,uh,ug"),
    ]
    .into_iter()
    .map(|(a, b, c)| (a, b, Box::leak(c.replace("LEARN", learn).into_boxed_str()) as &'static str))
    .collect()
}

// ------------------------------------------------------------------------------------------------
// parent: running workers
// ------------------------------------------------------------------------------------------------

#[derive(Default, Clone)]
struct HistResult {
    started: bool,
    ended: bool,
    problems: Vec<String>,
    records: Vec<String>,
    calls: String,
    mismatch: u64,
    first: String,
    last_op: String,
    mem_errors: Vec<String>, // memcheck: "<step> <kind>"
}

fn parse_stdout(text: &str, res: &mut BTreeMap<String, HistResult>) {
    let mut cur = String::new();
    for line in text.lines() {
        if let Some(h) = line.strip_prefix("H ") {
            cur = h.to_string();
            res.entry(cur.clone()).or_default().started = true;
        } else if let Some(x) = line.strip_prefix("X ") {
            res.entry(cur.clone()).or_default().problems.push(x.to_string());
        } else if let Some(r) = line.strip_prefix("R ") {
            res.entry(cur.clone()).or_default().records.push(r.to_string());
        } else if let Some(b) = line.strip_prefix("B ") {
            res.entry(cur.clone()).or_default().last_op = b.to_string();
        } else if let Some(e) = line.strip_prefix("E ") {
            let r = res.entry(cur.clone()).or_default();
            r.ended = true;
            for part in e.split(' ') {
                if let Some(v) = part.strip_prefix("mismatch=") {
                    r.mismatch = v.parse().unwrap_or(0);
                } else if let Some(v) = part.strip_prefix("first=") {
                    r.first = v.to_string();
                } else if let Some(v) = part.strip_prefix("calls=") {
                    r.calls = v.to_string();
                }
            }
        }
    }
}

/// attribute every memcheck error to the history/step announced by the last `@@` marker before it
fn parse_memcheck(stderr: &str, res: &mut BTreeMap<String, HistResult>) {
    let mut cur: Option<(String, String)> = None;
    for line in stderr.lines() {
        if let Some(m) = line.strip_prefix("@@ ") {
            let mut it = m.splitn(2, ' ');
            let hid = it.next().unwrap_or("").to_string();
            let rest = it.next().unwrap_or("").to_string();
            cur = Some((hid, rest));
        } else if line.starts_with("==") {
            let body = line.splitn(3, "==").nth(2).unwrap_or("").trim();
            let kind = if body.starts_with("Invalid read") {
                "invalid-read"
            } else if body.starts_with("Invalid write") {
                "invalid-write"
            } else if body.starts_with("Invalid free") || body.starts_with("Mismatched free") {
                "invalid-free"
            } else if body.starts_with("Conditional jump or move depends on uninitialised")
                || body.starts_with("Use of uninitialised")
                || body.starts_with("Syscall param")
            {
                "uninitialised"
            } else if body.starts_with("Process terminating") {
                "terminated"
            } else if body.starts_with("Source and destination overlap") {
                "overlap"
            } else {
                ""
            };
            if !kind.is_empty() {
                if let Some((hid, at)) = &cur {
                    res.entry(hid.clone()).or_default().mem_errors.push(format!("{} @{}", kind, at));
                }
            }
        }
    }
}

struct RunOut {
    results: BTreeMap<String, HistResult>,
    stderr_tail: String,
    status: String,
}

fn run_worker(lines: &[String], valgrind: bool) -> RunOut {
    let dir = tempfile::tempdir().unwrap();
    let file = dir.path().join("histories.txt");
    std::fs::write(&file, lines.join("\n") + "\n").unwrap();
    let exe = std::env::current_exe().unwrap();
    let mut cmd = if valgrind {
        let mut c = Command::new("valgrind");
        c.args(["--tool=memcheck", "--leak-check=no", "--num-callers=6", "--error-limit=no", "--undef-value-errors=yes"]);
        c.arg(&exe);
        c
    } else {
        Command::new(&exe)
    };
    cmd.arg("--worker").arg(&file);
    cmd.env("RUST_BACKTRACE", "0");
    let out = cmd.output().expect("spawn worker");
    let stdout = String::from_utf8_lossy(&out.stdout).to_string();
    let stderr = String::from_utf8_lossy(&out.stderr).to_string();
    let mut results = BTreeMap::new();
    parse_stdout(&stdout, &mut results);
    if valgrind {
        parse_memcheck(&stderr, &mut results);
    }
    let tail: Vec<&str> = stderr.lines().filter(|l| !l.starts_with("@@ ") && !l.contains("[ERROR chewing_capi::io]")).collect();
    let tail = tail[tail.len().saturating_sub(12)..].join(" | ");
    RunOut { results, stderr_tail: tail, status: format!("{:?}", out.status) }
}

/// runs the histories in worker processes; a worker that dies is restarted after the culprit
fn run_all(lines: &[String], valgrind: bool, per_process: usize) -> (BTreeMap<String, HistResult>, Vec<(String, String, String)>) {
    let mut all = BTreeMap::new();
    let mut crashes = Vec::new();
    let mut i = 0;
    while i < lines.len() {
        let end = (i + per_process).min(lines.len());
        let out = run_worker(&lines[i..end], valgrind);
        let mut advanced = i;
        for l in &lines[i..end] {
            let hid = l.split(' ').next().unwrap().to_string();
            match out.results.get(&hid) {
                Some(r) if r.ended => {
                    all.insert(hid, r.clone());
                    advanced += 1;
                }
                Some(r) if r.started => {
                    crashes.push((l.clone(), format!("{} after `{}`", out.status, r.last_op), out.stderr_tail.clone()));
                    all.insert(hid, r.clone());
                    advanced += 1;
                    break;
                }
                _ => {
                    // never started: the worker died before (setup) — give up on it
                    crashes.push((l.clone(), format!("{} before the history started", out.status), out.stderr_tail.clone()));
                    advanced += 1;
                    break;
                }
            }
        }
        i = advanced.max(i + 1);
    }
    (all, crashes)
}

// ------------------------------------------------------------------------------------------------
// parent: copy_cstr through the hook, UTF-8 validity
// ------------------------------------------------------------------------------------------------

fn string_corpus(rng: &mut Rng, n_random: usize) -> Vec<String> {
    let atoms = ["a", "Z", "é", "ˋ", "測", "ㄘ", "𠀀", "😀", "\u{7f}", "\u{80}", "\u{7ff}", "\u{800}", "\u{ffff}", "\u{10000}", "\u{10ffff}", " "];
    let mut v: Vec<String> = vec![String::new()];
    for a in atoms {
        v.push(a.to_string());
    }
    for a in atoms {
        for b in atoms {
            v.push(format!("{}{}", a, b));
        }
    }
    // every multi-byte character at every offset 0..4 behind ASCII padding (boundary at each position)
    for a in ["é", "測", "𠀀"] {
        for pad in 0..5 {
            v.push(format!("{}{}{}", "x".repeat(pad), a, a));
            v.push(format!("{}{}y{}", "x".repeat(pad), a, a));
        }
    }
    v.push("測試測試測試測試測試測".to_string());
    v.push("KB_COLEMAK_DH_ANSI".to_string());
    v.push("ㄓㄨㄤˋ".to_string());
    for _ in 0..n_random {
        let n = rng.below(14) as usize;
        let mut s = String::new();
        for _ in 0..n {
            s.push_str(*rng.pick(&atoms));
        }
        v.push(s);
    }
    // long texts around the real capacities
    for n in [84usize, 85, 86, 127, 128] {
        v.push("測".repeat(n));
        v.push(format!("a{}", "測".repeat(n)));
        v.push(format!("ab{}", "𠀀".repeat(n / 2)));
    }
    v
}

fn copy_records(out: &mut Out, rng: &mut Rng, thorough: bool) {
    let corpus = string_corpus(rng, if thorough { 4000 } else { 500 });
    let mut caps: Vec<usize> = (0..=24).collect();
    caps.extend([31, 32, 33, 255, 256, 257, 258, 259, 260]);
    let mut n = 0u64;
    let mut truncated = 0u64;
    let mut violations = 0u64;
    for s in &corpus {
        for &cap in &caps {
            if s.len() + 8 < cap && cap > 40 && !(s.len() > 200) {
                // far-from-boundary huge caps add nothing; keep one representative
                if cap != 256 {
                    continue;
                }
            }
            let mut buf = vec![0xAAu8; cap];
            chewing_capi::verif::verif_copy_cstr(&mut buf, s);
            let (pre, zeros) = split_dump(&buf);
            out.rec(&format!("cstr copy {} {} => b{} {}", cap, hx(s), hexs(&pre), zeros));
            n += 1;
            // the property itself, on the implementation
            if cap >= 1 {
                let nul = buf.iter().position(|b| *b == 0);
                match nul {
                    None => {
                        violations += 1;
                        out.oracle_fail("C15", "new", &format!("nul copy_cstr(cap={}, {}) leaves no NUL terminator: b{}", cap, hx(s), hexs(&buf)));
                    }
                    Some(k) => {
                        let text = &buf[..k];
                        if std::str::from_utf8(text).is_err() {
                            violations += 1;
                            out.oracle_fail("C15", "new", &format!("utf8 copy_cstr(cap={}, {}) text is not valid UTF-8: b{}", cap, hx(s), hexs(text)));
                        } else if s.len() < cap && text != s.as_bytes() && !s.contains('\0') {
                            violations += 1;
                            out.oracle_fail("C15", "new", &format!("same copy_cstr(cap={}, {}) of a text shorter than the buffer gives b{}", cap, hx(s), hexs(text)));
                        } else if text != boundary_prefix(s.as_bytes(), cap - 1) && !s.contains('\0') {
                            violations += 1;
                            out.oracle_fail("C15", "new", &format!("prefix copy_cstr(cap={}, {}) is not the longest whole-character prefix: b{}", cap, hx(s), hexs(text)));
                        }
                        if s.len() >= cap {
                            truncated += 1;
                        }
                    }
                }
            }
        }
    }
    out.stat("copy_records", n);
    out.stat("copy_truncated_cases", truncated);
    out.stat("copy_oracle_violations", violations);
    out.stat("copy_corpus_strings", corpus.len());

    // UTF-8 validity: the model's decoder against std::str::from_utf8 on damaged encodings
    let mut valid = 0u64;
    let mut total = 0u64;
    let rounds = if thorough { 20000 } else { 3000 };
    for i in 0..rounds {
        let base = &corpus[(rng.below(corpus.len() as u64)) as usize];
        let mut b: Vec<u8> = base.as_bytes().to_vec();
        if b.len() > 24 {
            b.truncate(24);
        }
        match i % 5 {
            0 => {}
            1 => {
                if !b.is_empty() {
                    let k = rng.below(b.len() as u64) as usize;
                    b[k] = rng.below(256) as u8;
                }
            }
            2 => {
                let k = rng.below(b.len() as u64 + 1) as usize;
                b.truncate(k);
            }
            3 => {
                let k = rng.below(b.len() as u64 + 1) as usize;
                b.insert(k, *rng.pick(&[0x80u8, 0xBF, 0xC0, 0xC1, 0xC2, 0xE0, 0xED, 0xF0, 0xF4, 0xF5, 0xFF, 0xA0, 0x9F, 0x90, 0x8F]));
            }
            _ => {
                b = (0..rng.below(5) + 1).map(|_| rng.below(256) as u8).collect();
            }
        }
        let ok = std::str::from_utf8(&b).is_ok();
        valid += ok as u64;
        total += 1;
        out.rec(&format!("cstr valid {} => {}", hbytes(&b), ok as u8));
    }
    // all 2-byte sequences with a lead byte ≥ 0xC0 and the surrogate / overlong / range borders, exhaustively
    for b0 in [0xC0u8, 0xC1, 0xC2, 0xDF, 0xE0, 0xE1, 0xEC, 0xED, 0xEE, 0xEF, 0xF0, 0xF1, 0xF3, 0xF4, 0xF5] {
        for b1 in [0x7Fu8, 0x80, 0x8F, 0x90, 0x9F, 0xA0, 0xBF, 0xC0] {
            for tail in [&[][..], &[0x80][..], &[0x80, 0x80][..], &[0xBF, 0xBF][..], &[0x80, 0x7F][..]] {
                let mut b = vec![b0, b1];
                b.extend_from_slice(tail);
                let ok = std::str::from_utf8(&b).is_ok();
                valid += ok as u64;
                total += 1;
                out.rec(&format!("cstr valid {} => {}", hbytes(&b), ok as u8));
            }
        }
    }
    out.stat("utf8_validity_records", total);
    out.stat("utf8_validity_valid", valid);
}

// ------------------------------------------------------------------------------------------------
// parent: main
// ------------------------------------------------------------------------------------------------

fn has_memcheck_error(r: &HistResult) -> bool {
    r.mem_errors.iter().any(|e| e.starts_with("invalid-") || e.starts_with("uninitialised") || e.starts_with("terminated"))
}

fn emit_history(out: &mut Out, line: &str, r: &HistResult, seen_get: &mut BTreeSet<String>, stats: &mut BTreeMap<String, u64>) {
    for rec in &r.records {
        if seen_get.insert(rec.clone()) {
            out.rec(rec);
        }
    }
    if r.ended {
        out.rec(&format!("own run {} => ok", r.calls));
        *stats.entry("own_calls".into()).or_default() += r.calls.split(',').count() as u64;
    }
    for p in &r.problems {
        let class = p.split(' ').nth(1).unwrap_or("new");
        let known = matches!(class, "same-overlong");
        *stats.entry(format!("problem_{}", class)).or_default() += 1;
        out.oracle_fail("C15", if known { class } else { "new" }, &format!("{} history=[{}]", p, line));
    }
    if r.mismatch > 0 && !r.problems.iter().any(|p| p.starts_with("free-layout")) {
        out.oracle_fail("C15", "new", &format!("free-layout {} deallocation(s) with a layout different from the allocation's (first: size/align {}) history=[{}]", r.mismatch, r.first, line));
    }
}

fn parent_main() {
    let seed = seed_from_env();
    let thorough = tier_is_thorough();
    let mut rng = Rng::new(seed);
    let mut out = Out::new();
    out.stat("seed", seed);

    // ---- 1. copy_cstr through the hook + UTF-8 validity
    copy_records(&mut out, &mut rng, thorough);
    out.flush();

    // ---- 2. native histories (the model predicts no use of an invalid object for ANY call order)
    let n_native = if thorough { 3000 } else { 260 };
    let mut lines = Vec::new();
    for i in 0..n_native {
        let (dict, user) = gen_setup(&mut rng);
        let len = 20 + rng.below(50) as usize;
        // every second history without the protocol discipline: mutations between enumerate and has_next/get (the
        // enumeration is a snapshot: the strict oracles hold for every call order)
        let ops = gen_ops(&mut rng, i % 2 == 0, len);
        lines.push(format!("n{} S {} {} {}", i, dict, user, ops.join(",")));
    }
    // the former F22 witnesses and their twins also run natively with the strict oracles
    for (name, user, ops) in witness_corpus() {
        lines.push(format!("{} S T {} {}", name, user, ops));
    }
    // F35: a pre-edit longer than its buffer (word-less syllables shown as their spelling after an engine change)
    {
        let mut ops: Vec<String> = vec![format!("cfgx:{}:2", IX_ENGINE)];
        for _ in 0..39 {
            for ch in "xu;".bytes() {
                ops.push(format!("k:{}", ch));
            }
        }
        ops.push("k:120".into());
        ops.push(format!("cfgx:{}:0", IX_ENGINE));
        ops.push("hs:1".into());
        lines.push(format!("w-f35 S B M {}", ops.join(",")));
    }
    // selection keys that are not ASCII codes (legacy int setters) followed by the string getters: every array of the pool
    {
        let mut ops: Vec<String> = Vec::new();
        for i in 0..SELKEY_ARRAYS.len() {
            ops.push(format!("{}:{}", if i % 3 == 2 { "conf" } else { "ssk" }, i));
            ops.push("cgs:1".into());
            ops.push("cgs:0".into());
        }
        ops.push("gsk".into());
        ops.push("selk:1".into());
        ops.push("cgs:1".into());
        lines.push(format!("w-selkeys S B M {}", ops.join(",")));
    }
    let (results, crashes) = run_all(&lines, false, 40);
    let mut seen_get = BTreeSet::new();
    let mut stats: BTreeMap<String, u64> = BTreeMap::new();
    let mut ended = 0u64;
    for l in &lines {
        let hid = l.split(' ').next().unwrap();
        if let Some(r) = results.get(hid) {
            ended += r.ended as u64;
            emit_history(&mut out, l, r, &mut seen_get, &mut stats);
        }
    }
    let mut panics = 0u64;
    for (l, status, tail) in &crashes {
        if tail.contains("panicked at") {
            panics += 1; // a Rust panic inside an extern "C" function: C01's subject, not a memory-safety violation
            out.sample(&format!("panic-abort {} {} history=[{}]", status, tail.chars().take(300).collect::<String>(), l));
        } else {
            out.oracle_fail("C15", "new", &format!("crash worker died ({}) stderr=[{}] history=[{}]", status, tail.chars().take(400).collect::<String>(), l));
        }
    }
    out.stat("native_histories", lines.len());
    out.stat("native_histories_completed", ended);
    out.stat("native_panic_aborts", panics);
    out.stat("native_crashes_other", crashes.len() as u64 - panics);
    out.stat("get_records_distinct", seen_get.len());
    for (k, v) in &stats {
        out.stat(k, v);
    }
    out.flush();

    // ---- 3. memcheck: exact corpus (former witnesses of F22 + twins), random histories, mutations inside the enumeration
    if std::env::var("VERIF_NO_VALGRIND").is_err() {
        let mut mem_lines: Vec<String> = Vec::new();
        let corpus = witness_corpus();
        // one process per witness (a real use-after-free may take the process down)
        let mut exact_ub = 0u64;
        let mut exact_clean = 0u64;
        for (name, user, ops) in &corpus {
            let l = format!("{} S T {} {}", name, user, ops);
            let o = run_worker(&[l.clone()], true);
            let r = o.results.get(*name).cloned().unwrap_or_default();
            let ub = has_memcheck_error(&r) || !r.ended;
            if r.ended || ub {
                // when the process died, the calls made so far are not reported: rebuild nothing, use the verdict only if ended
                if r.ended {
                    out.rec(&format!("own mem {} => {}", r.calls, if ub { "ub" } else { "clean" }));
                }
            }
            if ub {
                exact_ub += 1;
                out.oracle_fail("C15", "new", &format!("memcheck {} in a history the ownership model calls safe ({}) history=[{}]",
                    r.mem_errors.first().cloned().unwrap_or_else(|| "worker died".into()),
                    if name.starts_with("w-f22") { "recurrence of F22: the stored user-phrase iterator is used after the dictionary changed" } else { "twin" }, l));
            } else {
                exact_clean += 1;
            }
            for p in &r.problems {
                out.oracle_fail("C15", "new", &format!("{} (under memcheck) history=[{}]", p, l));
            }
        }
        out.stat("memcheck_exact_ub", exact_ub);
        out.stat("memcheck_exact_clean", exact_clean);

        // random histories under memcheck (every second one without the protocol discipline): must be clean
        let n_disc = if thorough { 300 } else { 60 };
        for i in 0..n_disc {
            let (dict, user) = gen_setup(&mut rng);
            let len = 12 + rng.below(30) as usize;
            let ops = gen_ops(&mut rng, i % 2 == 0, len);
            mem_lines.push(format!("m{} S {} {} {}", i, dict, user, ops.join(",")));
        }
        let (mres, mcrashes) = run_all(&mem_lines, true, if thorough { 30 } else { 30 });
        let mut clean = 0u64;
        for l in &mem_lines {
            let hid = l.split(' ').next().unwrap();
            if let Some(r) = mres.get(hid) {
                if r.ended {
                    let ub = has_memcheck_error(r);
                    out.rec(&format!("own mem {} => {}", r.calls, if ub { "ub" } else { "clean" }));
                    if ub {
                        out.oracle_fail("C15", "new", &format!("memcheck {} in a history the ownership model calls safe history=[{}]", r.mem_errors[0], l));
                    } else {
                        clean += 1;
                    }
                    for p in &r.problems {
                        let class = p.split(' ').nth(1).unwrap_or("new");
                        out.oracle_fail("C15", if class == "same-overlong" { class } else { "new" }, &format!("{} (under memcheck) history=[{}]", p, l));
                    }
                }
            }
        }
        for (l, status, tail) in &mcrashes {
            if tail.contains("panicked at") {
                out.sample(&format!("panic-abort under memcheck {} history=[{}]", status, l));
            } else {
                out.oracle_fail("C15", "new", &format!("crash worker died under memcheck ({}) stderr=[{}] history=[{}]", status, tail.chars().take(400).collect::<String>(), l));
            }
        }
        out.stat("memcheck_random_histories", mem_lines.len());
        out.stat("memcheck_random_clean", clean);

        // mutations inside the user-phrase enumeration (thorough; the shape of the former finding F22): the model predicts
        // no use of an invalid object, so any memcheck error is a violation
        if thorough {
            let mut predicted_seen = 0u64;
            let mut total = 0u64;
            for i in 0..150 {
                let (_, user) = gen_setup(&mut rng);
                let len = 10 + rng.below(25) as usize;
                #[allow(unused_assignments)]
                let mut ops = gen_ops(&mut rng, false, len);
                let mut user = user;
                if i % 2 == 0 {
                    // structured shape: part of an enumeration, a mutation of some kind, the rest of the enumeration
                    user = if rng.chance(1, 4) { "M".to_string() } else { format!("F{}.{}.{}", rng.below(12), rng.below(12), rng.below(12)) };
                    ops = vec!["ue".to_string()];
                    for _ in 0..rng.below(3) {
                        ops.push((*rng.pick(&["uh", "ug"])).to_string());
                    }
                    match rng.below(4) {
                        0 => ops.extend("k:104,k:107,k:52,k:103,k:52,key:2".split(',').map(String::from)),
                        1 => {
                            ops.push(format!("ua:{}", rng.below(12)));
                            ops.push("k:104".into());
                        }
                        2 => {
                            ops.push(format!("ur:{}", rng.below(12)));
                            ops.push("k:104".into());
                        }
                        _ => {
                            for _ in 0..(1 + rng.below(3)) {
                                ops.push(format!("ua:{}", rng.below(12)));
                            }
                        }
                    }
                    for _ in 0..(1 + rng.below(4)) {
                        ops.push((*rng.pick(&["uh", "ug", "ug"])).to_string());
                    }
                }
                let l = format!("u{} S T {} {}", i, user, ops.join(","));
                let o = run_worker(&[l.clone()], true);
                if let Some(r) = o.results.get(&format!("u{}", i)) {
                    if r.ended {
                        let ub = has_memcheck_error(r);
                        total += 1;
                        predicted_seen += ub as u64;
                        out.rec(&format!("own memsub {} {} => ok", if ub { "ub" } else { "clean" }, r.calls));
                        if ub {
                            out.oracle_fail("C15", "new", &format!("memcheck {} in a history the ownership model calls safe history=[{}]", r.mem_errors[0], l));
                        }
                        for p in &r.problems {
                            let class = p.split(' ').nth(1).unwrap_or("new");
                            out.oracle_fail("C15", if class == "same-overlong" { class } else { "new" }, &format!("{} (under memcheck) history=[{}]", p, l));
                        }
                    } else {
                        out.oracle_fail("C15", "new", &format!("crash worker died under memcheck history=[{}]", l));
                    }
                }
            }
            out.stat("memcheck_mutation_inside_enumeration_histories", total);
            out.stat("memcheck_mutation_inside_enumeration_with_errors", predicted_seen);
        }
    } else {
        out.stat("memcheck_skipped", 1);
    }
    out.flush();
}

fn main() {
    let args: Vec<String> = std::env::args().collect();
    if args.len() >= 3 && args[1] == "--worker" {
        worker_main(&args[2]);
    } else {
        parent_main();
    }
}
