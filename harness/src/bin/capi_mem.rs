//! C15 harness: memory safety of the C API under any call order + well-formedness of its strings.
//!
//! Parent mode (no arguments): generates seeded C-API histories (enumerate/has_next/get protocols of the four
//! iterators interrupted at every step by mutating calls), runs them in child processes (`--worker`), natively and —
//! a subset — under valgrind memcheck, evaluates the C15 oracles and prints transcript records for the Lean model:
//!
//!   cstr copy <cap> x<text> => b<non-zero prefix> <number of trailing zero bytes> | panic     (hook verif_copy_cstr)
//!   cstr get <which> <cap> x<heap variant text> => b<prefix> <zeros>                           (context buffers)
//!   own run <calls> => <return values>         (ghost model of iterators + OWNED registry: protocol results)
//!   own mem <calls> => clean | ub@<index>      (the same history under memcheck + the layout-checking allocator)
//!
//! Worker mode: executes the histories of a file through the real C API; a panic inside an `extern "C"` function
//! aborts the process, the parent notices the missing end marker and restarts after the culprit.
#![allow(deprecated)]
#![allow(static_mut_refs)]

use std::alloc::{GlobalAlloc, Layout, System};
use std::collections::{BTreeMap, BTreeSet};
use std::ffi::{c_char, c_int, c_uint, c_void, CStr, CString};
use std::io::Write;
use std::process::Command;
use std::sync::atomic::{AtomicBool, AtomicUsize, Ordering::SeqCst};
use std::sync::Mutex;

use chewing_capi::candidates::*;
use chewing_capi::globals::*;
use chewing_capi::input::*;
use chewing_capi::layout::*;
use chewing_capi::output::*;
use chewing_capi::setup::*;
use chewing_capi::userphrase::*;
use vharness::*;

// ------------------------------------------------------------------------------------------------
// Layout-checking allocator (worker only): remembers the Layout of every live block and compares it
// with the Layout passed to dealloc/realloc.  glibc's free() ignores the size, valgrind does too; the
// GlobalAlloc contract does not (F23: chewing_free rebuilt a Vec<c_void> from a Box<[u16]>).
// ------------------------------------------------------------------------------------------------
const SLOTS: usize = 1 << 18;
static mut KEYS: [usize; SLOTS] = [0; SLOTS];
static mut VALS: [usize; SLOTS] = [0; SLOTS];
static TRACK: AtomicBool = AtomicBool::new(false);
static LOCK: AtomicBool = AtomicBool::new(false);
static LIVE: AtomicUsize = AtomicUsize::new(0);
static MISMATCH: AtomicUsize = AtomicUsize::new(0);
static FIRST_MISMATCH: [AtomicUsize; 4] = [AtomicUsize::new(0), AtomicUsize::new(0), AtomicUsize::new(0), AtomicUsize::new(0)];

struct CheckAlloc;

fn slot_of(p: usize) -> usize {
    ((p >> 3).wrapping_mul(0x9E37_79B9_7F4A_7C15)) >> (64 - 18)
}
fn lock() {
    while LOCK.compare_exchange_weak(false, true, SeqCst, SeqCst).is_err() {
        std::hint::spin_loop();
    }
}
fn unlock() {
    LOCK.store(false, SeqCst);
}
unsafe fn tab_insert(p: usize, v: usize) {
    if LIVE.load(SeqCst) > SLOTS / 2 {
        return;
    }
    let mut i = slot_of(p);
    while KEYS[i] != 0 {
        if KEYS[i] == p {
            VALS[i] = v;
            return;
        }
        i = (i + 1) & (SLOTS - 1);
    }
    KEYS[i] = p;
    VALS[i] = v;
    LIVE.fetch_add(1, SeqCst);
}
unsafe fn tab_remove(p: usize) -> Option<usize> {
    let mut i = slot_of(p);
    loop {
        if KEYS[i] == 0 {
            return None;
        }
        if KEYS[i] == p {
            break;
        }
        i = (i + 1) & (SLOTS - 1);
    }
    let v = VALS[i];
    // backward-shift deletion
    let mut j = i;
    loop {
        j = (j + 1) & (SLOTS - 1);
        if KEYS[j] == 0 {
            break;
        }
        let k = slot_of(KEYS[j]);
        let stay = if i <= j { i < k && k <= j } else { i < k || k <= j };
        if stay {
            continue;
        }
        KEYS[i] = KEYS[j];
        VALS[i] = VALS[j];
        i = j;
    }
    KEYS[i] = 0;
    LIVE.fetch_sub(1, SeqCst);
    Some(v)
}
fn enc(l: Layout) -> usize {
    (l.size() << 6) | (l.align().trailing_zeros() as usize)
}
unsafe fn check_out(p: *mut u8, l: Layout) {
    lock();
    let r = tab_remove(p as usize);
    unlock();
    if let Some(v) = r {
        if v != enc(l) {
            if MISMATCH.fetch_add(1, SeqCst) == 0 {
                FIRST_MISMATCH[0].store(v >> 6, SeqCst);
                FIRST_MISMATCH[1].store(1 << (v & 63), SeqCst);
                FIRST_MISMATCH[2].store(l.size(), SeqCst);
                FIRST_MISMATCH[3].store(l.align(), SeqCst);
            }
        }
    }
}
unsafe impl GlobalAlloc for CheckAlloc {
    unsafe fn alloc(&self, l: Layout) -> *mut u8 {
        let p = System.alloc(l);
        if TRACK.load(SeqCst) && !p.is_null() {
            lock();
            tab_insert(p as usize, enc(l));
            unlock();
        }
        p
    }
    unsafe fn alloc_zeroed(&self, l: Layout) -> *mut u8 {
        let p = System.alloc_zeroed(l);
        if TRACK.load(SeqCst) && !p.is_null() {
            lock();
            tab_insert(p as usize, enc(l));
            unlock();
        }
        p
    }
    unsafe fn dealloc(&self, p: *mut u8, l: Layout) {
        if TRACK.load(SeqCst) {
            check_out(p, l);
        }
        System.dealloc(p, l)
    }
    unsafe fn realloc(&self, p: *mut u8, l: Layout, new_size: usize) -> *mut u8 {
        if TRACK.load(SeqCst) {
            check_out(p, l);
        }
        let q = System.realloc(p, l, new_size);
        if TRACK.load(SeqCst) && !q.is_null() {
            lock();
            tab_insert(q as usize, enc(Layout::from_size_align_unchecked(new_size, l.align())));
            unlock();
        }
        q
    }
}

#[global_allocator]
static GLOBAL: CheckAlloc = CheckAlloc;

// ------------------------------------------------------------------------------------------------
// shared tables (parent generates indices, worker resolves them)
// ------------------------------------------------------------------------------------------------

/// reviewed capacities of the context buffers (public.rs); the translator regenerates them into
/// Gen/CApi.lean and Props/C15 proves they are these values, the model recomputes every dump with its own.
const CAP_COMMIT: usize = 256;
const CAP_PREEDIT: usize = 256;
const CAP_BOPOMOFO: usize = 16;
const CAP_CAND: usize = 256;
const CAP_AUX: usize = 256;
const CAP_KBTYPE: usize = 32;

/// user phrases the histories add / remove / look up.  Every syllable used has words in both system
/// dictionaries, so removing a user phrase never produces the word-less-syllable state of F02/F03 (C01).
const POOL: [(&str, &str); 12] = [
    ("測", "ㄘㄜˋ"),
    ("冊", "ㄘㄜˋ"),
    ("策", "ㄘㄜˋ"),
    ("試", "ㄕˋ"),
    ("測試", "ㄘㄜˋ ㄕˋ"),
    ("策士", "ㄘㄜˋ ㄕˋ"),
    ("𠀀", "ㄘㄜˋ"),
    ("é", "ㄕˋ"),
    ("a", "ㄕˋ"),
    ("𠀀é測a", "ㄘㄜˋ ㄕˋ ㄘㄜˋ ㄕˋ"),
    ("測試測試測試測試測試測", "ㄘㄜˋ ㄕˋ ㄘㄜˋ ㄕˋ ㄘㄜˋ ㄕˋ ㄘㄜˋ ㄕˋ ㄘㄜˋ ㄕˋ ㄘㄜˋ"),
    ("世", "ㄕˋ"),
];

const INT_OPTIONS: [&str; 14] = [
    "chewing.user_phrase_add_direction",
    "chewing.disable_auto_learn_phrase",
    "chewing.auto_shift_cursor",
    "chewing.candidates_per_page",
    "chewing.language_mode",
    "chewing.easy_symbol_input",
    "chewing.esc_clear_all_buffer",
    "chewing.auto_commit_threshold",
    "chewing.phrase_choice_rearward",
    "chewing.character_form",
    "chewing.space_is_select_key",
    "chewing.conversion_engine",
    "chewing.enable_fullwidth_toggle_key",
    "chewing.no_such_option",
];
const IX_ENGINE: usize = 11;

const SELKEYS: [&str; 3] = ["1234567890", "asdfghjkl;", "aoeuhtnsid"];

const KEY_NAMES: [&str; 19] = [
    "Space", "Esc", "Enter", "Del", "Backspace", "Tab", "Left", "Right", "Up", "Down", "Home", "End", "PageUp",
    "PageDown", "ShiftLeft", "ShiftRight", "ShiftSpace", "Capslock", "DblTab",
];

// ------------------------------------------------------------------------------------------------
// worker
// ------------------------------------------------------------------------------------------------

struct Heap {
    addr: usize,
    freed: bool,
}

struct Worker {
    ctx: *mut ChewingContext,
    step: usize,
    heap: Vec<Heap>,
    up_snap: Option<Vec<(Vec<u8>, Vec<u8>)>>,
    up_pos: usize,
    cand_snap: Option<Vec<Vec<u8>>>,
    cand_pos: usize,
    int_snap: Option<Vec<(i32, i32)>>,
    int_pos: usize,
    kb_names: Vec<Vec<u8>>,
    kb_pos: Option<usize>,
    last_uh: Option<(u32, u32)>,
    calls: Vec<String>,
    rets: Vec<String>,
    gets: BTreeSet<String>,
    problems: Vec<String>,
    static_pointer: u8,
}

fn hexs(b: &[u8]) -> String {
    let mut s = String::with_capacity(2 * b.len());
    for x in b {
        s.push_str(&format!("{:02x}", x));
    }
    s
}

/// (bytes up to the last non-zero byte, number of trailing zero bytes)
fn split_dump(d: &[u8]) -> (Vec<u8>, usize) {
    let n = d.iter().rposition(|b| *b != 0).map_or(0, |i| i + 1);
    (d[..n].to_vec(), d.len() - n)
}

/// longest prefix of `s` that is at most `max` bytes long and ends at a character boundary
fn boundary_prefix(s: &[u8], max: usize) -> &[u8] {
    let mut n = s.len().min(max);
    while n > 0 && n < s.len() && (s[n] & 0xC0) == 0x80 {
        n -= 1;
    }
    &s[..n]
}

impl Worker {
    fn problem(&mut self, class: &str, what: String) {
        self.problems.push(format!("{} step={} {}", class, self.step, what));
    }

    unsafe fn take_heap(&mut self, p: *mut c_char, what: &str) -> Option<Vec<u8>> {
        if p.is_null() {
            return None;
        }
        let bytes = CStr::from_ptr(p).to_bytes().to_vec();
        if std::str::from_utf8(&bytes).is_err() {
            self.problem("utf8", format!("{} heap result is not valid UTF-8: b{}", what, hexs(&bytes)));
        }
        Some(bytes)
    }

    /// frees a heap string at once (observation getters); checked by the layout allocator
    unsafe fn free_now(&mut self, p: *mut c_void, what: &str) {
        let before = MISMATCH.load(SeqCst);
        chewing_free(p);
        if MISMATCH.load(SeqCst) != before {
            self.problem("free-layout", format!("chewing_free of a {} result deallocates with a different layout", what));
        }
    }

    /// static getter: dump the context buffer up to its capacity, compare with the heap variant
    unsafe fn pair(&mut self, which: &str, cap: usize, st: *const c_char, hp: *mut c_char) {
        let heap = self.take_heap(hp, which);
        if !hp.is_null() {
            self.free_now(hp.cast(), which);
        }
        if st.is_null() {
            self.problem("null", format!("{}_static returned NULL", which));
            return;
        }
        let dump = std::slice::from_raw_parts(st as *const u8, cap).to_vec();
        let (pre, zeros) = split_dump(&dump);
        let nul = dump.iter().position(|b| *b == 0);
        let text: &[u8] = match nul {
            Some(n) => &dump[..n],
            None => {
                self.problem(
                    "nul",
                    format!("{}_static: no NUL terminator within the {}-byte buffer: b{}", which, cap, hexs(&dump)),
                );
                &dump[..]
            }
        };
        if std::str::from_utf8(text).is_err() {
            self.problem("utf8", format!("{}_static text is not valid UTF-8: b{}", which, hexs(text)));
        }
        match heap {
            Some(h) => {
                self.gets.insert(format!("cstr get {} {} x{} => b{} {}", which, cap, hexs(&h), hexs(&pre), zeros));
                if h != text {
                    let overlong = h.len() >= cap && nul.is_some() && text == boundary_prefix(&h, cap - 1);
                    let class = if overlong { "same-overlong" } else { "same" };
                    self.problem(
                        class,
                        format!(
                            "{}: static variant ({} bytes) differs from the heap variant ({} bytes, {} chars): static x{} heap x{}",
                            which,
                            text.len(),
                            h.len(),
                            String::from_utf8_lossy(&h).chars().count(),
                            hexs(text),
                            hexs(&h)
                        ),
                    );
                }
            }
            None => self.problem("null", format!("{} heap variant returned NULL", which)),
        }
    }

    unsafe fn observe(&mut self) {
        let c = self.ctx;
        self.pair("commit", CAP_COMMIT, chewing_commit_String_static(c), chewing_commit_String(c));
        self.pair("buffer", CAP_PREEDIT, chewing_buffer_String_static(c), chewing_buffer_String(c));
        self.pair("bopomofo", CAP_BOPOMOFO, chewing_bopomofo_String_static(c), chewing_bopomofo_String(c));
        self.pair("aux", CAP_AUX, chewing_aux_String_static(c), chewing_aux_String(c));
    }

    /// registers a heap result of an op (kept until a later `fr`), returns its id
    fn keep(&mut self, p: *mut c_void) -> usize {
        self.heap.push(Heap { addr: p as usize, freed: false });
        self.heap.len() - 1
    }

    unsafe fn all_candidates(&mut self) -> Vec<Vec<u8>> {
        let n = chewing_cand_TotalChoice(self.ctx);
        let mut v = Vec::new();
        for i in 0..n {
            let p = chewing_cand_string_by_index_static(self.ctx, i);
            v.push(CStr::from_ptr(p).to_bytes().to_vec());
        }
        v
    }

    unsafe fn drain_userphrases(&mut self) -> Vec<(Vec<u8>, Vec<u8>)> {
        let mut v = Vec::new();
        loop {
            let (mut pl, mut bl): (c_uint, c_uint) = (0, 0);
            if chewing_userphrase_has_next(self.ctx, &mut pl, &mut bl) != 1 {
                break;
            }
            let mut pb = vec![0xAAu8; pl as usize];
            let mut bb = vec![0xAAu8; bl as usize];
            if chewing_userphrase_get(self.ctx, pb.as_mut_ptr().cast(), pl, bb.as_mut_ptr().cast(), bl) != 0 {
                self.problem("proto-up", "has_next = 1 but get fails while draining".into());
                break;
            }
            pb.pop();
            bb.pop();
            v.push((pb, bb));
            if v.len() > 10_000 {
                break;
            }
        }
        v
    }

    unsafe fn exec(&mut self, op: &str) -> String {
        let c = self.ctx;
        let mut parts = op.split(':');
        let name = parts.next().unwrap();
        let a1: i64 = parts.next().and_then(|s| s.parse().ok()).unwrap_or(0);
        let a2: i64 = parts.next().and_then(|s| s.parse().ok()).unwrap_or(0);
        let prev_uh = self.last_uh.take();
        macro_rules! call {
            ($tok:expr, $ret:expr) => {{
                self.calls.push($tok);
                self.rets.push($ret);
            }};
        }
        match name {
            // ---------------------------------------------------------------- keys
            "k" => {
                chewing_handle_Default(c, a1 as c_int);
                call!("K".into(), "-".into());
                String::new()
            }
            "key" => {
                match KEY_NAMES[a1 as usize % KEY_NAMES.len()] {
                    "Space" => chewing_handle_Space(c),
                    "Esc" => chewing_handle_Esc(c),
                    "Enter" => chewing_handle_Enter(c),
                    "Del" => chewing_handle_Del(c),
                    "Backspace" => chewing_handle_Backspace(c),
                    "Tab" => chewing_handle_Tab(c),
                    "Left" => chewing_handle_Left(c),
                    "Right" => chewing_handle_Right(c),
                    "Up" => chewing_handle_Up(c),
                    "Down" => chewing_handle_Down(c),
                    "Home" => chewing_handle_Home(c),
                    "End" => chewing_handle_End(c),
                    "PageUp" => chewing_handle_PageUp(c),
                    "PageDown" => chewing_handle_PageDown(c),
                    "ShiftLeft" => chewing_handle_ShiftLeft(c),
                    "ShiftRight" => chewing_handle_ShiftRight(c),
                    "ShiftSpace" => chewing_handle_ShiftSpace(c),
                    "Capslock" => chewing_handle_Capslock(c),
                    _ => chewing_handle_DblTab(c),
                };
                call!("K".into(), "-".into());
                String::new()
            }
            "cn" => {
                chewing_handle_CtrlNum(c, b'0' as c_int + (a1 as c_int % 10));
                call!("K".into(), "-".into());
                String::new()
            }
            "nl" => {
                chewing_handle_Numlock(c, a1 as c_int);
                call!("K".into(), "-".into());
                String::new()
            }
            // ---------------------------------------------------------------- user phrases
            "ue" => {
                // enumerate, drain (the snapshot the iteration has to reproduce), enumerate again
                chewing_userphrase_enumerate(c);
                let snap = self.drain_userphrases();
                let r = chewing_userphrase_enumerate(c);
                let n = snap.len();
                self.up_snap = Some(snap);
                self.up_pos = 0;
                call!(format!("E{}", n), "-".into());
                format!("ret={} n={}", r, n)
            }
            "uh" => {
                let (mut pl, mut bl): (c_uint, c_uint) = (7777, 7777);
                let r = chewing_userphrase_has_next(c, &mut pl, &mut bl);
                call!("H".into(), r.to_string());
                let expect = self.up_snap.as_ref().and_then(|s| s.get(self.up_pos).cloned());
                match (r, expect) {
                    (1, Some((p, b))) => {
                        if pl as usize != p.len() + 1 || bl as usize != b.len() + 1 {
                            self.problem(
                                "proto-up",
                                format!("has_next lengths {} {} but the next entry needs {} {}", pl, bl, p.len() + 1, b.len() + 1),
                            );
                        }
                        self.last_uh = Some((pl, bl));
                    }
                    (0, None) => {}
                    (r, e) => self.problem(
                        "proto-up",
                        format!("has_next = {} but the enumeration snapshot has {} entry at position {}", r, if e.is_some() { "an" } else { "no" }, self.up_pos),
                    ),
                }
                if r != 1 && self.up_snap.is_some() && self.up_pos >= self.up_snap.as_ref().unwrap().len() {
                    // has_next = 0 drops the exhausted iterator
                    self.up_snap = None;
                }
                format!("ret={} pl={} bl={}", r, pl, bl)
            }
            "ug" => {
                // buffers exactly as large as has_next said (heap blocks: memcheck sees any overrun), else ample
                let (pl, bl) = prev_uh.unwrap_or((1024, 1024));
                let mut pb = vec![0xAAu8; pl as usize];
                let mut bb = vec![0xAAu8; bl as usize];
                let r = chewing_userphrase_get(c, pb.as_mut_ptr().cast(), pl, bb.as_mut_ptr().cast(), bl);
                call!("G".into(), r.to_string());
                let expect = self.up_snap.as_ref().and_then(|s| s.get(self.up_pos).cloned());
                match (r, expect) {
                    (0, Some((p, b))) => {
                        let pn = pb.iter().position(|x| *x == 0);
                        let bn = bb.iter().position(|x| *x == 0);
                        match (pn, bn) {
                            (Some(pn), Some(bn)) => {
                                if std::str::from_utf8(&pb[..pn]).is_err() || std::str::from_utf8(&bb[..bn]).is_err() {
                                    self.problem("utf8", format!("userphrase_get wrote invalid UTF-8: b{} b{}", hexs(&pb[..pn]), hexs(&bb[..bn])));
                                }
                                if pb[..pn] != p[..] || bb[..bn] != b[..] {
                                    self.problem(
                                        "snap-up",
                                        format!("get returned x{} / x{} but the enumeration snapshot has x{} / x{} at position {}",
                                            hexs(&pb[..pn]), hexs(&bb[..bn]), hexs(&p), hexs(&b), self.up_pos),
                                    );
                                }
                            }
                            _ => self.problem("nul", "userphrase_get: no NUL terminator in a caller buffer".into()),
                        }
                        self.up_pos += 1;
                    }
                    (-1, None) => {}
                    (r, e) => self.problem(
                        "proto-up",
                        format!("get = {} but the enumeration snapshot has {} entry at position {}", r, if e.is_some() { "an" } else { "no" }, self.up_pos),
                    ),
                }
                format!("ret={} exact={}", r, prev_uh.is_some())
            }
            "ua" | "ur" | "ul" => {
                let (p, b) = POOL[a1 as usize % POOL.len()];
                let (p, b) = (CString::new(p).unwrap(), CString::new(b).unwrap());
                let r = match name {
                    "ua" => chewing_userphrase_add(c, p.as_ptr(), b.as_ptr()),
                    "ur" => chewing_userphrase_remove(c, p.as_ptr(), b.as_ptr()),
                    _ => chewing_userphrase_lookup(c, p.as_ptr(), b.as_ptr()),
                };
                call!(match name { "ua" => "A", "ur" => "R", _ => "M" }.into(), "-".into());
                format!("ret={}", r)
            }
            // ---------------------------------------------------------------- candidates
            "ce" => {
                let sel = chewing_cand_CheckDone(c) == 0;
                if sel {
                    let all = self.all_candidates();
                    let skip = (chewing_cand_CurrentPage(c) * chewing_cand_ChoicePerPage(c)).max(0) as usize;
                    self.cand_snap = Some(all.into_iter().skip(skip).collect());
                    self.cand_pos = 0;
                }
                chewing_cand_Enumerate(c);
                let n = self.cand_snap.as_ref().map_or(0, |s| s.len());
                call!(format!("CE{}:{}", sel as u8, n), "-".into());
                format!("sel={} n={}", sel, n)
            }
            "ch" => {
                let sel = chewing_cand_CheckDone(c) == 0;
                let r = chewing_cand_hasNext(c);
                call!(format!("CH{}", sel as u8), r.to_string());
                let left = self.cand_snap.as_ref().map_or(0, |s| s.len().saturating_sub(self.cand_pos));
                if (r == 1) != (sel && left > 0) {
                    self.problem("proto-cand", format!("cand_hasNext = {} selecting = {} but {} snapshot items remain", r, sel, left));
                }
                format!("ret={}", r)
            }
            "cs" | "ct" => {
                let expect = self.cand_snap.as_ref().and_then(|s| s.get(self.cand_pos).cloned());
                let got: Vec<u8>;
                if name == "cs" {
                    let p = chewing_cand_String(c);
                    got = self.take_heap(p, "cand_String").unwrap_or_default();
                    let id = self.keep(p.cast());
                    call!("CS".into(), format!("{}/{}", !got.is_empty() as u8, id));
                } else {
                    let p = chewing_cand_String_static(c);
                    got = CStr::from_ptr(p).to_bytes().to_vec();
                    if std::str::from_utf8(&got).is_err() {
                        self.problem("utf8", format!("cand_String_static is not valid UTF-8: b{}", hexs(&got)));
                    }
                    call!("CT".into(), format!("{}", !got.is_empty() as u8));
                }
                match expect {
                    Some(e) => {
                        if e != got {
                            self.problem("snap-cand", format!("candidate x{} but the enumeration snapshot has x{} at position {}", hexs(&got), hexs(&e), self.cand_pos));
                        }
                        self.cand_pos += 1;
                    }
                    None => {
                        if !got.is_empty() {
                            self.problem("snap-cand", format!("candidate x{} after the end of the enumeration snapshot", hexs(&got)));
                        }
                    }
                }
                format!("x{}", hexs(&got))
            }
            "co" => {
                let r = chewing_cand_open(c);
                call!("M".into(), "-".into());
                format!("ret={}", r)
            }
            "cc" => {
                let r = chewing_cand_close(c);
                call!("M".into(), "-".into());
                format!("ret={}", r)
            }
            "ci" => {
                let r = chewing_cand_choose_by_index(c, a1 as c_int);
                call!("K".into(), "-".into());
                format!("ret={}", r)
            }
            "cx" => {
                let st = chewing_cand_string_by_index_static(c, a1 as c_int);
                let hp = chewing_cand_string_by_index(c, a1 as c_int);
                // the static variant returns the global empty string (not the context buffer) when out of range
                let stext = CStr::from_ptr(st).to_bytes().to_vec();
                let h = self.take_heap(hp, "cand_string_by_index").unwrap_or_default();
                self.free_now(hp.cast(), "cand_string_by_index");
                if std::str::from_utf8(&stext).is_err() {
                    self.problem("utf8", format!("cand_string_by_index_static is not valid UTF-8: b{}", hexs(&stext)));
                }
                if !stext.is_empty() {
                    let dump = std::slice::from_raw_parts(st as *const u8, CAP_CAND).to_vec();
                    let (pre, zeros) = split_dump(&dump);
                    self.gets.insert(format!("cstr get cand {} x{} => b{} {}", CAP_CAND, hexs(&h), hexs(&pre), zeros));
                }
                if stext != h {
                    self.problem("same", format!("cand_string_by_index({}): static x{} heap x{}", a1, hexs(&stext), hexs(&h)));
                }
                call!("M".into(), "-".into());
                format!("x{}", hexs(&h))
            }
            "clf" | "cll" | "cln" | "clp" => {
                let r = match name {
                    "clf" => chewing_cand_list_first(c),
                    "cll" => chewing_cand_list_last(c),
                    "cln" => chewing_cand_list_next(c),
                    _ => chewing_cand_list_prev(c),
                };
                call!("M".into(), "-".into());
                format!("ret={}", r)
            }
            // ---------------------------------------------------------------- intervals
            "ie" => {
                chewing_interval_Enumerate(c);
                let mut snap = Vec::new();
                while chewing_interval_hasNext(c) == 1 && snap.len() < 1000 {
                    let mut it = IntervalType { from: -7, to: -7 };
                    chewing_interval_Get(c, &mut it);
                    snap.push((it.from, it.to));
                }
                chewing_interval_Enumerate(c);
                let n = snap.len();
                self.int_snap = Some(snap);
                self.int_pos = 0;
                call!(format!("IE{}", n), "-".into());
                format!("n={}", n)
            }
            "ih" => {
                let r = chewing_interval_hasNext(c);
                call!("IH".into(), r.to_string());
                let left = self.int_snap.as_ref().map_or(0, |s| s.len().saturating_sub(self.int_pos));
                if (r == 1) != (left > 0) {
                    self.problem("proto-int", format!("interval_hasNext = {} but {} snapshot items remain", r, left));
                }
                format!("ret={}", r)
            }
            "ig" => {
                let mut it = IntervalType { from: -7, to: -7 };
                chewing_interval_Get(c, &mut it);
                let wrote = it.from != -7 || it.to != -7;
                call!("IG".into(), (wrote as u8).to_string());
                let expect = self.int_snap.as_ref().and_then(|s| s.get(self.int_pos).cloned());
                match expect {
                    Some(e) => {
                        if !wrote || e != (it.from, it.to) {
                            self.problem("snap-int", format!("interval ({}, {}) but the enumeration snapshot has {:?} at position {}", it.from, it.to, e, self.int_pos));
                        }
                        self.int_pos += 1;
                    }
                    None => {
                        if wrote {
                            self.problem("snap-int", format!("interval ({}, {}) after the end of the enumeration snapshot", it.from, it.to));
                        }
                    }
                }
                format!("{} {}", it.from, it.to)
            }
            // ---------------------------------------------------------------- keyboard types
            "ke" => {
                chewing_kbtype_Enumerate(c);
                self.kb_pos = Some(0);
                let n = chewing_kbtype_Total(c);
                call!(format!("KE{}", n), "-".into());
                format!("n={}", n)
            }
            "kh" => {
                let r = chewing_kbtype_hasNext(c);
                call!("KH".into(), r.to_string());
                let left = self.kb_pos.map_or(0, |p| self.kb_names.len().saturating_sub(p));
                if (r == 1) != (left > 0) {
                    self.problem("proto-kb", format!("kbtype_hasNext = {} but {} names remain", r, left));
                }
                format!("ret={}", r)
            }
            "ks" | "kt" => {
                let expect = self.kb_pos.and_then(|p| self.kb_names.get(p).cloned());
                let got: Vec<u8>;
                if name == "ks" {
                    let p = chewing_kbtype_String(c);
                    got = self.take_heap(p, "kbtype_String").unwrap_or_default();
                    let id = self.keep(p.cast());
                    call!("KS".into(), format!("{}/{}", !got.is_empty() as u8, id));
                } else {
                    let p = chewing_kbtype_String_static(c);
                    got = CStr::from_ptr(p).to_bytes().to_vec();
                    if !got.is_empty() {
                        let dump = std::slice::from_raw_parts(p as *const u8, CAP_KBTYPE).to_vec();
                        let (pre, zeros) = split_dump(&dump);
                        if let Some(e) = &expect {
                            self.gets.insert(format!("cstr get kbtype {} x{} => b{} {}", CAP_KBTYPE, hexs(e), hexs(&pre), zeros));
                        }
                    }
                    call!("KT".into(), format!("{}", !got.is_empty() as u8));
                }
                match expect {
                    Some(e) => {
                        if e != got {
                            self.problem("snap-kb", format!("keyboard name x{} but position {} is x{}", hexs(&got), self.kb_pos.unwrap(), hexs(&e)));
                        }
                        self.kb_pos = self.kb_pos.map(|p| p + 1);
                    }
                    None => {
                        if !got.is_empty() {
                            self.problem("snap-kb", format!("keyboard name x{} after the end of the enumeration", hexs(&got)));
                        }
                    }
                }
                format!("x{}", hexs(&got))
            }
            "kb" => {
                let r = chewing_set_KBType(c, a1 as c_int);
                call!("M".into(), "-".into());
                format!("ret={}", r)
            }
            "kbs" => {
                let nm = self.kb_names[a1 as usize % self.kb_names.len()].clone();
                let v = CString::new(nm).unwrap();
                let r = chewing_config_set_str(c, c"chewing.keyboard_type".as_ptr(), v.as_ptr());
                call!("M".into(), "-".into());
                format!("ret={}", r)
            }
            "selk" => {
                let v = CString::new(SELKEYS[a1 as usize % SELKEYS.len()]).unwrap();
                let r = chewing_config_set_str(c, c"chewing.selection_keys".as_ptr(), v.as_ptr());
                call!("M".into(), "-".into());
                format!("ret={}", r)
            }
            "cfg" => {
                let ix = a1 as usize % INT_OPTIONS.len();
                let nm = CString::new(INT_OPTIONS[ix]).unwrap();
                // engine changes with a non-empty buffer lead to the word-less-syllable states of F02/F30 (C03/C01):
                // random histories change the engine only when idle; the F35 witness uses `cfgx`
                if ix == IX_ENGINE && (chewing_buffer_Len(c) != 0 || chewing_bopomofo_Check(c) != 0) {
                    call!("M".into(), "-".into());
                    return "skipped".into();
                }
                let r = chewing_config_set_int(c, nm.as_ptr(), a2 as c_int);
                call!("M".into(), "-".into());
                format!("ret={}", r)
            }
            "cfgx" => {
                let nm = CString::new(INT_OPTIONS[a1 as usize % INT_OPTIONS.len()]).unwrap();
                let r = chewing_config_set_int(c, nm.as_ptr(), a2 as c_int);
                call!("M".into(), "-".into());
                format!("ret={}", r)
            }
            "reset" => {
                chewing_Reset(c);
                call!("M".into(), "-".into());
                String::new()
            }
            "ack" => {
                chewing_ack(c);
                call!("M".into(), "-".into());
                String::new()
            }
            "commit" => {
                let r = chewing_commit_preedit_buf(c);
                call!("K".into(), "-".into());
                format!("ret={}", r)
            }
            "clean" => {
                let r = chewing_clean_preedit_buf(c);
                call!("M".into(), "-".into());
                format!("ret={}", r)
            }
            "cleanb" => {
                let r = chewing_clean_bopomofo_buf(c);
                call!("M".into(), "-".into());
                format!("ret={}", r)
            }
            // ---------------------------------------------------------------- heap results kept for a later free
            "ps" => {
                let n = chewing_get_phoneSeqLen(c);
                let p = chewing_get_phoneSeq(c);
                let id = self.keep(p.cast());
                call!("P1".into(), id.to_string());
                format!("len={}", n)
            }
            "hs" => {
                let p = match a1 % 6 {
                    0 => chewing_get_KBString(c),
                    1 => chewing_buffer_String(c),
                    2 => chewing_commit_String(c),
                    3 => chewing_aux_String(c),
                    4 => chewing_bopomofo_String(c),
                    _ => {
                        let mut n: c_int = 0;
                        chewing_zuin_String(c, &mut n)
                    }
                };
                let t = self.take_heap(p, "heap getter").unwrap_or_default();
                let id = self.keep(p.cast());
                call!("P0".into(), id.to_string());
                format!("x{}", hexs(&t))
            }
            "cgs" => {
                let mut p: *mut c_char = std::ptr::null_mut();
                let nm = if a1 % 2 == 0 { c"chewing.keyboard_type" } else { c"chewing.selection_keys" };
                let r = chewing_config_get_str(c, nm.as_ptr(), &mut p);
                let t = self.take_heap(p, "config_get_str").unwrap_or_default();
                let id = self.keep(p.cast());
                call!("P0".into(), id.to_string());
                format!("ret={} x{}", r, hexs(&t))
            }
            "fr" | "frd" => {
                // fr: release a live result; frd: pass an already released pointer again (must be ignored)
                let want_freed = name == "frd";
                let cands: Vec<usize> = (0..self.heap.len()).filter(|i| self.heap[*i].freed == want_freed && self.heap[*i].addr != 0).collect();
                if cands.is_empty() {
                    call!("M".into(), "-".into());
                    return "none".into();
                }
                let id = cands[a1 as usize % cands.len()];
                let addr = self.heap[id].addr;
                if want_freed && self.heap.iter().any(|h| !h.freed && h.addr == addr) {
                    // the allocator handed the address out again: the stale pointer now names a live result
                    call!("M".into(), "-".into());
                    return "reused".into();
                }
                let before = MISMATCH.load(SeqCst);
                chewing_free(addr as *mut c_void);
                if MISMATCH.load(SeqCst) != before {
                    self.problem("free-layout", format!("chewing_free of heap result #{} deallocates with a different layout", id));
                }
                self.heap[id].freed = true;
                call!(format!("F{}", id), "-".into());
                format!("id={}", id)
            }
            "fru" => {
                // a pointer the library never handed out
                chewing_free((&mut self.static_pointer as *mut u8).cast());
                call!("FU".into(), "-".into());
                String::new()
            }
            _ => {
                call!("M".into(), "-".into());
                "unknown-op".into()
            }
        }
    }
}

/// layout of the persisted user dictionary = pool ids added through a first context and flushed by chewing_delete
unsafe fn prepare_user_file(sys: &CString, path: &CString, ids: &[usize]) {
    if ids.is_empty() {
        return;
    }
    let ctx = chewing_new2(sys.as_ptr(), path.as_ptr(), None, std::ptr::null_mut());
    assert!(!ctx.is_null());
    for i in ids {
        let (p, b) = POOL[*i % POOL.len()];
        let (p, b) = (CString::new(p).unwrap(), CString::new(b).unwrap());
        chewing_userphrase_add(ctx, p.as_ptr(), b.as_ptr());
    }
    chewing_delete(ctx);
}

fn repo_path() -> String {
    std::env::var("VERIF_REPO").unwrap_or_else(|_| "/repo".into())
}

/// history line: `<hid> <T|B> <M|F<id.id…>> <op,op,…>`
unsafe fn run_history(line: &str) {
    let f: Vec<&str> = line.split(' ').collect();
    let (hid, dict, user, ops) = (f[0], f[1], f[2], f.get(3).copied().unwrap_or(""));
    println!("H {}", hid);
    let live0 = LIVE.load(SeqCst);
    let dir = tempfile::tempdir().unwrap();
    let sys = if dict == "T" { format!("{}/tests/data", repo_path()) } else { format!("{}/no-such-dir", dir.path().display()) };
    let sys = CString::new(sys).unwrap();
    let upath = if user == "M" {
        format!("{}/:memory:", dir.path().display())
    } else {
        format!("{}/chewing.dat", dir.path().display())
    };
    let upath = CString::new(upath).unwrap();
    if let Some(ids) = user.strip_prefix('F') {
        let ids: Vec<usize> = ids.split('.').filter_map(|s| s.parse().ok()).collect();
        prepare_user_file(&sys, &upath, &ids);
    }
    eprintln!("@@ {} new", hid);
    let ctx = chewing_new2(sys.as_ptr(), upath.as_ptr(), None, std::ptr::null_mut());
    if ctx.is_null() {
        println!("X 0 setup chewing_new2 returned NULL");
        println!("E {} calls= rets= mismatch=0 live=0", hid);
        return;
    }
    chewing_set_logger(ctx, None, std::ptr::null_mut());
    let mut w = Worker {
        ctx,
        step: 0,
        heap: Vec::new(),
        up_snap: None,
        up_pos: 0,
        cand_snap: None,
        cand_pos: 0,
        int_snap: None,
        int_pos: 0,
        kb_names: Vec::new(),
        kb_pos: None,
        last_uh: None,
        calls: Vec::new(),
        rets: Vec::new(),
        gets: BTreeSet::new(),
        problems: Vec::new(),
        static_pointer: 0,
    };
    // keyboard-type names (heap variant), once
    chewing_kbtype_Enumerate(ctx);
    while chewing_kbtype_hasNext(ctx) == 1 && w.kb_names.len() < 100 {
        let p = chewing_kbtype_String(ctx);
        w.kb_names.push(CStr::from_ptr(p).to_bytes().to_vec());
        chewing_free(p.cast());
    }
    let mismatch0 = MISMATCH.load(SeqCst);
    for (i, op) in ops.split(',').filter(|s| !s.is_empty()).enumerate() {
        w.step = i;
        eprintln!("@@ {} {} {}", hid, i, op);
        println!("B {} {}", i, op);
        let r = w.exec(op);
        eprintln!("@@ {} {} observe", hid, i);
        println!("O {} {} {}", i, op, r);
        w.observe();
        for p in w.problems.drain(..) {
            println!("X {} {}", i, p);
        }
    }
    // every heap result still held can be released with the library's free function
    eprintln!("@@ {} end free", hid);
    for i in 0..w.heap.len() {
        if !w.heap[i].freed && w.heap[i].addr != 0 {
            let before = MISMATCH.load(SeqCst);
            chewing_free(w.heap[i].addr as *mut c_void);
            if MISMATCH.load(SeqCst) != before {
                println!("X {} free-layout chewing_free of heap result #{} deallocates with a different layout", w.step, i);
            }
            w.heap[i].freed = true;
            w.calls.push(format!("F{}", i));
            w.rets.push("-".into());
        }
    }
    eprintln!("@@ {} end delete", hid);
    chewing_delete(ctx);
    for g in &w.gets {
        println!("R {}", g);
    }
    let mm = MISMATCH.load(SeqCst) - mismatch0;
    let fm: Vec<usize> = FIRST_MISMATCH.iter().map(|a| a.load(SeqCst)).collect();
    drop(w);
    drop(dir);
    println!(
        "E {} calls={} rets={} mismatch={} first={}/{}->{}/{} live={}",
        hid,
        w_join(&CALLS.lock().unwrap()),
        "",
        mm,
        fm[0],
        fm[1],
        fm[2],
        fm[3],
        LIVE.load(SeqCst) as i64 - live0 as i64
    );
}

static CALLS: Mutex<Vec<String>> = Mutex::new(Vec::new());
fn w_join(v: &[String]) -> String {
    v.join(",")
}

fn main() {}
