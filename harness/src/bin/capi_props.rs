//! C02 / C05 / C06 / C07 observed where the properties say they are observed: on the C API.
#![allow(deprecated)]
//!
//! Generated key/API histories are driven through `chewing_handle_*` (every handler; `Default` with all printable
//! characters and a few non-characters), `chewing_cand_*`, the option setters and the buffer calls on a C context
//! and, in lock-step, on a TWIN `chewing::editor::Editor` built over the same data directory (capi_props/ops.rs).
//! After every call
//!   1. GLUE: every C getter is compared with what the twin's Rust getter predicts (capi_props/obs.rs — the by-design
//!      differences are modelled there one by one), the return value with the documented one, and every few calls
//!      the whole observation is taken twice (a getter with a side effect shows as a difference);
//!   2. STATEMENTS: the four properties are evaluated on the C observations before/after the call
//!      (capi_props/props.rs);
//!   3. RECORD: every call of the glue model (handlers, cand_*, buffer calls, ack, Reset) is a transcript record
//!      `capiops call …` carrying the call, the facts the glue reads and what the twin actually fed to its Editor plus
//!      the C return value; the Lean model of capi/src/io.rs (Model/CApiOps.lean) recomputes it (Driver/CApiOps.lean).
//!      So on every call: Lean model = twin (record), twin = real C context (getter comparison).
//! Any failure is an oracle verdict `!oracle Cxx new capi_props …` with the profile and the calls so far (the
//! history is replayable: `capi_props --replay <trace-seed>`).  Histories run in worker child processes: a panic
//! inside an `extern "C"` function aborts the process (crashes are C01's subject; they are counted and skipped).
#[path = "capi_props/obs.rs"]
mod obs;
#[path = "capi_props/ops.rs"]
mod ops;
#[path = "capi_props/props.rs"]
mod props;

use chewing::editor::EditorKeyBehavior;
use chewing_capi::setup::chewing_delete;
use obs::*;
use ops::*;
use std::collections::BTreeMap;
use std::io::{BufRead, BufReader, Write};
use std::process::{Command, Stdio};
use vharness::*;

const SYL_KEYS: [&str; 10] = ["hk4", "g4", "su3", "cl3", "ji3", "vup ", "dj4", "up ", "5j/ ", "2k7"];
const ALL_HANDLERS: usize = 19 + 3 + 7 + 5 + 11 + 5 + 3; // … + userphrase_lookup, userphrase_enumerate, config_set_str // named, Default/Numlock/CtrlNum, cand_*, buffer calls, setters, config_set_int/set_KBType/set_selKey/userphrase_add/remove

struct Stats(BTreeMap<String, u64>);
impl Stats {
    fn add(&mut self, k: &str, n: u64) {
        *self.0.entry(k.to_string()).or_insert(0) += n;
    }
    fn max(&mut self, k: &str, n: u64) {
        let e = self.0.entry(k.to_string()).or_insert(0);
        *e = (*e).max(n);
    }
}

fn gen_key(rng: &mut Rng) -> i32 {
    match rng.weighted(&[20, 70, 10, 3]) {
        // every printable character
        0 | 1 if rng.chance(1, 3) => 32 + rng.below(95) as i32,
        0 | 1 => *rng.pick(b",.<>?!a[]'-=Z`QWALM hgsc") as i32,
        2 => *rng.pick(b"1234567890") as i32,
        // no characters at all: control codes, beyond ASCII, beyond a byte, negative
        _ => *rng.pick(&[0, 7, 27, 127, 128, 200, 255, 256 + 97, 256 + 49, 0x1F600, -1, -159]),
    }
}

fn gen_ops(rng: &mut Rng, selecting: bool, selkeys: &[i32], user: &[(String, String)]) -> Vec<Op> {
    let w: Vec<u32> = if selecting {
        //   syl nav del open page choose close misc cfg user key
        vec![2, 5, 2, 1, 12, 12, 3, 2, 3, 2, 3]
    } else {
        vec![30, 12, 7, 10, 1, 1, 1, 7, 5, 5, 8]
    };
    match rng.weighted(&w) {
        0 => {
            let mut ks: Vec<Op> = rng.pick(&SYL_KEYS).bytes().map(|b| Op::Default(b as i32)).collect();
            if rng.chance(1, 8) {
                ks.truncate(1 + rng.below(ks.len() as u64) as usize);
            }
            ks
        }
        1 => vec![Op::Named(*rng.pick(&[N_SHIFT_LEFT, N_LEFT, N_SHIFT_RIGHT, N_RIGHT, N_LEFT, N_RIGHT, N_HOME, N_END, N_PAGE_UP, N_PAGE_DOWN, N_UP, N_LEFT, N_HOME]))],
        2 => vec![Op::Named(*rng.pick(&[N_DEL, N_BACKSPACE, N_BACKSPACE, N_ESC]))],
        3 => vec![if rng.chance(1, 3) { Op::CandOpen } else { Op::Named(*rng.pick(&[N_DOWN, N_DOWN, N_SPACE])) }],
        4 => vec![if rng.chance(2, 3) {
            Op::Named(*rng.pick(&[N_LEFT, N_RIGHT, N_PAGE_UP, N_PAGE_DOWN, N_SPACE, N_DOWN, N_PAGE_DOWN, N_RIGHT]))
        } else if rng.chance(1, 2) {
            Op::CandList(rng.below(4) as u8)
        } else {
            Op::Default(*rng.pick(b"jk") as i32)
        }],
        5 => vec![if rng.chance(1, 2) {
            Op::CandChoose(*rng.pick(&[0, 0, 1, 1, 2, 3, 4, 7, 9, 10, 12, 100, -1, -2147483648]))
        } else {
            // one of the selection keys in force (whatever ints they are), or any key of the fixed list
            Op::Default(if rng.chance(1, 3) && !selkeys.is_empty() { *rng.pick(selkeys) } else { *rng.pick(&CHOICE_KEYS) })
        }],
        6 => vec![if rng.chance(1, 2) { Op::CandClose } else { Op::Named(*rng.pick(&[N_ESC, N_UP])) }],
        7 => vec![match rng.below(11) {
            0 | 1 => Op::Named(N_ENTER),
            2 => Op::CommitPreedit,
            3 => Op::CleanPreedit,
            4 => Op::CleanBopomofo,
            5 => Op::Ack,
            6 => Op::Named(N_TAB),
            7 => Op::Named(N_DBL_TAB),
            8 => Op::CtrlNum(*rng.pick(&[50, 51, 52, 57, 48, 49, 50, 65, 256 + 50, 0, -1])),
            9 => Op::Named(*rng.pick(&[N_CAPSLOCK, N_SHIFT_SPACE])),
            _ => Op::Numlock(*rng.pick(&[48, 49, 53, 57, 43, 45, 42, 47, 46, 97, 256 + 49])),
        }],
        8 => vec![match rng.below(16) {
            0 => Op::Set(0, rng.below(2) as i32),
            1 => Op::Set(1, rng.below(2) as i32),
            2 | 3 => Op::Set(2, *rng.pick(&[1, 2, 3, 4, 5, 10, 7, 0, 11])),
            4 | 5 => Op::Set(3, *rng.pick(&[0, 1, 2, 3, 5, 8, 20, 39, 40])),
            6..=11 => {
                let w = 4 + rng.below(7) as u8;
                Op::Set(w, *rng.pick(&[0, 1, 0, 1, 2]))
            }
            12 => Op::SetOpt(0, *rng.pick(&[0, 1, 2, 3])),
            13 => Op::SetOpt(1, rng.below(2) as i32),
            14 => {
                if rng.chance(1, 3) {
                    Op::SetStr(0, rng.pick(&KB_NAMES).0.to_string())
                } else {
                    Op::SetKb(*rng.pick(&[0, 0, 1, 2, 3, 4, 5, 6, 7, 8, 9, 10, 11, 13, 14, 15, 16, 17, -1, 255, 256, 257, -255]))
                }
            }
            _ => match rng.weighted(&[6, 2, 3, 1]) {
                0 => Op::SetSelKeys(rng.weighted(&[3, 3, 3, 2]) as u8),
                1 => Op::SetSelKeysLen(1 + rng.below(3) as u8, *rng.pick(&[0, 5, 9, 11, -1, 10])),
                2 => Op::SetStr(1, rng.pick(&SELKEY_STRS).to_string()),
                _ => Op::SetStr(2, "x".into()),
            },
        }],
        // half of the time, when the user dictionary has entries: a call about one of them (remove it, look it up with
        // its phrase / with NULL / with another phrase, add it again, add another phrase under its syllables)
        9 if !user.is_empty() && rng.chance(1, 2) => {
            let (p, b) = rng.pick(user).clone();
            let some = |s: &str| Some(s.as_bytes().to_vec());
            vec![match rng.below(8) {
                0 | 1 => Op::User(1, some(&p), some(&b)),
                2 | 3 => Op::User(2, some(&p), some(&b)),
                4 => Op::User(2, None, some(&b)),
                5 => Op::User(2, gen_arg(rng, &PHRASE_POOL), some(&b)),
                6 => Op::User(0, some(&p), some(&format!(" {}\t", b))),
                _ => Op::User(0, gen_arg(rng, &PHRASE_POOL), some(&b)),
            }]
        }
        9 => vec![match rng.weighted(&[4, 2, 5, 3, 3, 2]) {
            0 => Op::UserAdd(rng.below(5) as u8),
            1 => Op::UserRemove(rng.below(5) as u8),
            // arbitrary arguments: mismatched lengths, unparsable / empty / NULL / non-UTF-8 strings, phrases already there
            2 => Op::User(0, gen_arg(rng, &PHRASE_POOL), gen_arg(rng, &BOPO_POOL)),
            3 => Op::User(1, gen_arg(rng, &PHRASE_POOL), gen_arg(rng, &BOPO_POOL)),
            4 => Op::User(2, gen_arg(rng, &PHRASE_POOL), gen_arg(rng, &BOPO_POOL)),
            _ => Op::UserEnum,
        }],
        _ => vec![if rng.chance(1, 12) { Op::Reset } else { Op::Default(gen_key(rng)) }],
    }
}

struct Ctl {
    emitted: BTreeMap<&'static str, u32>,
}

fn state_of(o: &Obs, tw: &Twin) -> u8 {
    if o.selecting() {
        b'S'
    } else if o.bopo_check == 1 {
        b'Y'
    } else if !tw.ed.is_entering() {
        b'H'
    } else {
        b'E'
    }
}

// (finding FX1 - a context created over a data directory WITHOUT symbols.dat has an empty symbol table, and grave,
// Ctrl-0/1, Down on a character without special symbols opened a list of 0 candidates - was repaired by `fix: a symbol
// list without entries is not opened`; it is no longer a known class: a recurrence is reported as new)

fn fail(out: &mut Out, ctl: &mut Ctl, prop: &'static str, what: &str, seed: u64, profile: &Profile, hist: &[String]) {
    fail_class(out, ctl, prop, "new", what, seed, profile, hist)
}

fn fail_class(out: &mut Out, ctl: &mut Ctl, prop: &'static str, class: &'static str, what: &str, seed: u64, profile: &Profile, hist: &[String]) {
    let n = ctl.emitted.entry(if class == "new" { prop } else { class }).or_insert(0);
    *n += 1;
    if *n > 3 {
        return;
    }
    out.oracle_fail(prop, class, &format!("capi_props {} ; trace-seed {} context new2{} calls [{}]", what, seed, profile.text(), hist.join(" ; ")));
}

/// one history; returns false when it ended in a verdict
fn trace(out: &mut Out, ctl: &mut Ctl, seed: u64, n_calls: usize, st: &mut Stats, verbose: bool) -> bool {
    let mut rng = Rng::new(seed);
    let profile = Profile::gen(&mut rng);
    let home = profile_home(&profile);
    let ctx = new_ctx(&home);
    if ctx.is_null() {
        st.add("contexts_not_created", 1);
        return true;
    }
    let mut tw = new_twin(&home);
    st.add("histories", 1);
    if profile.symbols == 2 {
        st.add("histories_in_a_context_with_an_empty_symbol_table", 1);
    }
    st.add(&format!("histories_dictionaries_{}", ["tests_data", "builtin", "generated"][profile.dict as usize]), 1);
    // initial configuration: small pages / small limits in half of the histories
    let mut pending: Vec<Op> = vec![];
    if rng.chance(1, 2) {
        pending.push(Op::Set(2, 1 + rng.below(4) as i32));
    }
    if rng.chance(1, 2) {
        pending.push(Op::Set(3, *rng.pick(&[1, 2, 3, 4, 6])));
    }
    if rng.chance(1, 4) {
        pending.push(Op::Set(8, 1));
    }
    if rng.chance(1, 4) {
        pending.push(Op::Set(5, 1));
    }
    if rng.chance(1, 5) {
        pending.push(Op::SetOpt(0, *rng.pick(&[0, 2])));
    }
    // selection keys other than the digits from the start in a quarter of the histories (half of those: ints that are no bytes)
    if rng.chance(1, 4) {
        pending.push(Op::SetSelKeys(*rng.pick(&[1, 2, 3, 3])));
    }
    pending.reverse();
    let mut hist: Vec<String> = vec![];
    let mut pre = unsafe { observe_c(ctx) };
    let t0 = observe_twin(&mut tw);
    let mut ok = true;
    let statements_only = std::env::var_os("CAPI_PROPS_STATEMENTS_ONLY").is_some();
    if let Some((g, c, t, p)) = diff(&pre, &t0).filter(|_| !statements_only) {
        fail(out, ctl, p, &format!("glue-mismatch on a new context: {} answers {} , the editor's getter gives {}", g, c, t), seed, &profile, &hist);
        ok = false;
    }
    let mut calls = 0;
    while ok && calls < n_calls {
        let ops = match pending.pop() {
            Some(o) => vec![o],
            None => gen_ops(&mut rng, pre.selecting(), &pre.selkeys, &pre.user),
        };
        for op in ops {
            calls += 1;
            let pre_tok = tokens(&tw);
            let pre_state = state_of(&pre, &tw);
            hist.push(op.text());
            if verbose {
                eprintln!("{} state {} pre {:?}", op.text(), pre_state as char, pre);
            }
            let facts = glue_facts(&tw);
            let kb_pre = kb_variant(&tw);
            // user-phrase calls (work package capiuser): the enumeration of the REAL context before and after the call
            let ucall = user_call(&op);
            let is_user = ucall.is_some() || matches!(op, Op::UserEnum);
            let e0 = if is_user { Some(unsafe { c_user_entries(ctx) }) } else { None };
            let selkeys_pre = pre.selkeys.clone();
            let rc = unsafe { apply_c(ctx, &op) };
            let m = tw.apply(&op);
            let mut user_verdicts: Vec<String> = vec![];
            if let Some(e0) = e0 {
                let e1 = unsafe { c_user_entries(ctx) };
                match (e0, e1) {
                    (Ok(e0), Ok(e1)) => user_step(out, st, ctx, &mut tw, &op, &ucall, rc, &e0, &e1, &mut user_verdicts),
                    (Err(e), _) | (_, Err(e)) => user_verdicts.push(format!("enumeration protocol: {}", e)),
                }
            }
            // transcript record of the call glue (Driver/CApiOps.lean recomputes the right-hand side from the Lean model
            // of capi/src/io.rs): what the twin fed to its Editor, and the value the REAL C function returned
            if let (Some((name, arg)), Some(call)) = (op.record_name(), m.call.text()) {
                let res = match m.res {
                    Some(true) => "ok",
                    Some(false) => "err",
                    None => "-",
                };
                out.rec(&format!("capiops call {} {} {} {} => {} {} {}", name, arg, facts, res, kb_pre, call, rc));
                st.add("glue_records", 1);
                if pre.selecting() && matches!(op, Op::Default(k) if pre.selkeys.contains(&k)) {
                    st.add("glue_records_selection_key_under_open_list", 1);
                }
                if pre.selecting() && matches!(op, Op::Default(k) if pre.selkeys.contains(&k) && !(0..=255).contains(&k)) {
                    st.add("glue_records_selection_key_outside_a_byte_under_open_list", 1);
                }
                if matches!(op, Op::Default(k) | Op::Numlock(k) | Op::CtrlNum(k) if !(0..=255).contains(&k)) {
                    st.add("glue_records_key_outside_a_byte", 1);
                }
            }
            let post = unsafe { observe_c(ctx) };
            let tpost = observe_twin(&mut tw);
            let post_state = state_of(&post, &tw);
            // transcript record of the getter model (Driver/CApiGetters.lean recomputes every C getter's answer from the
            // twin editor's Rust getters with the Lean model of capi/src/io.rs)
            out.rec(&capiget_record(&mut tw, &post));
            st.add("getter_records", 1);
            if post.selecting() {
                st.add("getter_records_with_open_list", 1);
            }
            if post.buf.len() > 255 || post.commit.len() > 255 || post.aux.len() > 255 {
                st.add("getter_records_with_a_text_longer_than_its_static_buffer", 1);
            }
            st.add("calls", 1);
            st.add(&format!("h.{}", op.handler()), 1);
            st.add("getter_observations", 1);
            st.add("getter_answers_compared", FIELDS as u64);
            let mut verdicts: props::Verdicts = vec![];
            // 1. glue
            if rc != m.rc {
                let p = match op {
                    Op::CandOpen | Op::CandClose | Op::CandChoose(_) | Op::CandList(_) => "C07",
                    Op::CommitPreedit | Op::Ack => "C02",
                    _ => "C06",
                };
                verdicts.push((p, format!("glue-mismatch: {} returned {}, documented for this state: {}", op.text(), rc, m.rc)));
            }
            if let Some((g, c, t, p)) = diff(&post, &tpost) {
                verdicts.push((p, format!("glue-mismatch after {}: {} answers {} , the editor driven with the same calls gives {}", op.text(), g, c, t)));
                // the same input for the checks that own the getter model's correspondence (records `capiget obs`: C17, C06)
                for q in ["C17", "C06"] {
                    if p != q {
                        verdicts.push((q, format!("getter-model-mismatch after {}: {} answers {} , the getter model over the editor driven with the same calls gives {}", op.text(), g, c, t)));
                    }
                }
            }
            if rng.chance(1, 6) {
                st.add("observations_repeated", 1);
                let again = unsafe { observe_c(ctx) };
                if let Some((g, c, t, p)) = diff(&again, &post) {
                    verdicts.push((p, format!("getter with a side effect: asked a second time {} answers {} , the first time {}", g, c, t)));
                }
            }
            // CAPI_PROPS_STATEMENTS_ONLY=1 (mutation testing of the statement oracles): the glue comparison is switched off
            if statements_only {
                verdicts.clear();
            }
            // records of the context-writing configuration calls (Driver/CApiUser.lean recomputes them from Model/CApiUser.lean)
            let keys_tok = |k: &[i32]| k.iter().map(|x| x.to_string()).collect::<Vec<_>>().join(",");
            match &op {
                Op::SetKb(n) => {
                    out.rec(&format!("capiuser kbtype {} => {} {} {}", n, rc, post.modes[2], kb_variant(&tw)));
                    st.add("user_records_set_KBType", 1);
                }
                Op::SetStr(i, v) => {
                    out.rec(&format!("capiuser setstr {} {} {} {} => {} {} {}", hx(STR_NAMES[*i as usize]), hx(v), keys_tok(&selkeys_pre), kb_pre, rc, keys_tok(&post.selkeys), kb_variant(&tw)));
                    st.add("user_records_config_set_str", 1);
                }
                Op::SetSelKeys(i) => {
                    out.rec(&format!("capiuser selkey {} {} 10 => {}", keys_tok(&selkeys_pre), keys_tok(&SEL_KEY_SETS[*i as usize]), keys_tok(&post.selkeys)));
                    st.add("user_records_set_selKey", 1);
                }
                Op::SetSelKeysLen(i, len) => {
                    let n = (*len).clamp(0, 16) as usize;
                    let mut ks = SEL_KEY_SETS[*i as usize].to_vec();
                    ks.resize(16, 33);
                    out.rec(&format!("capiuser selkey {} {} {} => {}", keys_tok(&selkeys_pre), if n == 0 { "-".to_string() } else { keys_tok(&ks[..n]) }, len, keys_tok(&post.selkeys)));
                    st.add("user_records_set_selKey", 1);
                    if *len != 10 {
                        st.add("user_records_set_selKey_len_not_10", 1);
                        if post.selkeys != selkeys_pre {
                            user_verdicts.push(format!("C16 chewing_set_selKey with len {} (not 10) changed the selection keys: {:?} -> {:?}", len, selkeys_pre, post.selkeys));
                        }
                    }
                }
                _ => {}
            }
            for v in user_verdicts {
                // the map behaviour of the user dictionary seen through the C calls: C09 (and C08: the learning entry point)
                if let Some(rest) = v.strip_prefix("C16 ") {
                    // the configuration (C16) and what the selection-key remap of chewing_handle_Default works with (C06)
                    verdicts.push(("C16", rest.to_string()));
                    verdicts.push(("C06", rest.to_string()));
                } else {
                    verdicts.push(("C09", v.clone()));
                    verdicts.push(("C08", v));
                }
            }
            // 2. statements (only on a context whose glue agrees: one defect, one verdict)
            if verdicts.is_empty() {
                let step = props::Step { op: &op, rc, key: m.key, pre: &pre, post: &post, pre_tok: &pre_tok, pre_state, post_state };
                props::c06(&step, &mut verdicts);
                props::c02(&step, &mut verdicts);
                props::c05(&step, &mut verdicts);
                props::c07(&step, &mut verdicts);
                st.add("statement_evaluations", 4);
            }
            // statistics of what was reached
            if let Some((ev, ret)) = m.key {
                st.add("keys", 1);
                st.add(&format!("keys_in_{}", match pre_state { b'E' => "Entering", b'Y' => "EnteringSyllable", b'S' => "Selecting", _ => "Highlighting" }), 1);
                st.add(&format!("key_result_{:?}", ret), 1);
                if !ev.modifiers.shift && !ev.modifiers.ctrl && !ev.modifiers.capslock && ev.unicode == '\u{FFFD}' && matches!(op, Op::Default(_) | Op::Numlock(_)) {
                    st.add("non_character_keys_through_Default_or_Numlock", 1);
                }
                if let Op::Named(i) = op {
                    if is_idle_key(i) && pre.len == 0 && pre.bopo_check == 0 && pre_state == b'E' {
                        st.add("idle_pass_through_keys", 1);
                    }
                }
                if ret == EditorKeyBehavior::Commit {
                    if post.len > 0 || (pre.len > 0 && op != Op::Named(N_ENTER)) {
                        st.add("auto_commits", 1);
                    } else if pre.len > 0 {
                        st.add("whole_buffer_commits", 1);
                    } else {
                        st.add("direct_commits", 1);
                    }
                }
            }
            if !pre.selecting() && post.selecting() {
                st.add("candidate_lists_opened", 1);
                st.max("longest_candidate_list", post.total_choice as u64);
                if post.total_page > 1 {
                    st.add("candidate_lists_opened_with_several_pages", 1);
                }
            }
            if pre.selecting() && post.selecting() && pre.cur_page != post.cur_page {
                st.add("pages_turned", 1);
            }
            if post.selecting() && post.cur_page > 0 {
                st.add("observations_on_a_later_page", 1);
            }
            let choosing = matches!(op, Op::CandChoose(_)) || (pre.selecting() && matches!(op, Op::Default(k) if pre.selkeys.contains(&k)));
            if choosing && pre.selecting() {
                if pre.persistent_diff(&post).is_some() {
                    st.add("choices_made", 1);
                    if pre.cur_page > 0 {
                        st.add("choices_made_on_a_later_page", 1);
                    }
                } else {
                    st.add("choices_rejected", 1);
                }
            }
            if matches!(op, Op::CommitPreedit) && rc == 0 {
                st.add("whole_buffer_commits", 1);
            }
            st.max("longest_buffer", post.len.max(0) as u64);
            if post.len as usize != post.buf.chars().count() {
                st.add("observations_with_a_spelled_syllable_in_the_display", 1);
            }
            // FX1 (repaired): the routes that used to open an empty list - the symbol table asked for (grave, Ctrl-0/1,
            // Down / cand_open on a character) in a context WITHOUT symbols.dat - are still generated and counted
            if profile.symbols == 2 && !pre.selecting() {
                let asks = matches!(op, Op::Default(96) | Op::CtrlNum(48) | Op::CtrlNum(49) | Op::CandOpen) || matches!(op, Op::Named(_));
                if asks {
                    st.add("calls_that_may_ask_for_a_list_in_a_context_without_symbol_table", 1);
                    if matches!(op, Op::Default(96) | Op::CtrlNum(48) | Op::CtrlNum(49)) {
                        st.add("symbol_table_requests_in_a_context_without_symbol_table", 1);
                        if !post.selecting() {
                            st.add("symbol_table_requests_in_a_context_without_symbol_table_not_opened", 1);
                        }
                    }
                }
            }
            let mut stop = false;
            for (p, msg) in verdicts {
                fail(out, ctl, p, &msg, seed, &profile, &hist);
                stop = true;
            }
            if stop {
                ok = false;
                break;
            }
            pre = post;
        }
    }
    unsafe { chewing_delete(ctx) };
    ok
}

/// one user-phrase call: transcript record (`capiuser add|remove|lookup|enum …`, recomputed by Driver/CApiUser.lean from
/// Model/CApiUser.lean) and the STATEMENTS evaluated on the real C context: `e0` / `e1` = what the real context enumerates
/// before / after the call, `rc` = what the real call returned
#[allow(clippy::too_many_arguments)]
fn user_step(out: &mut Out, st: &mut Stats, ctx: Ctx, tw: &mut Twin, op: &Op, ucall: &Option<(u8, Arg, Arg)>, rc: i32, e0: &[(String, String)], e1: &[(String, String)], v: &mut Vec<String>) {
    use chewing_capi::userphrase::chewing_userphrase_lookup;
    use std::collections::BTreeSet;
    let set = |e: &[(String, String)]| e.iter().cloned().collect::<BTreeSet<_>>();
    let (s0, s1) = (set(e0), set(e1));
    if s0.len() != e0.len() || s1.len() != e1.len() {
        v.push(format!("the enumeration hands out an entry twice: {:?}", if s0.len() != e0.len() { e0 } else { e1 }));
    }
    let Some((kind, p, b)) = ucall else {
        // chewing_userphrase_enumerate: exactly the user dictionary's entries() (the twin's, driven with the same calls)
        let t = set(&twin_user_entries(tw));
        out.rec(&format!("capiuser enum {} => {} {}", twin_user_codes(tw), rc, entries_token(e1)));
        st.add("user_records_enumerate", 1);
        st.max("longest_user_enumeration", e1.len() as u64);
        if t != s1 {
            v.push(format!("the enumeration is not the user dictionary's entries(): C hands out {:?}, entries() of the twin {:?}", s1, t));
        }
        if s0 != s1 || rc != 0 {
            v.push(format!("chewing_userphrase_enumerate is not pure: rc {}, {:?} -> {:?}", rc, s0, s1));
        }
        return;
    };
    let name = ["add", "remove", "lookup"][*kind as usize];
    out.rec(&format!("capiuser {} {} {} {} => {} {}", name, entries_token(e0), arg_token(p), arg_token(b), rc, entries_token(e1)));
    st.add(&format!("user_records_{}", name), 1);
    let (ps, bs) = (arg_str(p), arg_str(b));
    // the harness's own reading of the arguments
    let syls = bs.map(read_bopomofo);
    let key = syls.as_ref().map(|s| s.join(" "));
    let entry = match (ps, &key) {
        (Some(p), Some(k)) => Some((p.to_string(), k.clone())),
        _ => None,
    };
    let lookup_now = |p: &Arg, b: &Arg| -> i32 {
        let pc = p.as_ref().map(|x| std::ffi::CString::new(x.clone()).unwrap());
        let bc = b.as_ref().map(|x| std::ffi::CString::new(x.clone()).unwrap());
        unsafe { chewing_userphrase_lookup(ctx, pc.as_ref().map_or(std::ptr::null(), |c| c.as_ptr()), bc.as_ref().map_or(std::ptr::null(), |c| c.as_ptr())) }
    };
    let n_syl = syls.as_ref().map_or(0, |s| s.len());
    match kind {
        0 => {
            // success exactly for: both strings valid, 1..=11 syllables read, one character per syllable
            let acceptable = entry.is_some() && (1..=11).contains(&n_syl) && ps.map_or(0, |p| p.chars().count()) == n_syl;
            if ps.is_some() && bs.is_some() && ps.map_or(0, |p| p.chars().count()) != n_syl {
                st.add("user_add_calls_with_mismatched_lengths", 1);
            }
            if bs.is_some() && n_syl < bs.unwrap().split_ascii_whitespace().count() {
                st.add("user_add_calls_with_an_unparsable_token", 1);
            }
            if entry.as_ref().is_some_and(|e| s0.contains(e)) {
                st.add("user_add_calls_of_a_phrase_already_there", 1);
            }
            if rc == 1 {
                st.add("user_add_success", 1);
                let e = entry.clone().unwrap_or_default();
                if !acceptable {
                    v.push(format!("{} returned 1 (success) for arguments that cannot be honoured: {} syllables read, phrase {:?}", op.text(), n_syl, ps));
                } else {
                    let mut want = s0.clone();
                    want.insert(e.clone());
                    if s1 != want {
                        v.push(format!("after {} returned 1 the enumeration is {:?}, expected the former entries plus {:?}", op.text(), s1, e));
                    }
                    if lookup_now(p, b) != 1 {
                        v.push(format!("after {} returned 1, chewing_userphrase_lookup of the same arguments does not return 1", op.text()));
                    }
                }
            } else {
                st.add("user_add_refused", 1);
                if acceptable {
                    v.push(format!("{} returned {} for a well-formed request", op.text(), rc));
                }
                if s1 != s0 {
                    v.push(format!("{} returned {} (refused) but the user dictionary changed: {:?} -> {:?}", op.text(), rc, s0, s1));
                }
                if !matches!(rc, 0 | -1) {
                    v.push(format!("{} returned {}", op.text(), rc));
                }
            }
        }
        1 => {
            let present = entry.as_ref().is_some_and(|e| s0.contains(e));
            if rc == 1 {
                st.add("user_remove_success", 1);
                let e = entry.clone().unwrap_or_default();
                let mut want = s0.clone();
                want.remove(&e);
                if !present {
                    v.push(format!("{} returned 1 (removed) although the phrase was not in the user dictionary {:?}", op.text(), s0));
                } else if s1 != want {
                    v.push(format!("after {} returned 1 the enumeration is {:?}, expected {:?}", op.text(), s1, want));
                } else if lookup_now(p, b) != 0 {
                    v.push(format!("after {} returned 1, chewing_userphrase_lookup of the same arguments still returns 1", op.text()));
                }
            } else {
                st.add("user_remove_refused", 1);
                if present {
                    v.push(format!("{} returned {} although the phrase is in the user dictionary", op.text(), rc));
                }
                if s1 != s0 {
                    v.push(format!("{} returned {} (nothing removed) but the user dictionary changed: {:?} -> {:?}", op.text(), rc, s0, s1));
                }
            }
        }
        _ => {
            let want = match (&key, ps) {
                (None, _) => 0,
                (Some(k), Some(p)) => s0.contains(&(p.to_string(), k.clone())) as i32,
                // a NULL / non-UTF-8 phrase: "any phrase of these syllables"
                (Some(k), None) => s0.iter().any(|(_, kk)| kk == k) as i32,
            };
            st.add(if rc == 1 { "user_lookup_found" } else { "user_lookup_not_found" }, 1);
            if rc != want {
                v.push(format!("{} returned {}, the user dictionary {:?} says {}", op.text(), rc, s0, want));
            }
            if s1 != s0 {
                v.push(format!("{} is not pure: {:?} -> {:?}", op.text(), s0, s1));
            }
            if lookup_now(p, b) != rc {
                v.push(format!("{} asked twice gives two answers", op.text()));
            }
        }
    }
}

fn trace_seed(seed: u64, t: u64) -> u64 {
    seed.wrapping_mul(7_000_003).wrapping_add(t) ^ 0xCA91
}

fn cum_line(st: &Stats) -> String {
    let mut o = String::from("@cum");
    for (k, v) in &st.0 {
        o.push_str(&format!(" {}={}", k, v));
    }
    o
}

fn worker(from: u64, to: u64, n_calls: usize) {
    let mut out = Out::new();
    let mut ctl = Ctl { emitted: BTreeMap::new() };
    let mut st = Stats(BTreeMap::new());
    let seed = seed_from_env();
    for t in from..to {
        println!("@trace {}", t);
        if !trace(&mut out, &mut ctl, trace_seed(seed, t), n_calls, &mut st, false) {
            st.add("histories_ended_by_a_verdict", 1);
        }
        out.flush();
        println!("{}", cum_line(&st));
    }
    out.flush();
}

fn main() {
    let args: Vec<String> = std::env::args().collect();
    let arg = |name: &str| -> Option<u64> { args.iter().position(|a| a == name).and_then(|i| args.get(i + 1)).and_then(|v| v.parse().ok()) };
    let n_calls = arg("--calls").unwrap_or(40) as usize;
    if let Some(s) = arg("--replay") {
        let mut out = Out::new();
        let mut ctl = Ctl { emitted: BTreeMap::new() };
        let mut st = Stats(BTreeMap::new());
        trace(&mut out, &mut ctl, s, n_calls, &mut st, true);
        return;
    }
    if args.len() >= 4 && args[1] == "--worker" {
        worker(args[2].parse().unwrap(), args[3].parse().unwrap(), n_calls);
        return;
    }
    let total: u64 = arg("--histories").unwrap_or(if tier_is_thorough() { 6000 } else { 300 });
    let exe = std::env::current_exe().unwrap();
    let stdout = std::io::stdout();
    let mut out = stdout.lock();
    let mut stats: BTreeMap<String, u64> = BTreeMap::new();
    let seed = seed_from_env();
    let mut from = 0u64;
    let mut aborts = 0u64;
    while from < total {
        let mut child = Command::new(&exe)
            .args(["--worker", &from.to_string(), &total.to_string(), "--calls", &n_calls.to_string()])
            .stdout(Stdio::piped())
            .stderr(Stdio::null())
            .spawn()
            .expect("spawn worker");
        let rd = BufReader::new(child.stdout.take().unwrap());
        let mut current = from;
        let mut cum = String::new();
        for line in rd.split(b'\n') {
            let line = String::from_utf8_lossy(&line.unwrap()).to_string();
            if let Some(t) = line.strip_prefix("@trace ") {
                current = t.trim().parse().unwrap_or(current);
            } else if let Some(c) = line.strip_prefix("@cum ") {
                cum = c.to_string();
            } else if !line.is_empty() {
                writeln!(out, "{}", line).unwrap();
            }
        }
        let status = child.wait().unwrap();
        for kv in cum.split(' ') {
            if let Some((k, v)) = kv.split_once('=') {
                let v = v.parse::<u64>().unwrap_or(0);
                let e = stats.entry(k.to_string()).or_insert(0);
                if k.starts_with("longest_") { *e = (*e).max(v) } else { *e += v }
            }
        }
        if status.success() {
            break;
        }
        // the worker died inside the C API or the twin editor (abort / panic): crashes are C01's subject
        aborts += 1;
        if aborts <= 3 {
            writeln!(out, "#sample worker died in history {} (replay: capi_props --replay {})", current, trace_seed(seed, current)).unwrap();
        }
        from = current + 1;
        if aborts > 40 + total / 10 {
            writeln!(out, "#stat abandoned_after_too_many_aborts 1").unwrap();
            break;
        }
    }
    let handlers: Vec<(&String, &u64)> = stats.iter().filter(|(k, _)| k.starts_with("h.")).collect();
    writeln!(out, "#stat handlers_hit {}", handlers.len()).unwrap();
    writeln!(out, "#stat handlers_known {}", ALL_HANDLERS).unwrap();
    if let Some((k, v)) = handlers.iter().min_by_key(|(_, v)| **v) {
        writeln!(out, "#stat least_hit_handler_calls {}", v).unwrap();
        writeln!(out, "#sample least hit handler: {} ({} calls)", &k[2..], v).unwrap();
    }
    writeln!(out, "#sample calls per handler: {}", handlers.iter().map(|(k, v)| format!("{}={}", &k[2..], v)).collect::<Vec<_>>().join(" ")).unwrap();
    for (k, v) in &stats {
        if !k.starts_with("h.") {
            writeln!(out, "#stat {} {}", k, v).unwrap();
        }
    }
    writeln!(out, "#stat worker_aborts {}", aborts).unwrap();
    out.flush().unwrap();
}
