//! The observation of a C context (every getter the four properties name, plus the modes) and the SAME
//! observation predicted from the twin editor's Rust getters ("glue model").  By-design differences between a
//! C getter and the Rust getter it stands for are written out here, one by one:
//!   * `*_String_static` = the heap variant cut to the context's fixed buffer (255 bytes, bopomofo 15) at a
//!     character boundary (C15);
//!   * `chewing_cand_Enumerate` + `hasNext`/`String` is a stateful iterator over `paginated_candidates()`, i.e.
//!     from the first item of the CURRENT page to the end of the list (C17: a query of its own slot); outside
//!     Selecting `hasNext` answers 0;
//!   * `chewing_interval_Enumerate` lists the phrase intervals only;
//!   * all `chewing_cand_*` counters answer 0 while no list is open, `ChoicePerPage` always the option;
//!   * `chewing_zuin_Check` is the legacy INVERTED `chewing_bopomofo_Check`; `chewing_zuin_String` also counts;
//!   * `chewing_commit_Check`/`String` read the commit buffer, which `chewing_ack` empties;
//!   * there is no getter for Bell: it shows as "neither ignored nor absorbed nor committed".
use crate::ops::*;
use chewing::conversion::Symbol;
use chewing::editor::{CharacterForm, ConversionEngineKind, EditorKeyBehavior, LanguageMode, UserPhraseAddDirection};
use chewing_capi::candidates::*;
use chewing_capi::globals::*;
use chewing_capi::layout::*;
use chewing_capi::modes::*;
use chewing_capi::output::*;
use chewing_capi::setup::*;
use chewing_capi::userphrase::*;
use std::ffi::{c_char, c_int, c_uint, c_void, CStr, CString};

#[derive(Clone, Debug, Default, PartialEq)]
pub struct Obs {
    pub commit_check: i32,
    pub commit: String,
    pub commit_static: String,
    pub buf: String,
    pub buf_static: String,
    pub buf_check: i32,
    pub len: i32,
    pub cursor: i32,
    pub phone: Vec<u16>,
    pub phone_len: i32,
    pub bopo: String,
    pub bopo_static: String,
    pub bopo_check: i32,
    pub zuin_check: i32,
    pub zuin: String,
    pub zuin_count: i32,
    pub aux_check: i32,
    pub aux_len: i32,
    pub aux: String,
    pub aux_static: String,
    pub ignore: i32,
    pub absorb: i32,
    pub check_done: i32,
    pub total_page: i32,
    pub per_page: i32,
    pub total_choice: i32,
    pub cur_page: i32,
    pub list: Vec<String>,
    pub list_static: Vec<String>,
    pub list_beyond: Vec<String>,
    pub enumd: Vec<String>,
    pub has_next: i32,
    pub has_prev: i32,
    pub intervals: Vec<(i32, i32)>,
    /// ChiEng Shape KBType candPerPage maxChiSymbolLen addPhraseDirection spaceAsSelection escCleanAllBuf autoShiftCur
    /// easySymbolInput phraseChoiceRearward autoLearn conversion_engine enable_fullwidth_toggle_key
    pub modes: Vec<i32>,
    pub selkeys: Vec<i32>,
    pub user: Vec<(String, String)>,
}

pub const FIELDS: usize = 37;

unsafe fn owned(p: *mut c_char) -> String {
    if p.is_null() {
        return "<NULL>".into();
    }
    let s = unsafe { CStr::from_ptr(p) }.to_string_lossy().into_owned();
    unsafe { chewing_free(p as *mut c_void) };
    s
}

unsafe fn borrowed(p: *const c_char) -> String {
    if p.is_null() {
        return "<NULL>".into();
    }
    unsafe { CStr::from_ptr(p) }.to_string_lossy().into_owned()
}

fn cfg_int(ctx: Ctx, name: &str) -> i32 {
    let n = CString::new(name).unwrap();
    unsafe { chewing_config_get_int(ctx, n.as_ptr()) }
}

/// every getter of the context, each called once (the enumerations as the documented loop)
pub unsafe fn observe_c(ctx: Ctx) -> Obs {
    unsafe {
        let mut o = Obs::default();
        o.commit_check = chewing_commit_Check(ctx);
        o.commit = owned(chewing_commit_String(ctx));
        o.commit_static = borrowed(chewing_commit_String_static(ctx));
        o.buf = owned(chewing_buffer_String(ctx));
        o.buf_static = borrowed(chewing_buffer_String_static(ctx));
        o.buf_check = chewing_buffer_Check(ctx);
        o.len = chewing_buffer_Len(ctx);
        o.cursor = chewing_cursor_Current(ctx);
        o.phone_len = chewing_get_phoneSeqLen(ctx);
        let p = chewing_get_phoneSeq(ctx);
        if !p.is_null() {
            for j in 0..o.phone_len.max(0) as usize {
                o.phone.push(*p.add(j));
            }
            chewing_free(p as *mut c_void);
        }
        o.bopo = owned(chewing_bopomofo_String(ctx));
        o.bopo_static = borrowed(chewing_bopomofo_String_static(ctx));
        o.bopo_check = chewing_bopomofo_Check(ctx);
        o.zuin_check = chewing_zuin_Check(ctx);
        let mut n: c_int = -7;
        o.zuin = owned(chewing_zuin_String(ctx, &mut n));
        o.zuin_count = n;
        o.aux_check = chewing_aux_Check(ctx);
        o.aux_len = chewing_aux_Length(ctx);
        o.aux = owned(chewing_aux_String(ctx));
        o.aux_static = borrowed(chewing_aux_String_static(ctx));
        o.ignore = chewing_keystroke_CheckIgnore(ctx);
        o.absorb = chewing_keystroke_CheckAbsorb(ctx);
        o.check_done = chewing_cand_CheckDone(ctx);
        o.total_page = chewing_cand_TotalPage(ctx);
        o.per_page = chewing_cand_ChoicePerPage(ctx);
        o.total_choice = chewing_cand_TotalChoice(ctx);
        o.cur_page = chewing_cand_CurrentPage(ctx);
        for i in 0..o.total_choice.max(0) {
            o.list.push(owned(chewing_cand_string_by_index(ctx, i)));
            o.list_static.push(borrowed(chewing_cand_string_by_index_static(ctx, i)));
        }
        for i in [-1, o.total_choice.max(0), o.total_choice.max(0) + 7] {
            o.list_beyond.push(owned(chewing_cand_string_by_index(ctx, i)));
        }
        chewing_cand_Enumerate(ctx);
        let mut guard = 0;
        while chewing_cand_hasNext(ctx) == 1 && guard < 100_000 {
            o.enumd.push(owned(chewing_cand_String(ctx)));
            guard += 1;
        }
        o.has_next = chewing_cand_list_has_next(ctx);
        o.has_prev = chewing_cand_list_has_prev(ctx);
        chewing_interval_Enumerate(ctx);
        guard = 0;
        while chewing_interval_hasNext(ctx) == 1 && guard < 1000 {
            let mut it = IntervalType { from: -1, to: -1 };
            chewing_interval_Get(ctx, &mut it);
            o.intervals.push((it.from, it.to));
            guard += 1;
        }
        o.modes = vec![
            chewing_get_ChiEngMode(ctx),
            chewing_get_ShapeMode(ctx),
            chewing_get_KBType(ctx),
            chewing_get_candPerPage(ctx),
            chewing_get_maxChiSymbolLen(ctx),
            chewing_get_addPhraseDirection(ctx),
            chewing_get_spaceAsSelection(ctx),
            chewing_get_escCleanAllBuf(ctx),
            chewing_get_autoShiftCur(ctx),
            chewing_get_easySymbolInput(ctx),
            chewing_get_phraseChoiceRearward(ctx),
            chewing_get_autoLearn(ctx),
            cfg_int(ctx, "chewing.conversion_engine"),
            cfg_int(ctx, "chewing.enable_fullwidth_toggle_key"),
        ];
        let p = chewing_get_selKey(ctx);
        if !p.is_null() {
            for j in 0..10 {
                o.selkeys.push(*p.add(j));
            }
        }
        chewing_userphrase_enumerate(ctx);
        let (mut pl, mut bl): (c_uint, c_uint) = (0, 0);
        guard = 0;
        while chewing_userphrase_has_next(ctx, &mut pl, &mut bl) == 1 && guard < 10_000 {
            let mut pb = vec![0u8; pl as usize + 1];
            let mut bb = vec![0u8; bl as usize + 1];
            chewing_userphrase_get(ctx, pb.as_mut_ptr().cast(), pb.len() as c_uint, bb.as_mut_ptr().cast(), bb.len() as c_uint);
            o.user.push((borrowed(pb.as_ptr().cast()), borrowed(bb.as_ptr().cast())));
            guard += 1;
        }
        o
    }
}

/// what fits a fixed buffer of `cap` bytes: at most cap-1 bytes, never a partial character
pub fn cut(s: &str, cap: usize) -> String {
    let mut n = s.len().min(cap - 1);
    while !s.is_char_boundary(n) {
        n -= 1;
    }
    s[..n].to_string()
}

/// the observation the C getters must give if they are the thin wrappers they are documented to be
pub fn observe_twin(tw: &mut Twin) -> Obs {
    let ed = &mut tw.ed;
    let mut o = Obs::default();
    o.commit = ed.display_commit().to_string();
    o.commit_check = !o.commit.is_empty() as i32;
    o.commit_static = cut(&o.commit, 256);
    o.buf = ed.display();
    o.buf_static = cut(&o.buf, 256);
    o.buf_check = !ed.is_empty() as i32;
    o.len = ed.len() as i32;
    o.cursor = ed.cursor() as i32;
    o.phone = ed.symbols().iter().filter_map(|s| s.to_syllable()).map(|s| s.to_u16()).collect();
    o.phone_len = o.phone.len() as i32;
    o.bopo = ed.syllable_buffer_display();
    o.bopo_static = cut(&o.bopo, 16);
    o.bopo_check = ed.entering_syllable() as i32;
    o.zuin_check = o.bopo_check ^ 1;
    o.zuin = o.bopo.clone();
    o.zuin_count = o.bopo.chars().count() as i32;
    o.aux = ed.notification().to_string();
    o.aux_check = !o.aux.is_empty() as i32;
    o.aux_len = o.aux.chars().count() as i32;
    o.aux_static = cut(&o.aux, 256);
    let b = ed.last_key_behavior();
    o.ignore = (b == EditorKeyBehavior::Ignore) as i32;
    o.absorb = (b == EditorKeyBehavior::Absorb) as i32;
    let sel = ed.is_selecting();
    o.check_done = !sel as i32;
    let opts = ed.editor_options();
    o.per_page = opts.candidates_per_page as i32;
    if sel {
        o.total_page = ed.total_page().unwrap_or(0) as i32;
        o.cur_page = ed.current_page_no().unwrap_or(0) as i32;
        o.list = ed.all_candidates().unwrap_or_default();
        o.total_choice = o.list.len() as i32;
        o.list_static = o.list.iter().map(|s| cut(s, 256)).collect();
        o.enumd = ed.paginated_candidates().unwrap_or_default();
        o.has_next = ed.has_next_selection_point() as i32;
        o.has_prev = ed.has_prev_selection_point() as i32;
    }
    o.list_beyond = vec![String::new(); 3];
    o.intervals = ed.intervals().filter(|i| i.is_phrase).map(|i| (i.start as i32, i.end as i32)).collect();
    o.modes = vec![
        (opts.language_mode == LanguageMode::Chinese) as i32,
        (opts.character_form == CharacterForm::Fullwidth) as i32,
        tw.kb_id,
        opts.candidates_per_page as i32,
        opts.auto_commit_threshold as i32,
        (opts.user_phrase_add_dir == UserPhraseAddDirection::Backward) as i32,
        opts.space_is_select_key as i32,
        opts.esc_clear_all_buffer as i32,
        opts.auto_shift_cursor as i32,
        opts.easy_symbol_input as i32,
        opts.phrase_choice_rearward as i32,
        opts.disable_auto_learn_phrase as i32,
        match opts.conversion_engine {
            ConversionEngineKind::SimpleEngine => 0,
            ConversionEngineKind::ChewingEngine => 1,
            ConversionEngineKind::FuzzyChewingEngine => 2,
        },
        opts.enable_fullwidth_toggle_key as i32,
    ];
    o.selkeys = tw.sel_keys.to_vec();
    o.user = ed
        .user_dict()
        .entries()
        .map(|(syls, ph)| (ph.as_str().to_string(), syls.iter().map(|s| s.to_string()).collect::<Vec<_>>().join(" ")))
        .collect();
    o
}

// ---------------------------------------------------------------------------------------------------------------
// transcript records of the getter model (work package capiget; Driver/CApiGetters.lean)

fn hxs(v: &[String]) -> String {
    format!("L{}", v.iter().map(|s| vharness::hx(s)).collect::<Vec<_>>().join(","))
}

fn opt_list(r: Option<Vec<String>>) -> String {
    match r {
        Some(v) => hxs(&v),
        None => "-".into(),
    }
}

/// the 14 `EditorOptions` fields in the encoding of Model/Config.lean (bool 0/1, usize, enum = variant index)
fn options_numbers(o: &chewing::editor::EditorOptions) -> String {
    use chewing::dictionary::LookupStrategy;
    let v: Vec<usize> = vec![
        o.easy_symbol_input as usize,
        o.esc_clear_all_buffer as usize,
        o.space_is_select_key as usize,
        o.auto_shift_cursor as usize,
        o.phrase_choice_rearward as usize,
        o.disable_auto_learn_phrase as usize,
        o.auto_commit_threshold,
        o.candidates_per_page,
        match o.language_mode {
            LanguageMode::Chinese => 0,
            LanguageMode::English => 1,
        },
        match o.character_form {
            CharacterForm::Halfwidth => 0,
            CharacterForm::Fullwidth => 1,
        },
        match o.user_phrase_add_dir {
            UserPhraseAddDirection::Forward => 0,
            UserPhraseAddDirection::Backward => 1,
        },
        match o.lookup_strategy {
            LookupStrategy::Standard => 0,
            LookupStrategy::FuzzyPartialPrefix => 1,
        },
        match o.conversion_engine {
            ConversionEngineKind::SimpleEngine => 0,
            ConversionEngineKind::ChewingEngine => 1,
            ConversionEngineKind::FuzzyChewingEngine => 2,
        },
        o.enable_fullwidth_toggle_key as usize,
    ];
    v.iter().map(|n| n.to_string()).collect::<Vec<_>>().join(",")
}

/// `capiget obs <the answers of the twin editor's Rust getters> => <what the REAL C getters returned>`: the Lean getter
/// model (Model/CApiGetters.lean) recomputes the right-hand side from the left-hand side.
pub fn capiget_record(tw: &mut Twin, c: &Obs) -> String {
    let ed = &mut tw.ed;
    let hx = vharness::hx;
    let facts = vec![
        hx(&ed.display()),
        ed.len().to_string(),
        (ed.is_empty() as u8).to_string(),
        ed.cursor().to_string(),
        hx(ed.display_commit()),
        hx(ed.notification()),
        hx(&ed.syllable_buffer_display()),
        (ed.entering_syllable() as u8).to_string(),
        (ed.is_selecting() as u8).to_string(),
        opt_list(ed.all_candidates().ok()),
        opt_list(ed.paginated_candidates().ok()),
        vharness::opt(ed.total_page().ok()),
        vharness::opt(ed.current_page_no().ok()),
        (ed.has_next_selection_point() as u8).to_string(),
        (ed.has_prev_selection_point() as u8).to_string(),
        format!("I{}", ed.intervals().map(|i| format!("{}:{}:{}", i.start, i.end, i.is_phrase as u8)).collect::<Vec<_>>().join(",")),
        format!("{:?}", ed.last_key_behavior()),
        options_numbers(&ed.editor_options()),
        format!("P{}", ed.symbols().iter().filter_map(|s| s.to_syllable()).map(|s| s.to_u16().to_string()).collect::<Vec<_>>().join(",")),
    ];
    let m = &c.modes;
    let legacy = [m[0], m[1], m[3], m[4], m[5], m[6], m[7], m[8], m[9], m[10], m[11]];
    let vals = vec![
        format!("commit_Check={}", c.commit_check),
        format!("commit_String={}", hx(&c.commit)),
        format!("commit_String_static={}", hx(&c.commit_static)),
        format!("buffer_String={}", hx(&c.buf)),
        format!("buffer_String_static={}", hx(&c.buf_static)),
        format!("buffer_Check={}", c.buf_check),
        format!("buffer_Len={}", c.len),
        format!("cursor_Current={}", c.cursor),
        format!("bopomofo_String={}", hx(&c.bopo)),
        format!("bopomofo_String_static={}", hx(&c.bopo_static)),
        format!("bopomofo_Check={}", c.bopo_check),
        format!("aux_Check={}", c.aux_check),
        format!("aux_Length={}", c.aux_len),
        format!("aux_String={}", hx(&c.aux)),
        format!("aux_String_static={}", hx(&c.aux_static)),
        format!("CheckIgnore={}", c.ignore),
        format!("CheckAbsorb={}", c.absorb),
        format!("cand_CheckDone={}", c.check_done),
        format!("cand_TotalPage={}", c.total_page),
        format!("cand_ChoicePerPage={}", c.per_page),
        format!("cand_TotalChoice={}", c.total_choice),
        format!("cand_CurrentPage={}", c.cur_page),
        format!("by_index={}", hxs(&c.list)),
        format!("by_index_static={}", hxs(&c.list_static)),
        format!("by_index_beyond={}", hxs(&c.list_beyond)),
        format!("cand_Enumerate={}", hxs(&c.enumd)),
        format!("list_has_next={}", c.has_next),
        format!("list_has_prev={}", c.has_prev),
        format!("intervals=I{}", c.intervals.iter().map(|(a, b)| format!("{}:{}", a, b)).collect::<Vec<_>>().join(",")),
        format!("modes={}", legacy.iter().map(|n| n.to_string()).collect::<Vec<_>>().join(",")),
        format!("zuin_Check={}", c.zuin_check),
        format!("zuin_String={}", hx(&c.zuin)),
        format!("zuin_count={}", c.zuin_count),
        format!("phoneSeqLen={}", c.phone_len),
        format!("phoneSeq=P{}", c.phone.iter().map(|n| n.to_string()).collect::<Vec<_>>().join(",")),
    ];
    format!("capiget obs {} => {}", facts.join(" "), vals.join(" "))
}

/// the pre-edit buffer of the twin as tokens: `s<syllable code>` / `c<character>`
pub fn tokens(tw: &Twin) -> Vec<String> {
    tw.ed
        .symbols()
        .iter()
        .map(|s| match s {
            Symbol::Syllable(x) => format!("s{}", x.to_u16()),
            Symbol::Char(c) => format!("c{}", c),
        })
        .collect()
}

/// first field in which two observations differ: (getter, C value, expected value, property it is observed for)
pub fn diff(c: &Obs, t: &Obs) -> Option<(&'static str, String, String, &'static str)> {
    macro_rules! f {
        ($field:ident, $name:expr, $prop:expr) => {
            if c.$field != t.$field {
                return Some(($name, format!("{:?}", c.$field), format!("{:?}", t.$field), $prop));
            }
        };
    }
    f!(ignore, "chewing_keystroke_CheckIgnore", "C06");
    f!(absorb, "chewing_keystroke_CheckAbsorb", "C06");
    f!(commit_check, "chewing_commit_Check", "C02");
    f!(commit, "chewing_commit_String", "C02");
    f!(commit_static, "chewing_commit_String_static", "C02");
    f!(len, "chewing_buffer_Len", "C05");
    f!(cursor, "chewing_cursor_Current", "C05");
    f!(buf, "chewing_buffer_String", "C05");
    f!(buf_static, "chewing_buffer_String_static", "C05");
    f!(buf_check, "chewing_buffer_Check", "C05");
    f!(phone_len, "chewing_get_phoneSeqLen", "C05");
    f!(phone, "chewing_get_phoneSeq", "C05");
    f!(bopo_check, "chewing_bopomofo_Check", "C06");
    f!(bopo, "chewing_bopomofo_String", "C06");
    f!(bopo_static, "chewing_bopomofo_String_static", "C06");
    f!(zuin_check, "chewing_zuin_Check", "C06");
    f!(zuin, "chewing_zuin_String", "C06");
    f!(zuin_count, "chewing_zuin_String(count)", "C06");
    f!(aux_check, "chewing_aux_Check", "C06");
    f!(aux_len, "chewing_aux_Length", "C06");
    f!(aux, "chewing_aux_String", "C06");
    f!(aux_static, "chewing_aux_String_static", "C06");
    f!(check_done, "chewing_cand_CheckDone", "C07");
    f!(total_page, "chewing_cand_TotalPage", "C07");
    f!(per_page, "chewing_cand_ChoicePerPage", "C07");
    f!(total_choice, "chewing_cand_TotalChoice", "C07");
    f!(cur_page, "chewing_cand_CurrentPage", "C07");
    f!(list, "chewing_cand_string_by_index(0..TotalChoice)", "C07");
    f!(list_static, "chewing_cand_string_by_index_static(0..TotalChoice)", "C07");
    f!(list_beyond, "chewing_cand_string_by_index(-1, TotalChoice, TotalChoice+7)", "C07");
    f!(enumd, "chewing_cand_Enumerate/hasNext/String", "C07");
    f!(has_next, "chewing_cand_list_has_next", "C07");
    f!(has_prev, "chewing_cand_list_has_prev", "C07");
    f!(intervals, "chewing_interval_Enumerate/hasNext/Get", "C06");
    f!(modes, "chewing_get_* (ChiEng Shape KBType candPerPage maxChiSymbolLen addPhraseDirection spaceAsSelection escCleanAllBuf autoShiftCur easySymbolInput phraseChoiceRearward autoLearn conversion_engine fullwidth_toggle)", "C06");
    f!(selkeys, "chewing_get_selKey", "C07");
    f!(user, "chewing_userphrase_enumerate/has_next/get", "C06");
    None
}

impl Obs {
    /// everything except the per-key outputs (key result flags, commit string, notice)
    pub fn persistent_diff(&self, other: &Obs) -> Option<&'static str> {
        let mut a = self.clone();
        let b = other;
        a.commit_check = b.commit_check;
        a.commit = b.commit.clone();
        a.commit_static = b.commit_static.clone();
        a.aux_check = b.aux_check;
        a.aux_len = b.aux_len;
        a.aux = b.aux.clone();
        a.aux_static = b.aux_static.clone();
        a.ignore = b.ignore;
        a.absorb = b.absorb;
        diff(&a, b).map(|d| d.0)
    }
    pub fn selecting(&self) -> bool {
        self.check_done == 0
    }
}
