//! Contexts, the twin editor and the operations of `capi_props` (see ../capi_props.rs).
//!
//! The TWIN is a `chewing::editor::Editor` built through the public loaders over the same data directory as
//! the C context (own in-memory user dictionary) and driven in lock-step: every `chewing_handle_*` call is
//! mirrored by ONE `process_keyevent` with the key event the documentation of the handler names (table
//! `named_key`, written from doc/libchewing.texi, not from capi/src/io.rs), every other call by the
//! `Editor` method the C function is documented to stand for.
use chewing::conversion::{ChewingEngine, FuzzyChewingEngine, SimpleEngine};
use chewing::dictionary::{Dictionary, Layered, LookupStrategy, SystemDictionaryLoader, Trie, UserDictionaryLoader};
use chewing::editor::keyboard::{AnyKeyboardLayout, KeyCode, KeyEvent, KeyboardLayout, Modifiers};
use chewing::editor::zhuyin_layout::{DaiChien26, Et, Et26, GinYieh, Hsu, Ibm, Pinyin, Standard, SyllableEditor};
use chewing::editor::{
    AbbrevTable, BasicEditor, CharacterForm, ConversionEngineKind, Editor, EditorKeyBehavior, LanguageMode,
    LaxUserFreqEstimate, SymbolSelector, UserPhraseAddDirection,
};
use chewing::zhuyin::Syllable;
use chewing_capi::candidates::*;
use chewing_capi::globals::*;
use chewing_capi::input::*;
use chewing_capi::layout::*;
use chewing_capi::modes::*;
use chewing_capi::output::*;
use chewing_capi::setup::*;
use chewing_capi::userphrase::*;
use std::ffi::{c_int, CString};
use vharness::Rng;

pub type Ctx = *mut ChewingContext;

// ------------------------------------------------------------------ data directories

pub struct Home {
    pub _dir: tempfile::TempDir,
    pub sys: String,
    pub user: String,
}

#[derive(Clone, Debug)]
pub struct Profile {
    /// 0 tests/data, 1 none (built-in single-character dictionary), 2 generated (many homophones, phrases)
    pub dict: u8,
    /// 0 tests/data symbols.dat, 1 own table, 2 absent
    pub symbols: u8,
    /// 0 tests/data swkb.dat, 1 own table, 2 absent
    pub swkb: u8,
}

impl Profile {
    pub fn gen(rng: &mut Rng) -> Profile {
        Profile { dict: rng.weighted(&[3, 3, 4]) as u8, symbols: rng.weighted(&[4, 2, 1]) as u8, swkb: rng.weighted(&[3, 3, 1]) as u8 }
    }
    pub fn text(&self) -> String {
        format!(
            "{{dictionaries:{} symbols.dat:{} swkb.dat:{}}}",
            ["tests/data", "none(built-in)", "generated"][self.dict as usize],
            ["tests/data", "own-table", "absent"][self.symbols as usize],
            ["tests/data", "own-table(Q甲 W乙 A丙丁 L Zzz M ？！)", "absent"][self.swkb as usize]
        )
    }
}

const SYMBOLS_1: &str = "★\n箭頭=←→↑↓\n星號=☆※\n括號=（）「」『』【】〔〕\n";
const SWKB_1: &str = "Q 甲\nW 乙\nA 丙丁\nL Zzz\nM ？！\n";

fn write_trie(path: &std::path::Path, entries: &[(&str, &str, u32)]) {
    use chewing::dictionary::{DictionaryBuilder, Phrase, TrieBuilder};
    let mut b = TrieBuilder::new();
    for (phrase, bopomofo, freq) in entries {
        let syls: Vec<Syllable> = bopomofo.split(' ').map(|s| s.parse().unwrap()).collect();
        b.insert(&syls, Phrase::new(*phrase, *freq)).unwrap();
    }
    let mut buf = vec![];
    b.write(&mut buf).unwrap();
    std::fs::write(path, buf).unwrap();
}

pub fn repo() -> String {
    std::env::var("VERIF_REPO").unwrap_or_else(|_| "/repo".into())
}

pub fn profile_home(p: &Profile) -> Home {
    let dir = tempfile::tempdir().unwrap();
    let data = std::path::PathBuf::from(format!("{}/tests/data", repo()));
    let sys = dir.path().join("sys");
    let usr = dir.path().join("user");
    std::fs::create_dir_all(&sys).unwrap();
    std::fs::create_dir_all(&usr).unwrap();
    match p.dict {
        0 => {
            std::fs::copy(data.join("word.dat"), sys.join("word.dat")).unwrap();
            std::fs::copy(data.join("tsi.dat"), sys.join("tsi.dat")).unwrap();
        }
        1 => {}
        _ => {
            // 13 words for ㄘㄜˋ (two pages at 10 per page, 13 at 1), several for the others; phrases of 2 and 3
            write_trie(
                &sys.join("word.dat"),
                &[
                    ("測", "ㄘㄜˋ", 1300), ("冊", "ㄘㄜˋ", 1200), ("側", "ㄘㄜˋ", 1100), ("策", "ㄘㄜˋ", 1000), ("廁", "ㄘㄜˋ", 900),
                    ("惻", "ㄘㄜˋ", 800), ("筴", "ㄘㄜˋ", 700), ("畟", "ㄘㄜˋ", 600), ("茦", "ㄘㄜˋ", 500), ("萴", "ㄘㄜˋ", 400),
                    ("粣", "ㄘㄜˋ", 300), ("萗", "ㄘㄜˋ", 200), ("拺", "ㄘㄜˋ", 100),
                    ("是", "ㄕˋ", 1000), ("市", "ㄕˋ", 900), ("事", "ㄕˋ", 800), ("試", "ㄕˋ", 700), ("室", "ㄕˋ", 600),
                    ("你", "ㄋㄧˇ", 500), ("擬", "ㄋㄧˇ", 100), ("好", "ㄏㄠˇ", 500), ("郝", "ㄏㄠˇ", 10), ("我", "ㄨㄛˇ", 700),
                    ("新", "ㄒㄧㄣ", 600), ("心", "ㄒㄧㄣ", 500), ("酷", "ㄎㄨˋ", 300), ("音", "ㄧㄣ", 300), ("因", "ㄧㄣ", 200),
                ],
            );
            write_trie(
                &sys.join("tsi.dat"),
                &[
                    ("測試", "ㄘㄜˋ ㄕˋ", 900), ("策士", "ㄘㄜˋ ㄕˋ", 500), ("側室", "ㄘㄜˋ ㄕˋ", 100), ("你好", "ㄋㄧˇ ㄏㄠˇ", 900),
                    ("是是", "ㄕˋ ㄕˋ", 3), ("事事側", "ㄕˋ ㄕˋ ㄘㄜˋ", 70), ("新酷音", "ㄒㄧㄣ ㄎㄨˋ ㄧㄣ", 800), ("心因", "ㄒㄧㄣ ㄧㄣ", 20),
                ],
            );
        }
    }
    match p.symbols {
        0 => drop(std::fs::copy(data.join("symbols.dat"), sys.join("symbols.dat")).unwrap()),
        1 => std::fs::write(sys.join("symbols.dat"), SYMBOLS_1).unwrap(),
        _ => {}
    }
    match p.swkb {
        0 => drop(std::fs::copy(data.join("swkb.dat"), sys.join("swkb.dat")).unwrap()),
        1 => std::fs::write(sys.join("swkb.dat"), SWKB_1).unwrap(),
        _ => {}
    }
    Home { sys: sys.display().to_string(), user: usr.join(":memory:").display().to_string(), _dir: dir }
}

pub fn new_ctx(h: &Home) -> Ctx {
    let (s, u) = (CString::new(h.sys.clone()).unwrap(), CString::new(h.user.clone()).unwrap());
    unsafe { chewing_new2(s.as_ptr(), u.as_ptr(), None, std::ptr::null_mut()) }
}

// ------------------------------------------------------------------ the twin editor

pub struct Twin {
    pub ed: Editor,
    pub kb: AnyKeyboardLayout,
    pub kb_id: i32,
    pub sel_keys: [i32; 10],
}

/// `chewing_new2` in the words of its documentation: system dictionaries of the search path (the built-in
/// dictionary when there are none), drop-in dictionaries, abbreviation and symbol tables (empty when absent),
/// the user dictionary of the user path, default layout and options.
pub fn new_twin(h: &Home) -> Twin {
    let loader = SystemDictionaryLoader::new().sys_path(h.sys.clone());
    let dicts: Vec<Box<dyn Dictionary>> = match loader.load() {
        Ok(d) => d,
        Err(_) => {
            let bytes = std::fs::read(format!("{}/capi/data/mini.dat", repo())).unwrap();
            vec![Box::new(Trie::new(&bytes[..]).unwrap())]
        }
    };
    let drop_in = loader.load_drop_in().unwrap_or_default();
    let abbrev = loader.load_abbrev().unwrap_or_else(|_| AbbrevTable::new());
    let sym_sel = loader.load_symbol_selector().unwrap_or_else(|_| SymbolSelector::new(b"".as_slice()).unwrap());
    let user = UserDictionaryLoader::new().userphrase_path(&h.user).load().unwrap();
    let estimate = LaxUserFreqEstimate::max_from(user.as_ref());
    let dict = Layered::new(dicts.into_iter().chain(drop_in).collect(), user);
    let ed = Editor::new(Box::new(ChewingEngine::new()), dict, estimate, abbrev, sym_sel);
    Twin { ed, kb: AnyKeyboardLayout::qwerty(), kb_id: 0, sel_keys: [49, 50, 51, 52, 53, 54, 55, 56, 57, 48] }
}

// ------------------------------------------------------------------ operations

pub const NAMED: [&str; 20] = [
    "Space", "Esc", "Enter", "Del", "Backspace", "Tab", "ShiftLeft", "Left", "ShiftRight", "Right", "Up", "Home", "End",
    "PageUp", "PageDown", "Down", "Capslock", "ShiftSpace", "DblTab", "Numlock",
];
pub const N_SPACE: u8 = 0;
pub const N_ESC: u8 = 1;
pub const N_ENTER: u8 = 2;
pub const N_DEL: u8 = 3;
pub const N_BACKSPACE: u8 = 4;
pub const N_TAB: u8 = 5;
pub const N_SHIFT_LEFT: u8 = 6;
pub const N_LEFT: u8 = 7;
pub const N_SHIFT_RIGHT: u8 = 8;
pub const N_RIGHT: u8 = 9;
pub const N_UP: u8 = 10;
pub const N_HOME: u8 = 11;
pub const N_END: u8 = 12;
pub const N_PAGE_UP: u8 = 13;
pub const N_PAGE_DOWN: u8 = 14;
pub const N_DOWN: u8 = 15;
pub const N_CAPSLOCK: u8 = 16;
pub const N_SHIFT_SPACE: u8 = 17;
pub const N_DBL_TAB: u8 = 18;

/// the 13 keys the property names as passed through when nothing is being composed
pub fn is_idle_key(i: u8) -> bool {
    matches!(i, N_ENTER | N_ESC | N_TAB | N_BACKSPACE | N_DEL | N_LEFT | N_RIGHT | N_UP | N_DOWN | N_HOME | N_END | N_PAGE_UP | N_PAGE_DOWN)
}

pub const SETTERS: [&str; 11] = [
    "ChiEngMode", "ShapeMode", "candPerPage", "maxChiSymbolLen", "addPhraseDirection", "spaceAsSelection", "escCleanAllBuf",
    "autoShiftCur", "easySymbolInput", "phraseChoiceRearward", "autoLearn",
];
pub const SETTER_OPTION: [&str; 11] = [
    "chewing.language_mode", "chewing.character_form", "chewing.candidates_per_page", "chewing.auto_commit_threshold",
    "chewing.user_phrase_add_direction", "chewing.space_is_select_key", "chewing.esc_clear_all_buffer",
    "chewing.auto_shift_cursor", "chewing.easy_symbol_input", "chewing.phrase_choice_rearward", "chewing.disable_auto_learn_phrase",
];
pub const INT_OPTS: [&str; 2] = ["chewing.conversion_engine", "chewing.enable_fullwidth_toggle_key"];
/// the fourth set holds values that are no bytes (chewing_set_selKey takes ten C ints unchecked): 256 + 'a', a negative
/// value, a code point beyond ASCII - under an open list each still stands for the digit key of its position
pub const SEL_KEY_SETS: [[i32; 10]; 4] = [
    [49, 50, 51, 52, 53, 54, 55, 56, 57, 48],
    [97, 115, 100, 102, 103, 104, 106, 107, 108, 59],
    [113, 119, 101, 114, 117, 105, 111, 112, 91, 93],
    [353, 115, -159, 102, 0x1F600, 104, 106, 107, 108, 59],
];
/// the keys a generated history sends through chewing_handle_Default while a list is open
pub const CHOICE_KEYS: [i32; 24] = [49, 50, 51, 52, 53, 54, 55, 56, 57, 48, 97, 115, 100, 102, 103, 104, 106, 107, 108, 59, 113, 353, -159, 0x1F600];

pub const PHRASES: [(&str, &str); 5] =
    [("測試", "ㄘㄜˋ ㄕˋ"), ("策士", "ㄘㄜˋ ㄕˋ"), ("冊", "ㄘㄜˋ"), ("試試測", "ㄕˋ ㄕˋ ㄘㄜˋ"), ("是", "ㄕˋ")];

/// a C string argument: `None` = NULL pointer, else the bytes before the terminating NUL (not necessarily UTF-8)
pub type Arg = Option<Vec<u8>>;

/// phrases for the arbitrary user-phrase calls: the five of `PHRASES`, the empty string, one character, ASCII, twelve
/// characters; `gen_arg` adds NULL and bytes that are not UTF-8
pub const PHRASE_POOL: [&str; 10] = ["測試", "策士", "冊", "試試測", "是", "", "測", "abc", "測試測試測試測試測試測試", "是是"];
/// bopomofo strings: well formed (1, 2, 3 syllables), empty, extra white space of every ASCII kind, an unparsable token
/// after / before / between good ones, two syllables glued together, twelve syllables
pub const BOPO_POOL: [&str; 14] = [
    "ㄘㄜˋ ㄕˋ", "ㄘㄜˋ", "ㄕˋ ㄕˋ ㄘㄜˋ", "ㄕˋ", "", "  ㄘㄜˋ\tㄕˋ \r\n", "ㄘㄜˋ xyz", "xyz", "xyz ㄘㄜˋ", "ㄘㄜˋ ㄜㄘ ㄕˋ", "ㄘㄜˋㄕˋ",
    "ㄘㄜˋ ㄕˋ ㄘㄜˋ ㄕˋ ㄘㄜˋ ㄕˋ ㄘㄜˋ ㄕˋ ㄘㄜˋ ㄕˋ ㄘㄜˋ ㄕˋ", "ㄕˋ\x0cㄕˋ", " ",
];

pub const STR_NAMES: [&str; 3] = ["chewing.keyboard_type", "chewing.selection_keys", "chewing.no_such_option"];
/// keyboard names of include/chewing.h with their numbers, and names that are none
pub const KB_NAMES: [(&str, i32); 9] = [
    ("KB_DEFAULT", 0), ("KB_HSU", 1), ("KB_DVORAK", 6), ("KB_DVORAK_HSU", 7), ("KB_HANYU_PINYIN", 9), ("KB_COLEMAK", 16),
    ("KB_NOPE", -1), ("", -1), ("kb_hsu", -1),
];
pub const SELKEY_STRS: [&str; 7] = ["asdfghjkl;", "1234567890", "qwertyuiop", "123456789", "12345678901", "asdfghjkl測", ""];

pub fn gen_arg(rng: &mut Rng, pool: &[&str]) -> Arg {
    match rng.weighted(&[20, 1, 1]) {
        0 => Some(rng.pick(pool).as_bytes().to_vec()),
        1 => None,
        _ => Some(vec![0xe6, 0xb8, 0xff]),
    }
}

/// `-` NULL, `!` bytes that are not UTF-8 (both are `None` for `str_from_ptr_with_nul`), else `x<hex>`
pub fn arg_token(a: &Arg) -> String {
    match a {
        None => "-".into(),
        Some(b) => match std::str::from_utf8(b) {
            Ok(s) => vharness::hx(s),
            Err(_) => "!".into(),
        },
    }
}

pub fn arg_str(a: &Arg) -> Option<&str> {
    a.as_ref().and_then(|b| std::str::from_utf8(b).ok())
}

#[derive(Clone, Debug, PartialEq)]
pub enum Op {
    /// chewing_userphrase_add (0) / _remove (1) / _lookup (2) with arbitrary arguments
    User(u8, Arg, Arg),
    /// chewing_userphrase_enumerate + has_next / get until the end
    UserEnum,
    /// chewing_set_selKey(one of SEL_KEY_SETS padded to 16 ints, len)
    SetSelKeysLen(u8, i32),
    /// chewing_config_set_str(STR_NAMES[i], value)
    SetStr(u8, String),
    Default(i32),
    Named(u8),
    Numlock(i32),
    CtrlNum(i32),
    CandOpen,
    CandClose,
    CandChoose(i32),
    CandList(u8),
    CommitPreedit,
    CleanPreedit,
    CleanBopomofo,
    Ack,
    Reset,
    Set(u8, i32),
    SetOpt(u8, i32),
    SetKb(i32),
    SetSelKeys(u8),
    UserAdd(u8),
    UserRemove(u8),
}

impl Op {
    pub fn text(&self) -> String {
        match self {
            Op::Default(k) if (32..127).contains(k) => format!("handle_Default('{}')", *k as u8 as char),
            Op::Default(k) => format!("handle_Default({})", k),
            Op::Named(i) => format!("handle_{}", NAMED[*i as usize]),
            Op::Numlock(k) if (32..127).contains(k) => format!("handle_Numlock('{}')", *k as u8 as char),
            Op::Numlock(k) => format!("handle_Numlock({})", k),
            Op::CtrlNum(k) if (32..127).contains(k) => format!("handle_CtrlNum('{}')", *k as u8 as char),
            Op::CtrlNum(k) => format!("handle_CtrlNum({})", k),
            Op::CandOpen => "cand_open".into(),
            Op::CandClose => "cand_close".into(),
            Op::CandChoose(i) => format!("cand_choose_by_index({})", i),
            Op::CandList(i) => format!("cand_list_{}", ["first", "last", "next", "prev"][*i as usize]),
            Op::CommitPreedit => "commit_preedit_buf".into(),
            Op::CleanPreedit => "clean_preedit_buf".into(),
            Op::CleanBopomofo => "clean_bopomofo_buf".into(),
            Op::Ack => "ack".into(),
            Op::Reset => "Reset".into(),
            Op::Set(w, v) => format!("set_{}({})", SETTERS[*w as usize], v),
            Op::SetOpt(w, v) => format!("config_set_int({},{})", INT_OPTS[*w as usize], v),
            Op::SetKb(k) => format!("set_KBType({})", k),
            Op::SetSelKeys(i) if *i < 3 => {
                format!("set_selKey(\"{}\")", SEL_KEY_SETS[*i as usize].iter().map(|k| *k as u8 as char).collect::<String>())
            }
            Op::SetSelKeys(i) => format!("set_selKey({:?})", SEL_KEY_SETS[*i as usize]),
            Op::User(k, p, b) => format!(
                "userphrase_{}({},{})",
                ["add", "remove", "lookup"][*k as usize],
                match p { None => "NULL".to_string(), Some(x) => format!("{:?}", String::from_utf8_lossy(x)) },
                match b { None => "NULL".to_string(), Some(x) => format!("{:?}", String::from_utf8_lossy(x)) }
            ).replace(' ', "_"),
            Op::UserEnum => "userphrase_enumerate".into(),
            Op::SetSelKeysLen(i, len) => format!("set_selKey({:?},len={})", SEL_KEY_SETS[*i as usize], len).replace(' ', ""),
            Op::SetStr(i, v) => format!("config_set_str({},{:?})", STR_NAMES[*i as usize], v).replace(' ', "_"),
            Op::UserAdd(i) => format!("userphrase_add({})", PHRASES[*i as usize].0),
            Op::UserRemove(i) => format!("userphrase_remove({})", PHRASES[*i as usize].0),
        }
    }
    /// the name under which the call is counted (`handlers hit`)
    pub fn handler(&self) -> String {
        match self {
            Op::Default(_) => "handle_Default".into(),
            Op::Numlock(_) => "handle_Numlock".into(),
            Op::CtrlNum(_) => "handle_CtrlNum".into(),
            Op::CandChoose(_) => "cand_choose_by_index".into(),
            Op::Set(w, _) => format!("set_{}", SETTERS[*w as usize]),
            Op::SetOpt(..) => "config_set_int".into(),
            Op::SetKb(_) => "set_KBType".into(),
            Op::SetSelKeys(_) | Op::SetSelKeysLen(..) => "set_selKey".into(),
            Op::SetStr(..) => "config_set_str".into(),
            Op::UserAdd(_) | Op::User(0, ..) => "userphrase_add".into(),
            Op::UserRemove(_) | Op::User(1, ..) => "userphrase_remove".into(),
            Op::User(..) => "userphrase_lookup".into(),
            o => o.text(),
        }
    }
}

pub unsafe fn apply_c(ctx: Ctx, op: &Op) -> c_int {
    unsafe {
        match op {
            Op::Default(k) => chewing_handle_Default(ctx, *k),
            Op::Named(i) => match i {
                0 => chewing_handle_Space(ctx),
                1 => chewing_handle_Esc(ctx),
                2 => chewing_handle_Enter(ctx),
                3 => chewing_handle_Del(ctx),
                4 => chewing_handle_Backspace(ctx),
                5 => chewing_handle_Tab(ctx),
                6 => chewing_handle_ShiftLeft(ctx),
                7 => chewing_handle_Left(ctx),
                8 => chewing_handle_ShiftRight(ctx),
                9 => chewing_handle_Right(ctx),
                10 => chewing_handle_Up(ctx),
                11 => chewing_handle_Home(ctx),
                12 => chewing_handle_End(ctx),
                13 => chewing_handle_PageUp(ctx),
                14 => chewing_handle_PageDown(ctx),
                15 => chewing_handle_Down(ctx),
                16 => chewing_handle_Capslock(ctx),
                17 => chewing_handle_ShiftSpace(ctx),
                _ => chewing_handle_DblTab(ctx),
            },
            Op::Numlock(k) => chewing_handle_Numlock(ctx, *k),
            Op::CtrlNum(k) => chewing_handle_CtrlNum(ctx, *k),
            Op::CandOpen => chewing_cand_open(ctx),
            Op::CandClose => chewing_cand_close(ctx),
            Op::CandChoose(i) => chewing_cand_choose_by_index(ctx, *i),
            Op::CandList(i) => match i {
                0 => chewing_cand_list_first(ctx),
                1 => chewing_cand_list_last(ctx),
                2 => chewing_cand_list_next(ctx),
                _ => chewing_cand_list_prev(ctx),
            },
            Op::CommitPreedit => chewing_commit_preedit_buf(ctx),
            Op::CleanPreedit => chewing_clean_preedit_buf(ctx),
            Op::CleanBopomofo => chewing_clean_bopomofo_buf(ctx),
            Op::Ack => chewing_ack(ctx),
            Op::Reset => chewing_Reset(ctx),
            Op::Set(w, v) => {
                match w {
                    0 => chewing_set_ChiEngMode(ctx, *v),
                    1 => chewing_set_ShapeMode(ctx, *v),
                    2 => chewing_set_candPerPage(ctx, *v),
                    3 => chewing_set_maxChiSymbolLen(ctx, *v),
                    4 => chewing_set_addPhraseDirection(ctx, *v),
                    5 => chewing_set_spaceAsSelection(ctx, *v),
                    6 => chewing_set_escCleanAllBuf(ctx, *v),
                    7 => chewing_set_autoShiftCur(ctx, *v),
                    8 => chewing_set_easySymbolInput(ctx, *v),
                    9 => chewing_set_phraseChoiceRearward(ctx, *v),
                    _ => chewing_set_autoLearn(ctx, *v),
                };
                0
            }
            Op::SetOpt(w, v) => {
                let n = CString::new(INT_OPTS[*w as usize]).unwrap();
                chewing_config_set_int(ctx, n.as_ptr(), *v)
            }
            Op::SetKb(k) => chewing_set_KBType(ctx, *k),
            Op::SetSelKeys(i) => {
                let keys: Vec<c_int> = SEL_KEY_SETS[*i as usize].iter().map(|b| *b as c_int).collect();
                chewing_set_selKey(ctx, keys.as_ptr(), 10);
                0
            }
            Op::User(k, p, b) => {
                let pc = p.as_ref().map(|x| CString::new(x.clone()).unwrap());
                let bc = b.as_ref().map(|x| CString::new(x.clone()).unwrap());
                let pp = pc.as_ref().map_or(std::ptr::null(), |c| c.as_ptr());
                let bp = bc.as_ref().map_or(std::ptr::null(), |c| c.as_ptr());
                match k {
                    0 => chewing_userphrase_add(ctx, pp, bp),
                    1 => chewing_userphrase_remove(ctx, pp, bp),
                    _ => chewing_userphrase_lookup(ctx, pp, bp),
                }
            }
            Op::UserEnum => chewing_userphrase_enumerate(ctx),
            Op::SetSelKeysLen(i, len) => {
                let mut keys: Vec<c_int> = SEL_KEY_SETS[*i as usize].iter().map(|b| *b as c_int).collect();
                keys.resize(16, 33);
                chewing_set_selKey(ctx, keys.as_ptr(), *len);
                0
            }
            Op::SetStr(i, v) => {
                let (n, v) = (CString::new(STR_NAMES[*i as usize]).unwrap(), CString::new(v.clone()).unwrap());
                chewing_config_set_str(ctx, n.as_ptr(), v.as_ptr())
            }
            Op::UserAdd(i) => {
                let (p, b) = PHRASES[*i as usize];
                let (p, b) = (CString::new(p).unwrap(), CString::new(b).unwrap());
                chewing_userphrase_add(ctx, p.as_ptr(), b.as_ptr())
            }
            Op::UserRemove(i) => {
                let (p, b) = PHRASES[*i as usize];
                let (p, b) = (CString::new(p).unwrap(), CString::new(b).unwrap());
                chewing_userphrase_remove(ctx, p.as_ptr(), b.as_ptr())
            }
        }
    }
}

/// the key a named handler stands for (doc/libchewing.texi, chapter Input Handling)
fn named_key(i: u8) -> Option<(KeyCode, Modifiers)> {
    let none = Modifiers::default();
    Some(match i {
        0 => (KeyCode::Space, none),
        1 => (KeyCode::Esc, none),
        2 => (KeyCode::Enter, none),
        3 => (KeyCode::Del, none),
        4 => (KeyCode::Backspace, none),
        5 => (KeyCode::Tab, none),
        6 => (KeyCode::Left, Modifiers::shift()),
        7 => (KeyCode::Left, none),
        8 => (KeyCode::Right, Modifiers::shift()),
        9 => (KeyCode::Right, none),
        10 => (KeyCode::Up, none),
        11 => (KeyCode::Home, none),
        12 => (KeyCode::End, none),
        13 => (KeyCode::PageUp, none),
        14 => (KeyCode::PageDown, none),
        15 => (KeyCode::Down, none),
        // the Caps Lock key itself: no character, the caps-lock state is on
        16 => (KeyCode::Unknown, Modifiers::capslock()),
        17 => (KeyCode::Space, Modifiers::shift()),
        // double Tab: not implemented by this port (legacy no-op, modelled as "no key is processed")
        _ => return None,
    })
}

fn layout_of(kb: i32) -> (AnyKeyboardLayout, Box<dyn SyllableEditor>) {
    // the keyboard types by number (include/chewing.h: KB_DEFAULT .. KB_COLEMAK)
    match kb {
        1 => (AnyKeyboardLayout::qwerty(), Box::new(Hsu::new())),
        2 => (AnyKeyboardLayout::qwerty(), Box::new(Ibm::new())),
        3 => (AnyKeyboardLayout::qwerty(), Box::new(GinYieh::new())),
        4 => (AnyKeyboardLayout::qwerty(), Box::new(Et::new())),
        5 => (AnyKeyboardLayout::qwerty(), Box::new(Et26::new())),
        6 => (AnyKeyboardLayout::dvorak(), Box::new(Standard::new())),
        7 => (AnyKeyboardLayout::dvorak_on_qwerty(), Box::new(Hsu::new())),
        8 => (AnyKeyboardLayout::qwerty(), Box::new(DaiChien26::new())),
        9 => (AnyKeyboardLayout::qwerty(), Box::new(Pinyin::hanyu())),
        10 => (AnyKeyboardLayout::qwerty(), Box::new(Pinyin::thl())),
        11 => (AnyKeyboardLayout::qwerty(), Box::new(Pinyin::mps2())),
        13 => (AnyKeyboardLayout::colemak_dh_ansi(), Box::new(Standard::new())),
        14 => (AnyKeyboardLayout::colemak_dh_orth(), Box::new(Standard::new())),
        15 => (AnyKeyboardLayout::workman(), Box::new(Standard::new())),
        16 => (AnyKeyboardLayout::colemak(), Box::new(Standard::new())),
        _ => (AnyKeyboardLayout::qwerty(), Box::new(Standard::new())),
    }
}

fn parse_syllables(b: &str) -> Vec<Syllable> {
    b.split_ascii_whitespace().map_while(|s| s.parse::<Syllable>().ok()).collect()
}

pub struct Mirror {
    /// the return value the documentation promises
    pub rc: c_int,
    /// the key event handed to the editor and its answer, if the call is a key
    pub key: Option<(KeyEvent, EditorKeyBehavior)>,
    /// what was ACTUALLY fed to the twin `Editor` by this call (transcript records `capiops call`)
    pub call: TwinCall,
    /// the `Result` of that `Editor` call (`None`: no call, or a call without a result)
    pub res: Option<bool>,
}

/// the ONE `Editor` call (or none) the twin made for a C call; `Other` = a call outside the glue model
/// (option setters, keyboard type, selection keys, user phrases)
#[derive(Clone, Copy, Debug, PartialEq)]
pub enum TwinCall {
    None,
    Key(KeyEvent),
    Select(usize),
    StartSelecting,
    CancelSelecting,
    Commit,
    Clear,
    Ack,
    ClearSyl,
    Jump(u8),
    Other,
}

impl TwinCall {
    /// the text after `=>` of a `capiops call` record (Driver/CApiOps.lean `capiCallText`)
    pub fn text(&self) -> Option<String> {
        Some(match self {
            TwinCall::None => "none".into(),
            TwinCall::Key(ev) => {
                let m = &ev.modifiers;
                format!(
                    "key {} {} {} {}",
                    ev.index as u8,
                    ev.code as u8,
                    ev.unicode as u32,
                    m.shift as u8 + 2 * m.ctrl as u8 + 4 * m.capslock as u8 + 8 * m.numlock as u8
                )
            }
            TwinCall::Select(n) => format!("select {}", n),
            TwinCall::StartSelecting => "start".into(),
            TwinCall::CancelSelecting => "cancel".into(),
            TwinCall::Commit => "commit".into(),
            TwinCall::Clear => "clear".into(),
            TwinCall::Ack => "ack".into(),
            TwinCall::ClearSyl => "clearsyl".into(),
            TwinCall::Jump(w) => format!("jump {}", w),
            TwinCall::Other => return None,
        })
    }
}

impl Op {
    /// `<op> <arg|->` of a `capiops call` record; `None` for the calls outside the glue model
    pub fn record_name(&self) -> Option<(String, String)> {
        let dash = || "-".to_string();
        Some(match self {
            Op::Default(k) => ("Default".into(), k.to_string()),
            Op::Named(i) => (format!("h:{}", NAMED[*i as usize]), dash()),
            Op::Numlock(k) => ("Numlock".into(), k.to_string()),
            Op::CtrlNum(k) => ("CtrlNum".into(), k.to_string()),
            Op::CandOpen => ("cand_open".into(), dash()),
            Op::CandClose => ("cand_close".into(), dash()),
            Op::CandChoose(i) => ("cand_choose_by_index".into(), i.to_string()),
            Op::CandList(i) => (format!("cand_list_{}", ["first", "last", "next", "prev"][*i as usize]), dash()),
            Op::CommitPreedit => ("commit_preedit_buf".into(), dash()),
            Op::CleanPreedit => ("clean_preedit_buf".into(), dash()),
            Op::CleanBopomofo => ("clean_bopomofo_buf".into(), dash()),
            Op::Ack => ("ack".into(), dash()),
            Op::Reset => ("Reset".into(), dash()),
            _ => return None,
        })
    }
}

/// the facts the glue reads, taken from the twin BEFORE the call: `<is_selecting> <is_entering> <kbtype> <k0,…,k9>`
pub fn glue_facts(tw: &Twin) -> String {
    format!(
        "{} {} {} {}",
        tw.ed.is_selecting() as u8,
        tw.ed.is_entering() as u8,
        tw.kb_id,
        tw.sel_keys.iter().map(|k| k.to_string()).collect::<Vec<_>>().join(",")
    )
}

/// the `AnyKeyboardLayout` variant the twin holds (`Qwerty`, `DvorakOnQwerty`, …)
pub fn kb_variant(tw: &Twin) -> String {
    let d = format!("{:?}", tw.kb);
    d.split('(').next().unwrap_or("?").to_string()
}

impl Twin {
    fn press(&mut self, ev: KeyEvent) -> Mirror {
        let r = self.ed.process_keyevent(ev);
        Mirror { rc: 0, key: Some((ev, r)), call: TwinCall::Key(ev), res: None }
    }

    fn set_option(&mut self, name: &str, v: i32) -> c_int {
        if v < 0 {
            return -1;
        }
        let mut o = self.ed.editor_options();
        let b = |v: i32| -> Option<bool> {
            match v {
                0 => Some(false),
                1 => Some(true),
                _ => None,
            }
        };
        macro_rules! flag {
            ($f:ident) => {
                match b(v) {
                    Some(x) => o.$f = x,
                    None => return -1,
                }
            };
        }
        match name {
            "chewing.language_mode" => o.language_mode = match v { 1 => LanguageMode::Chinese, 0 => LanguageMode::English, _ => return -1 },
            "chewing.character_form" => o.character_form = match v { 0 => CharacterForm::Halfwidth, 1 => CharacterForm::Fullwidth, _ => return -1 },
            "chewing.candidates_per_page" => {
                if !(1..=10).contains(&v) {
                    return -1;
                }
                o.candidates_per_page = v as usize
            }
            "chewing.auto_commit_threshold" => {
                if !(0..=39).contains(&v) {
                    return -1;
                }
                o.auto_commit_threshold = v as usize
            }
            "chewing.user_phrase_add_direction" => o.user_phrase_add_dir = match v { 0 => UserPhraseAddDirection::Forward, 1 => UserPhraseAddDirection::Backward, _ => return -1 },
            "chewing.space_is_select_key" => flag!(space_is_select_key),
            "chewing.esc_clear_all_buffer" => flag!(esc_clear_all_buffer),
            "chewing.auto_shift_cursor" => flag!(auto_shift_cursor),
            "chewing.easy_symbol_input" => flag!(easy_symbol_input),
            "chewing.phrase_choice_rearward" => flag!(phrase_choice_rearward),
            "chewing.disable_auto_learn_phrase" => flag!(disable_auto_learn_phrase),
            "chewing.enable_fullwidth_toggle_key" => flag!(enable_fullwidth_toggle_key),
            "chewing.conversion_engine" => match v {
                0 => {
                    self.ed.set_conversion_engine(Box::new(SimpleEngine::new()));
                    o.lookup_strategy = LookupStrategy::Standard;
                    o.conversion_engine = ConversionEngineKind::SimpleEngine;
                }
                1 => {
                    self.ed.set_conversion_engine(Box::new(ChewingEngine::new()));
                    o.lookup_strategy = LookupStrategy::Standard;
                    o.conversion_engine = ConversionEngineKind::ChewingEngine;
                }
                2 => {
                    self.ed.set_conversion_engine(Box::new(FuzzyChewingEngine::new()));
                    o.lookup_strategy = LookupStrategy::FuzzyPartialPrefix;
                    o.conversion_engine = ConversionEngineKind::FuzzyChewingEngine;
                }
                _ => return -1,
            },
            _ => return -1,
        }
        self.ed.set_editor_options(o);
        0
    }

    pub fn apply(&mut self, op: &Op) -> Mirror {
        // a call outside the glue model (setters, keyboard type, selection keys, user phrases)
        let plain = |rc: c_int| Mirror { rc, key: None, call: TwinCall::Other, res: None };
        // no `Editor` call at all
        let none = |rc: c_int| Mirror { rc, key: None, call: TwinCall::None, res: None };
        // an `Editor` call whose result is discarded / that has none
        let done = |call: TwinCall, res: Option<bool>| Mirror { rc: 0, key: None, call, res };
        // an `Editor` call whose `Result` decides the return value
        let ok = |call: TwinCall, r: bool| Mirror { rc: if r { 0 } else { -1 }, key: None, call, res: Some(r) };
        match op {
            Op::Default(k) => {
                // "The value of key can be any printable ASCII character": anything else is no character key.
                // While a list is open the i-th configured selection key stands for the i-th digit key.
                let mut key = *k;
                if self.ed.is_selecting() {
                    if let Some(i) = self.sel_keys.iter().position(|s| *s == key) {
                        key = b"1234567890"[i] as i32;
                    }
                }
                let ev = if (0..=255).contains(&key) { self.kb.map_ascii(key as u8) } else { self.kb.map(KeyCode::Unknown) };
                self.press(ev)
            }
            Op::Named(i) => match named_key(*i) {
                Some((code, m)) => {
                    let ev = self.kb.map_with_mod(code, m);
                    self.press(ev)
                }
                None => none(0),
            },
            Op::Numlock(k) => {
                let ev = if (0..=255).contains(k) { self.kb.map_ascii_numlock(*k as u8) } else { self.kb.map(KeyCode::Unknown) };
                self.press(ev)
            }
            Op::CtrlNum(k) => {
                // "should be in the range between ASCII character code from 0 to 9"; -1 on failure
                let code = match *k {
                    48 => KeyCode::N0,
                    49 => KeyCode::N1,
                    50 => KeyCode::N2,
                    51 => KeyCode::N3,
                    52 => KeyCode::N4,
                    53 => KeyCode::N5,
                    54 => KeyCode::N6,
                    55 => KeyCode::N7,
                    56 => KeyCode::N8,
                    57 => KeyCode::N9,
                    _ => return none(-1),
                };
                let ev = self.kb.map_with_mod(code, Modifiers::control());
                self.press(ev)
            }
            Op::CandOpen => ok(TwinCall::StartSelecting, self.ed.start_selecting().is_ok()),
            Op::CandClose => {
                // "for backward compatible reason this method never errors"
                let r = self.ed.cancel_selecting().is_ok();
                done(TwinCall::CancelSelecting, Some(r))
            }
            // a negative index is out of range like any other index that names no candidate
            Op::CandChoose(i) => {
                let n = if *i < 0 { (*i as i64 as u64) as usize } else { *i as usize };
                ok(TwinCall::Select(n), self.ed.select(n).is_ok())
            }
            Op::CandList(i) => {
                if !self.ed.is_selecting() {
                    return none(-1);
                }
                match i {
                    0 => {
                        let r = self.ed.jump_to_first_selection_point().is_ok();
                        done(TwinCall::Jump(0), Some(r))
                    }
                    1 => {
                        let r = self.ed.jump_to_last_selection_point().is_ok();
                        done(TwinCall::Jump(1), Some(r))
                    }
                    2 => ok(TwinCall::Jump(2), self.ed.jump_to_next_selection_point().is_ok()),
                    _ => ok(TwinCall::Jump(3), self.ed.jump_to_prev_selection_point().is_ok()),
                }
            }
            Op::CommitPreedit => ok(TwinCall::Commit, self.ed.commit().is_ok()),
            Op::CleanPreedit => {
                if self.ed.is_entering() {
                    self.ed.clear();
                    done(TwinCall::Clear, None)
                } else {
                    none(-1)
                }
            }
            Op::CleanBopomofo => {
                self.ed.clear_syllable_editor();
                done(TwinCall::ClearSyl, None)
            }
            Op::Ack => {
                self.ed.ack();
                done(TwinCall::Ack, None)
            }
            Op::Reset => {
                self.ed.clear();
                done(TwinCall::Clear, None)
            }
            Op::Set(w, v) => {
                self.set_option(SETTER_OPTION[*w as usize], *v);
                plain(0)
            }
            Op::SetOpt(w, v) => plain(self.set_option(INT_OPTS[*w as usize], *v)),
            Op::SetKb(k) => {
                let valid = (0..=16).contains(k);
                let id = if valid { *k } else { 0 };
                let (kb, syl) = layout_of(id);
                self.kb = kb;
                self.kb_id = id;
                self.ed.set_syllable_editor(syl);
                plain(if valid { 0 } else { -1 })
            }
            Op::SetSelKeys(i) => {
                for (j, b) in SEL_KEY_SETS[*i as usize].iter().enumerate() {
                    self.sel_keys[j] = *b;
                }
                plain(0)
            }
            Op::User(k, p, b) => {
                // the documented reading: a string that is NULL or not UTF-8 is no string
                let (p, b) = (arg_str(p), arg_str(b));
                match k {
                    0 => {
                        let Some(b) = b else { return plain(0) };
                        let syls = parse_syllables(b);
                        if syls.is_empty() || syls.len() > 11 {
                            return plain(0);
                        }
                        let Some(p) = p else { return plain(-1) };
                        plain(self.ed.learn_phrase(&syls, p).is_ok() as c_int)
                    }
                    1 => {
                        let Some(b) = b else { return plain(0) };
                        let syls = parse_syllables(b);
                        let found = self.ed.user_dict().lookup_all_phrases(&syls, LookupStrategy::Standard);
                        let Some(p) = p else { return plain(if found.is_empty() { 0 } else { -1 }) };
                        if !found.iter().any(|ph| ph.as_str() == p) {
                            return plain(0);
                        }
                        plain(self.ed.unlearn_phrase(&syls, p).is_ok() as c_int)
                    }
                    _ => {
                        let Some(b) = b else { return plain(0) };
                        let syls = parse_syllables(b);
                        let found = self.ed.user_dict().lookup_all_phrases(&syls, LookupStrategy::Standard);
                        plain(match p {
                            Some(p) => found.iter().any(|ph| ph.as_str() == p),
                            None => !found.is_empty(),
                        } as c_int)
                    }
                }
            }
            Op::UserEnum => plain(0),
            // "len: the length of the array, must be 10" - anything else is ignored
            Op::SetSelKeysLen(i, len) => {
                if *len == 10 {
                    for (j, b) in SEL_KEY_SETS[*i as usize].iter().enumerate() {
                        self.sel_keys[j] = *b;
                    }
                }
                plain(0)
            }
            Op::SetStr(i, v) => match i {
                0 => match KB_NAMES.iter().find(|(n, id)| *n == v.as_str() && *id >= 0) {
                    Some((_, id)) => {
                        let (kb, syl) = layout_of(*id);
                        self.kb = kb;
                        self.kb_id = *id;
                        self.ed.set_syllable_editor(syl);
                        plain(0)
                    }
                    None => plain(-1),
                },
                // "ten ASCII characters"
                1 => {
                    if v.len() != 10 || !v.is_ascii() {
                        return plain(-1);
                    }
                    for (j, b) in v.bytes().enumerate() {
                        self.sel_keys[j] = b as i32;
                    }
                    plain(0)
                }
                _ => plain(-1),
            },
            Op::UserAdd(i) => {
                let (p, b) = PHRASES[*i as usize];
                let syls = parse_syllables(b);
                plain(self.ed.learn_phrase(&syls, p).is_ok() as c_int)
            }
            Op::UserRemove(i) => {
                let (p, b) = PHRASES[*i as usize];
                let syls = parse_syllables(b);
                let has = self.ed.user_dict().lookup_all_phrases(&syls, LookupStrategy::Standard).iter().any(|ph| ph.as_str() == p);
                if !has {
                    return plain(0);
                }
                plain(self.ed.unlearn_phrase(&syls, p).is_ok() as c_int)
            }
        }
    }
}

// ------------------------------------------------------------------ user-phrase observations (work package capiuser)

/// the user-phrase call an operation stands for: (0 add / 1 remove / 2 lookup, phrase, bopomofo)
pub fn user_call(op: &Op) -> Option<(u8, Arg, Arg)> {
    match op {
        Op::User(k, p, b) => Some((*k, p.clone(), b.clone())),
        Op::UserAdd(i) => Some((0, Some(PHRASES[*i as usize].0.as_bytes().to_vec()), Some(PHRASES[*i as usize].1.as_bytes().to_vec()))),
        Op::UserRemove(i) => Some((1, Some(PHRASES[*i as usize].0.as_bytes().to_vec()), Some(PHRASES[*i as usize].1.as_bytes().to_vec()))),
        _ => None,
    }
}

/// `chewing_userphrase_enumerate`, then `has_next` / `get` (buffers of exactly the announced sizes) until `has_next`
/// answers 0: the (phrase, bopomofo) pairs handed out, in order; `Err` = a protocol violation
pub unsafe fn c_user_entries(ctx: Ctx) -> Result<Vec<(String, String)>, String> {
    unsafe {
        let rc = chewing_userphrase_enumerate(ctx);
        if rc != 0 {
            return Err(format!("chewing_userphrase_enumerate returned {}", rc));
        }
        let mut out = vec![];
        loop {
            let (mut pl, mut bl) = (0u32, 0u32);
            if chewing_userphrase_has_next(ctx, &mut pl, &mut bl) != 1 {
                break;
            }
            let mut pb = vec![0u8; pl as usize];
            let mut bb = vec![0u8; bl as usize];
            let rc = chewing_userphrase_get(ctx, pb.as_mut_ptr().cast(), pl, bb.as_mut_ptr().cast(), bl);
            if rc != 0 {
                return Err(format!("chewing_userphrase_get returned {} although has_next answered 1", rc));
            }
            let cut = |v: &[u8]| String::from_utf8_lossy(&v[..v.iter().position(|x| *x == 0).unwrap_or(v.len())]).to_string();
            out.push((cut(&pb), cut(&bb)));
            if out.len() > 10_000 {
                return Err("the enumeration does not end".into());
            }
        }
        Ok(out)
    }
}

/// the twin's `user_dict().entries()` printed the documented way: (phrase, syllables joined by one space)
pub fn twin_user_entries(tw: &mut Twin) -> Vec<(String, String)> {
    tw.ed.user_dict().entries().map(|(k, p)| (p.as_str().to_string(), k.iter().map(|s| s.to_string()).collect::<Vec<_>>().join(" "))).collect()
}

/// the twin's entries as syllable codes: `c1.c2:x<phrase>` joined by `,` (sorted), `-` when empty
pub fn twin_user_codes(tw: &mut Twin) -> String {
    let mut v: Vec<String> = tw.ed.user_dict().entries().map(|(k, p)| format!("{}:{}", k.iter().map(|s| s.to_u16().to_string()).collect::<Vec<_>>().join("."), vharness::hx(p.as_str()))).collect();
    v.sort();
    if v.is_empty() { "-".into() } else { v.join(",") }
}

/// a set of (phrase, bopomofo) pairs as a record token: `x<phrase>:x<bopomofo>` sorted, joined by `,`; `-` when empty
pub fn entries_token(e: &[(String, String)]) -> String {
    let mut v: Vec<String> = e.iter().map(|(p, b)| format!("{}:{}", vharness::hx(p), vharness::hx(b))).collect();
    v.sort();
    if v.is_empty() { "-".into() } else { v.join(",") }
}

/// the syllables a user-phrase call reads from its bopomofo argument, printed (the harness's own reading: the tokens
/// between ASCII white space up to the first one that is no syllable)
pub fn read_bopomofo(b: &str) -> Vec<String> {
    let mut out = vec![];
    for tok in b.split(|c: char| matches!(c, ' ' | '\t' | '\n' | '\x0c' | '\r')).filter(|t| !t.is_empty()) {
        match tok.parse::<Syllable>() {
            Ok(s) => out.push(s.to_string()),
            Err(_) => break,
        }
    }
    out
}
