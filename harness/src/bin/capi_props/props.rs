//! The STATEMENTS of C02 / C05 / C06 / C07 evaluated on the observations of the C context before and after
//! one call (`pre`, `post`: what `chewing_*` getters answered).  The twin editor contributes only (a) the key
//! result `process_keyevent` returned for the same key ("the key result" the C flags must be truthful about),
//! (b) the editor state the call started in (Entering / EnteringSyllable / Selecting / Highlighting — the C API
//! has no getter for Highlighting) and (c) which positions of the pre-edit buffer hold a syllable (the C API
//! exposes the syllables only as `chewing_get_phoneSeq`).
use crate::obs::*;
use crate::ops::*;
use chewing::editor::keyboard::KeyEvent;
use chewing::editor::EditorKeyBehavior;

pub struct Step<'a> {
    pub op: &'a Op,
    pub rc: i32,
    pub key: Option<(KeyEvent, EditorKeyBehavior)>,
    pub pre: &'a Obs,
    pub post: &'a Obs,
    pub pre_tok: &'a [String],
    pub pre_state: u8,
    pub post_state: u8,
}

pub type Verdicts = Vec<(&'static str, String)>;

fn nchars(s: &str) -> usize {
    s.chars().count()
}

fn has_bopomofo(s: &str) -> bool {
    s.chars().any(|c| ('\u{3105}'..='\u{3129}').contains(&c) || "ˊˇˋ˙".contains(c))
}

fn syl_of(tok: &[String]) -> Vec<u16> {
    tok.iter().filter(|t| t.starts_with('s')).map(|t| t[1..].parse().unwrap()).collect()
}

fn result_letter(b: EditorKeyBehavior) -> char {
    match b {
        EditorKeyBehavior::Ignore => 'I',
        EditorKeyBehavior::Absorb => 'A',
        EditorKeyBehavior::Commit => 'C',
        EditorKeyBehavior::Bell => 'B',
    }
}

pub fn c06(st: &Step, v: &mut Verdicts) {
    let (pre, post) = (st.pre, st.post);
    let Some((_, ret)) = st.key else {
        if *st.op == Op::Named(N_DBL_TAB) && pre != post {
            v.push(("C06", "the legacy no-op chewing_handle_DblTab changed what the getters answer".into()));
        }
        return;
    };
    for (n, f) in [("CheckIgnore", post.ignore), ("CheckAbsorb", post.absorb), ("commit_Check", post.commit_check)] {
        if f != 0 && f != 1 {
            v.push(("C06", format!("chewing_{} answered {} after a key", n, f)));
        }
    }
    let sum = post.ignore + post.absorb + post.commit_check;
    if sum > 1 {
        v.push(("C06", format!("more than one key result reported: CheckIgnore {} CheckAbsorb {} commit_Check {}", post.ignore, post.absorb, post.commit_check)));
    }
    let c = if post.ignore == 1 { 'I' } else if post.absorb == 1 { 'A' } else if post.commit_check == 1 { 'C' } else { 'B' };
    if c != result_letter(ret) {
        v.push(("C06", format!("key result not truthful: the C flags say {} (CheckIgnore {} CheckAbsorb {} commit_Check {}), the editor answered {:?} to the same key", c, post.ignore, post.absorb, post.commit_check, ret)));
    }
    if post.ignore == 1 {
        if let Some(g) = pre.persistent_diff(post) {
            v.push(("C06", format!("a key reported as ignored changed {}", g)));
        }
        if post.commit_check != 0 || !post.commit.is_empty() {
            v.push(("C06", format!("commit string {:?} (commit_Check {}) available after a key reported as ignored", post.commit, post.commit_check)));
        }
    }
    if c == 'B' && (pre.buf != post.buf || pre.cursor != post.cursor || pre.len != post.len || pre.phone != post.phone) {
        v.push(("C06", format!("a bell key changed pre-edit or cursor: {:?}/{} -> {:?}/{}", pre.buf, pre.cursor, post.buf, post.cursor)));
    }
    if c == 'B' {
        // Props/C06.lean bell_keeps_display / bell_effect: every getter answer except the per-key outputs is as before
        // (open list, page, choices, phonetic buffer, modes and options included) and nothing is committed
        if let Some(g) = pre.persistent_diff(post) {
            v.push(("C06", format!("a key answered with a bell changed {}", g)));
        }
        if post.commit_check != 0 || !post.commit.is_empty() {
            v.push(("C06", format!("commit string {:?} (commit_Check {}) available after a bell", post.commit, post.commit_check)));
        }
    }
    if let Op::Named(i) = st.op {
        if is_idle_key(*i) && pre.len == 0 && pre.buf_check == 0 && pre.bopo_check == 0 && !pre.selecting() && st.pre_state == b'E' && post.ignore != 1 {
            v.push(("C06", format!("pass-through key handle_{} with empty pre-edit and phonetic buffers was not reported as ignored (result {})", NAMED[*i as usize], c)));
        }
    }
}

pub fn c02(st: &Step, v: &mut Verdicts) {
    let (pre, post) = (st.pre, st.post);
    if (post.commit_check == 1) != !post.commit.is_empty() || (post.commit_check != 0 && post.commit_check != 1) {
        v.push(("C02", format!("chewing_commit_Check {} but chewing_commit_String {:?}", post.commit_check, post.commit)));
    }
    if post.commit_static != cut(&post.commit, 256) {
        v.push(("C02", format!("chewing_commit_String_static {:?} is not chewing_commit_String {:?}", post.commit_static, post.commit)));
    }
    let thr = post.modes[4];
    match st.key {
        Some((_, ret)) => {
            if (post.commit_check == 1) != (ret == EditorKeyBehavior::Commit) {
                v.push(("C02", format!("commit_Check {} (commit string {:?}) but the key result is {:?}", post.commit_check, post.commit, ret)));
            }
            if *st.op == Op::Named(N_ENTER) && st.pre_state == b'E' && pre.len > 0 {
                if post.commit_check != 1 || post.commit != pre.buf || post.len != 0 || !post.buf.is_empty() {
                    v.push(("C02", format!("Enter on pre-edit {:?}: commit_Check {} commit {:?}, buffer afterwards {:?} (len {})", pre.buf, post.commit_check, post.commit, post.buf, post.len)));
                }
            } else if post.commit_check == 1 {
                // a direct commit (nothing was composed) or characters pushed out of a full buffer
                if pre.len == 0 && post.len == 0 && thr > 0 && nchars(&post.commit) > 8 {
                    v.push(("C02", format!("a key with an empty pre-edit committed {:?}", post.commit)));
                }
                if post.len > thr {
                    v.push(("C02", format!("{} symbols remain after an auto-commit, the limit is {}", post.len, thr)));
                }
                let one_each = nchars(&pre.buf) == pre.len as usize && nchars(&post.buf) == post.len as usize && !has_bopomofo(&post.commit);
                if one_each {
                    let k = nchars(&post.commit) as i64 + post.len as i64 - pre.len as i64;
                    // Backspace / Delete (after the limit was lowered in mid-composition) take one away first
                    let lo = if matches!(st.op, Op::Named(N_BACKSPACE) | Op::Named(N_DEL)) { -1 } else { 0 };
                    if !(lo..=8).contains(&k) || (st.pre_state == b'S' && k > 1) {
                        v.push(("C02", format!("committed {:?} ({} chars) + {} remaining != {} before + those just typed", post.commit, nchars(&post.commit), post.len, pre.len)));
                    }
                }
            }
        }
        None => match st.op {
            Op::CommitPreedit => {
                if st.rc == 0 {
                    if post.commit != pre.buf || post.commit_check != 1 || post.len != 0 || !post.buf.is_empty() || pre.len == 0 {
                        v.push(("C02", format!("commit_preedit_buf on pre-edit {:?}: commit_Check {} commit {:?}, buffer afterwards {:?}", pre.buf, post.commit_check, post.commit, post.buf)));
                    }
                } else if pre.persistent_diff(post).is_some() || pre.commit != post.commit {
                    v.push(("C02", "commit_preedit_buf failed but changed the context".into()));
                }
            }
            Op::Ack | Op::Reset => {
                if post.commit_check != 0 || !post.commit.is_empty() {
                    v.push(("C02", format!("commit string {:?} still available after {}", post.commit, st.op.text())));
                }
            }
            Op::CandChoose(_) | Op::CleanPreedit => {}
            _ => {
                if pre.commit != post.commit || pre.commit_check != post.commit_check {
                    v.push(("C02", format!("{} changed the commit string {:?} -> {:?}", st.op.text(), pre.commit, post.commit)));
                }
            }
        },
    }
}

/// expected buffer `exp` / cursor `c` against the C getters after the call, directly or after an auto-commit cut a prefix off
fn matches_post(exp: &[String], c: usize, post: &Obs, thr: i32) -> bool {
    if post.len as usize == exp.len() {
        return post.cursor as usize == c && post.phone == syl_of(exp);
    }
    if post.commit_check != 1 || (exp.len() as i32) <= thr || post.len as usize >= exp.len() {
        return false;
    }
    let r = exp.len() - post.len as usize;
    post.len <= thr && post.cursor as usize == c.saturating_sub(r) && post.phone == syl_of(&exp[r..])
}

pub fn c05(st: &Step, v: &mut Verdicts) {
    let (pre, post) = (st.pre, st.post);
    if post.cursor < 0 || post.cursor > post.len {
        v.push(("C05", format!("chewing_cursor_Current {} outside 0..=chewing_buffer_Len {}", post.cursor, post.len)));
    }
    if post.buf_check != (post.len > 0) as i32 || post.phone_len != post.phone.len() as i32 || post.phone_len > post.len {
        v.push(("C05", format!("buffer getters disagree: buffer_Check {} buffer_Len {} phoneSeqLen {}", post.buf_check, post.len, post.phone_len)));
    }
    let Some((_, ret)) = st.key else { return };
    let thr = post.modes[4];
    // (both editing states: since the FX3/FX4 repair the auto-commit also runs while a syllable is being entered)
    if (st.post_state == b'E' || st.post_state == b'Y') && (ret == EditorKeyBehavior::Absorb || ret == EditorKeyBehavior::Commit) && post.len > thr {
        v.push(("C05", format!("chewing_buffer_Len {} > chewing_get_maxChiSymbolLen {} after a handled key", post.len, thr)));
    }
    let tok = st.pre_tok;
    let n = tok.len();
    let c0 = pre.cursor as usize;
    if n != pre.len as usize || c0 > n {
        return;
    }
    if st.pre_state == b'E' {
        let exp: Option<(Vec<String>, usize)> = match st.op {
            Op::Named(N_BACKSPACE) => {
                let mut t = tok.to_vec();
                if c0 > 0 {
                    t.remove(c0 - 1);
                    Some((t, c0 - 1))
                } else {
                    Some((t, c0))
                }
            }
            Op::Named(N_DEL) => {
                let mut t = tok.to_vec();
                if c0 < n {
                    t.remove(c0);
                }
                Some((t, c0))
            }
            Op::Named(N_HOME) if n > 0 => Some((tok.to_vec(), 0)),
            Op::Named(N_LEFT) if n > 0 => Some((tok.to_vec(), c0.saturating_sub(1))),
            Op::Named(N_RIGHT) if n > 0 => Some((tok.to_vec(), (c0 + 1).min(n))),
            Op::Named(N_END) | Op::Named(N_PAGE_UP) | Op::Named(N_PAGE_DOWN) if n > 0 => Some((tok.to_vec(), n)),
            _ => None,
        };
        if let Some((t, c)) = exp {
            if !matches_post(&t, c, post, thr) {
                v.push(("C05", format!(
                    "{} at cursor {} of [{}]: expected {} symbols, cursor {}, syllables {:?} (or a suffix after an auto-commit); the getters answer buffer_Len {} cursor_Current {} phoneSeq {:?}",
                    st.op.text(), c0, tok.join(" "), t.len(), c, syl_of(&t), post.len, post.cursor, post.phone)));
            }
        }
    } else if st.pre_state == b'Y' {
        let same = post.len as usize == n && post.cursor as usize == c0 && post.phone == pre.phone;
        let same_cut = post.commit_check == 1 && matches_post(tok, c0, post, thr);
        let cleared = *st.op == Op::Named(N_ESC) && pre.modes[7] == 1 && post.len == 0;
        // one syllable at the cursor: the inserted code is read from the answer itself
        let sidx = tok[..c0].iter().filter(|t| t.starts_with('s')).count();
        let mut one = false;
        if post.len as usize == n + 1 && post.phone.len() == pre.phone.len() + 1 && post.cursor as usize == c0 + 1 {
            let mut p = post.phone.clone();
            p.remove(sidx);
            one = p == pre.phone;
        } else if post.commit_check == 1 && (n as i32 + 1) > thr && post.len as usize <= n {
            let r = n + 1 - post.len as usize;
            let mut full: Vec<String> = tok.to_vec();
            full.insert(c0, "s?".into());
            let rest = &full[r..];
            let want: Vec<Option<u16>> = rest.iter().filter(|t| t.starts_with('s')).map(|t| t[1..].parse().ok()).collect();
            one = post.len <= thr
                && post.cursor as usize == (c0 + 1).saturating_sub(r)
                && want.len() == post.phone.len()
                && want.iter().zip(&post.phone).all(|(w, p)| w.map_or(true, |w| w == *p));
        }
        if !(same || same_cut || cleared || one) {
            v.push(("C05", format!(
                "{} while a syllable is being entered: buffer_Len {} cursor {} phoneSeq {:?} -> buffer_Len {} cursor {} phoneSeq {:?} is neither unchanged nor one syllable inserted at the cursor",
                st.op.text(), pre.len, pre.cursor, pre.phone, post.len, post.cursor, post.phone)));
        }
    }
}

pub fn c07(st: &Step, v: &mut Verdicts) {
    let (pre, post) = (st.pre, st.post);
    let per = post.per_page;
    if per != post.modes[3] || !(1..=10).contains(&per) {
        v.push(("C07", format!("chewing_cand_ChoicePerPage {} vs chewing_get_candPerPage {}", per, post.modes[3])));
        return;
    }
    if post.selecting() {
        let n = post.total_choice;
        if n <= 0 || post.list.iter().any(|s| s.is_empty()) {
            v.push(("C07", format!("a list is open with TotalChoice {} / an empty candidate string", n)));
        }
        if post.total_page != (n + per - 1) / per {
            v.push(("C07", format!("TotalPage {} != ceil(TotalChoice {} / ChoicePerPage {})", post.total_page, n, per)));
        }
        if post.cur_page < 0 || post.cur_page >= post.total_page {
            v.push(("C07", format!("CurrentPage {} not below TotalPage {}", post.cur_page, post.total_page)));
        }
        let from = (post.cur_page.max(0) as usize).saturating_mul(per as usize).min(post.list.len());
        if post.enumd != post.list[from..] {
            v.push(("C07", format!(
                "Enumerate on page {} (page size {}) lists {:?}, the candidates from index {} on are {:?}",
                post.cur_page, per, &post.enumd[..post.enumd.len().min(12)], from, &post.list[from..][..(post.list.len() - from).min(12)])));
        }
        if post.list_beyond.iter().any(|s| !s.is_empty()) {
            v.push(("C07", format!("cand_string_by_index outside 0..TotalChoice answers {:?}", post.list_beyond)));
        }
    } else if post.total_page != 0 || post.total_choice != 0 || post.cur_page != 0 || !post.enumd.is_empty() || post.has_next != 0 || post.has_prev != 0 {
        v.push(("C07", format!(
            "no list is open (CheckDone 1) but TotalPage {} TotalChoice {} CurrentPage {} enumerated {} has_next {} has_prev {}",
            post.total_page, post.total_choice, post.cur_page, post.enumd.len(), post.has_next, post.has_prev)));
    }
    // choosing
    let choice: Option<(i64, bool)> = match st.op {
        Op::CandChoose(i) => Some((*i as i64, true)),
        Op::Default(k) if pre.selecting() => pre.selkeys.iter().position(|s| s == k).map(|i| (i as i64, false)),
        _ => None,
    };
    if let Some((i, api)) = choice {
        let idx = pre.cur_page as i64 * pre.per_page as i64 + i;
        let in_range = pre.selecting() && i >= 0 && idx < pre.total_choice as i64;
        if !in_range {
            if api && st.rc != -1 {
                v.push(("C07", format!("cand_choose_by_index({}) on page {} of {} candidates (page size {}) returned {}", i, pre.cur_page, pre.total_choice, pre.per_page, st.rc)));
            }
            if let Some(g) = pre.persistent_diff(post) {
                v.push(("C07", format!("an out-of-range choice ({} on page {}, {} candidates, page size {}) changed {}", i, pre.cur_page, pre.total_choice, pre.per_page, g)));
            }
        } else {
            let cand = &pre.list[idx as usize];
            if api && st.rc != 0 {
                v.push(("C07", format!("cand_choose_by_index({}) = candidate {} {:?} of {} was rejected ({})", i, idx, cand, pre.total_choice, st.rc)));
            } else if !post.selecting() {
                let shown = format!("{}{}", post.commit, post.buf);
                let grown = post.len - pre.len;
                if !shown.contains(cand.as_str()) || (post.commit_check == 0 && !(0..=1).contains(&grown)) {
                    v.push(("C07", format!(
                        "choice {} on page {} (page size {}) = candidate {} {:?}: afterwards the pre-edit is {:?} (len {} -> {}), commit {:?}",
                        i, pre.cur_page, pre.per_page, idx, cand, post.buf, pre.len, post.len, post.commit)));
                }
            } else if post.cur_page != 0 {
                v.push(("C07", format!("choice {} opened a sub-list on page {}", i, post.cur_page)));
            }
        }
    }
    match st.op {
        Op::CandOpen => {
            if (st.rc == 0) != post.selecting() || (st.rc != 0 && st.rc != -1) {
                v.push(("C07", format!("cand_open returned {} and CheckDone is {}", st.rc, post.check_done)));
            }
        }
        Op::CandClose => {
            if st.rc != 0 || post.selecting() || pre.buf != post.buf || pre.len != post.len || pre.phone != post.phone {
                v.push(("C07", format!("cand_close returned {}: CheckDone {} pre-edit {:?} -> {:?}", st.rc, post.check_done, pre.buf, post.buf)));
            }
        }
        Op::Named(k) if pre.selecting() && matches!(*k, N_LEFT | N_PAGE_UP | N_RIGHT | N_PAGE_DOWN) => {
            let want = if matches!(*k, N_LEFT | N_PAGE_UP) {
                if pre.cur_page > 0 { pre.cur_page - 1 } else { pre.total_page - 1 }
            } else if pre.cur_page + 1 < pre.total_page {
                pre.cur_page + 1
            } else {
                0
            };
            if !post.selecting() || post.cur_page != want || post.list != pre.list {
                v.push(("C07", format!("handle_{} on page {} of {}: CurrentPage {} (expected {}), list open {}, list unchanged {}", NAMED[*k as usize], pre.cur_page, pre.total_page, post.cur_page, want, post.selecting(), post.list == pre.list)));
            }
        }
        _ => {}
    }
}
