//! C17 on the real C API (`capi/src/io.rs`): paired executions inside worker child processes (a panic
//! inside an `extern "C"` function aborts the process).
//!
//! Which calls are QUERIES at this level (inserted freely into twin B, never into twin A):
//!   * every plain getter (`chewing_*_Check`, `*_String`, `*_String_static`, `*_Len`, `*_Current`,
//!     `chewing_cand_TotalPage/…/string_by_index(_static)`, `chewing_cand_list_has_next/prev`,
//!     `chewing_get_*`, `chewing_config_get_*`, `chewing_config_has_option`, `chewing_userphrase_lookup`,
//!     `chewing_keystroke_Check*`, `chewing_kbtype_Total`, `chewing_zuin_*`, `chewing_get_phoneSeq*`);
//!   * the enumerate-style calls `chewing_{cand,interval,kbtype}_Enumerate/hasNext/String/Get` and
//!     `chewing_userphrase_enumerate/has_next/get` — stateful BY DESIGN: they write their own iterator slot
//!     of the context and nothing else.  They are inserted complete, abandoned half-way, and "raw"
//!     (hasNext/String without Enumerate).
//! What is compared: the return value of every operation, and at random positions / at the end the
//! OBSERVATION of the context = all plain getters + the four documented loops `Enumerate; while hasNext
//! { get }` (a slot is only ever read after its own Enumerate — the raw slot content is the one thing
//! the inserted calls are allowed to change).
//!
//! Sections:  G  with / without getters;  R  `chewing_Reset` after a random prefix vs. a context newly
//! created with the same configuration and user phrases;  P  context A alone vs. beside another
//! context B (interleaved on one thread, and B running freely on a second thread);  D  contexts created with
//! DIFFERENT creation arguments (own system data directory with its own dictionaries / symbols.dat / swkb.dat /
//! drop-in dictionary, own user path, own initial options) in one process, in both creation orders, interleaved
//! and on one thread per context, each compared call by call with the SAME context run ALONE in a fresh process
//! (anything derived from a data directory that is shared by accident — a process-wide cache — shows here);
//! L  the process-wide logger slot (finding F33).
use chewing_capi::candidates::*;
use chewing_capi::globals::*;
use chewing_capi::input::*;
use chewing_capi::layout::*;
use chewing_capi::modes::*;
use chewing_capi::output::*;
use chewing_capi::setup::*;
use chewing_capi::userphrase::*;
use std::ffi::{c_char, c_int, c_uint, c_void, CStr, CString};
use std::fmt::Write as _;
use std::io::{BufRead, BufReader, Write};
use std::process::{Command, Stdio};
use std::sync::atomic::{AtomicBool, AtomicU64, Ordering};
use std::sync::{Arc, Mutex};
use vharness::*;

type Ctx = *mut ChewingContext;

// ------------------------------------------------------------------ contexts

struct Home {
    _dir: tempfile::TempDir,
    sys: CString,
    user: CString,
}

/// `mini` = a system path without dictionaries: the built-in single-character dictionary (many candidates
/// per syllable, several pages); otherwise the repository's tests/data (測 策 試 測試 …)
fn home(mini: bool) -> Home {
    let dir = tempfile::tempdir().unwrap();
    let repo = std::env::var("VERIF_REPO").unwrap_or_else(|_| "/repo".into());
    let sys = if mini { format!("{}/no-dictionaries-here", dir.path().display()) } else { format!("{}/tests/data", repo) };
    // an in-memory user dictionary private to the context (contexts do not share a user-dictionary file)
    let user = format!("{}/:memory:", dir.path().display());
    Home { sys: CString::new(sys).unwrap(), user: CString::new(user).unwrap(), _dir: dir }
}

fn new_ctx(h: &Home) -> Ctx {
    unsafe { chewing_new2(h.sys.as_ptr(), h.user.as_ptr(), None, std::ptr::null_mut()) }
}

// ------------------------------------------------------------------ operations (everything that is NOT a query)

const PHRASES: [(&str, &str); 6] = [
    ("測試", "ㄘㄜˋ ㄕˋ"),
    ("策士", "ㄘㄜˋ ㄕˋ"),
    ("冊", "ㄘㄜˋ"),
    ("測測", "ㄘㄜˋ ㄘㄜˋ"),
    ("試試測", "ㄕˋ ㄕˋ ㄘㄜˋ"),
    ("是", "ㄕˋ"),
];

const INT_OPTS: [&str; 4] = [
    "chewing.conversion_engine",
    "chewing.enable_fullwidth_toggle_key",
    "chewing.character_form",
    "chewing.language_mode",
];

#[derive(Clone, Debug, PartialEq)]
enum Op {
    Default(u8),
    Named(u8),
    CtrlNum(u8),
    CandOpen,
    CandClose,
    CandChoose(i32),
    CandList(u8),
    CommitPreedit,
    CleanPreedit,
    CleanBopomofo,
    Ack,
    Reset,
    Set(u8, i32),
    SetOpt(u8, i32),
    SetKb(i32),
    UserAdd(u8),
    UserRemove(u8),
}

const NAMED: [&str; 20] = [
    "Space", "Esc", "Enter", "Del", "Backspace", "Tab", "ShiftLeft", "Left", "ShiftRight", "Right", "Up", "Home",
    "End", "PageUp", "PageDown", "Down", "Capslock", "ShiftSpace", "DblTab", "Numlock",
];

impl Op {
    fn is_config(&self) -> bool {
        matches!(self, Op::Set(..) | Op::SetOpt(..) | Op::SetKb(..))
    }
    fn is_user(&self) -> bool {
        matches!(self, Op::UserAdd(..) | Op::UserRemove(..))
    }
    fn text(&self) -> String {
        match self {
            Op::Default(k) => format!("Default('{}')", *k as char),
            Op::Named(i) => format!("handle_{}", NAMED[*i as usize]),
            Op::CtrlNum(k) => format!("CtrlNum('{}')", *k as char),
            Op::CandChoose(i) => format!("cand_choose_by_index({})", i),
            Op::CandList(i) => format!("cand_list_{}", ["first", "last", "next", "prev"][*i as usize]),
            Op::Set(w, v) => format!("set_{}({})", SETTERS[*w as usize], v),
            Op::SetOpt(w, v) => format!("config_set_int({},{})", INT_OPTS[*w as usize], v),
            Op::SetKb(k) => format!("set_KBType({})", k),
            Op::UserAdd(i) => format!("userphrase_add({})", PHRASES[*i as usize].0),
            Op::UserRemove(i) => format!("userphrase_remove({})", PHRASES[*i as usize].0),
            o => format!("{:?}", o),
        }
    }
}

const SETTERS: [&str; 11] = [
    "ChiEngMode", "ShapeMode", "candPerPage", "maxChiSymbolLen", "addPhraseDirection", "spaceAsSelection",
    "escCleanAllBuf", "autoShiftCur", "easySymbolInput", "phraseChoiceRearward", "autoLearn",
];

unsafe fn apply(ctx: Ctx, op: &Op) -> c_int {
    unsafe {
        match op {
            Op::Default(k) => chewing_handle_Default(ctx, *k as c_int),
            Op::Named(i) => match i {
                0 => chewing_handle_Space(ctx),
                1 => chewing_handle_Esc(ctx),
                2 => chewing_handle_Enter(ctx),
                3 => chewing_handle_Del(ctx),
                4 => chewing_handle_Backspace(ctx),
                5 => chewing_handle_Tab(ctx),
                6 => chewing_handle_ShiftLeft(ctx),
                7 => chewing_handle_Left(ctx),
                8 => chewing_handle_ShiftRight(ctx),
                9 => chewing_handle_Right(ctx),
                10 => chewing_handle_Up(ctx),
                11 => chewing_handle_Home(ctx),
                12 => chewing_handle_End(ctx),
                13 => chewing_handle_PageUp(ctx),
                14 => chewing_handle_PageDown(ctx),
                15 => chewing_handle_Down(ctx),
                16 => chewing_handle_Capslock(ctx),
                17 => chewing_handle_ShiftSpace(ctx),
                18 => chewing_handle_DblTab(ctx),
                _ => chewing_handle_Numlock(ctx, b'1' as c_int),
            },
            Op::CtrlNum(k) => chewing_handle_CtrlNum(ctx, *k as c_int),
            Op::CandOpen => chewing_cand_open(ctx),
            Op::CandClose => chewing_cand_close(ctx),
            Op::CandChoose(i) => chewing_cand_choose_by_index(ctx, *i),
            Op::CandList(i) => match i {
                0 => chewing_cand_list_first(ctx),
                1 => chewing_cand_list_last(ctx),
                2 => chewing_cand_list_next(ctx),
                _ => chewing_cand_list_prev(ctx),
            },
            Op::CommitPreedit => chewing_commit_preedit_buf(ctx),
            Op::CleanPreedit => chewing_clean_preedit_buf(ctx),
            Op::CleanBopomofo => chewing_clean_bopomofo_buf(ctx),
            Op::Ack => chewing_ack(ctx),
            Op::Reset => chewing_Reset(ctx),
            Op::Set(w, v) => {
                match w {
                    0 => chewing_set_ChiEngMode(ctx, *v),
                    1 => chewing_set_ShapeMode(ctx, *v),
                    2 => chewing_set_candPerPage(ctx, *v),
                    3 => chewing_set_maxChiSymbolLen(ctx, *v),
                    4 => chewing_set_addPhraseDirection(ctx, *v),
                    5 => chewing_set_spaceAsSelection(ctx, *v),
                    6 => chewing_set_escCleanAllBuf(ctx, *v),
                    7 => chewing_set_autoShiftCur(ctx, *v),
                    8 => chewing_set_easySymbolInput(ctx, *v),
                    9 => chewing_set_phraseChoiceRearward(ctx, *v),
                    _ => chewing_set_autoLearn(ctx, *v),
                };
                0
            }
            Op::SetOpt(w, v) => {
                let n = CString::new(INT_OPTS[*w as usize]).unwrap();
                chewing_config_set_int(ctx, n.as_ptr(), *v)
            }
            Op::SetKb(k) => chewing_set_KBType(ctx, *k),
            Op::UserAdd(i) => {
                let (p, b) = PHRASES[*i as usize];
                let (p, b) = (CString::new(p).unwrap(), CString::new(b).unwrap());
                chewing_userphrase_add(ctx, p.as_ptr(), b.as_ptr())
            }
            Op::UserRemove(i) => {
                let (p, b) = PHRASES[*i as usize];
                let (p, b) = (CString::new(p).unwrap(), CString::new(b).unwrap());
                chewing_userphrase_remove(ctx, p.as_ptr(), b.as_ptr())
            }
        }
    }
}

const SYL_KEYS: [&str; 8] = ["hk4", "g4", "su3", "cl3", "ji3", "5j/ ", "rup ", "2k7"];

/// next operation(s); `selecting` biases towards candidate-list operations
fn gen_ops(rng: &mut Rng, selecting: bool, allow_reset: bool, allow_user: bool) -> Vec<Op> {
    let w: Vec<u32> = if selecting {
        //   syl nav del open page choose close misc cfg user reset sym
        vec![2, 6, 2, 1, 10, 10, 3, 2, 3, 1, 1, 1]
    } else {
        vec![30, 10, 5, 10, 1, 1, 1, 6, 5, 3, 1, 4]
    };
    match rng.weighted(&w) {
        0 => {
            let mut ks: Vec<Op> = rng.pick(&SYL_KEYS).bytes().map(Op::Default).collect();
            if rng.chance(1, 8) {
                ks.truncate(1 + rng.below(ks.len() as u64) as usize);
            }
            ks
        }
        1 => vec![Op::Named(*rng.pick(&[6u8, 7, 8, 9, 7, 9, 11, 12, 13, 14, 10]))],
        2 => vec![Op::Named(*rng.pick(&[3u8, 4, 4, 1]))],
        3 => vec![if rng.chance(1, 3) { Op::CandOpen } else { Op::Named(*rng.pick(&[15u8, 15, 0])) }],
        4 => vec![if rng.chance(1, 2) { Op::Named(*rng.pick(&[7u8, 9, 13, 14, 0, 15])) } else { Op::CandList(rng.below(4) as u8) }],
        5 => vec![if rng.chance(1, 2) {
            Op::CandChoose(*rng.pick(&[0, 1, 2, 3, 7, 12, 100]))
        } else {
            Op::Default(*rng.pick(b"1234567890"))
        }],
        6 => vec![if rng.chance(1, 2) { Op::CandClose } else { Op::Named(1) }],
        7 => vec![match rng.below(9) {
            0 => Op::Named(2),
            1 => Op::CommitPreedit,
            2 => Op::CleanPreedit,
            3 => Op::CleanBopomofo,
            4 => Op::Ack,
            5 => Op::Named(5),
            6 => Op::Named(18),
            7 => Op::CtrlNum(*rng.pick(b"23490")),
            _ => Op::Named(*rng.pick(&[16u8, 17, 19])),
        }],
        8 => vec![match rng.below(14) {
            0 => Op::Set(0, rng.below(2) as i32),
            1 => Op::Set(1, rng.below(2) as i32),
            2 => Op::Set(2, 1 + rng.below(10) as i32),
            3 => Op::Set(3, *rng.pick(&[0, 1, 2, 3, 5, 20, 39])),
            4..=10 => {
                let w = 4 + rng.below(7) as u8;
                Op::Set(w, rng.below(2) as i32)
            }
            11 => Op::SetOpt(0, rng.below(3) as i32),
            12 => Op::SetOpt(1 + rng.below(3) as u8, rng.below(2) as i32),
            _ => Op::SetKb(*rng.pick(&[0, 0, 1, 2, 3, 4, 5, 6, 7, 8, 9, 10, 11, 12])),
        }],
        9 if allow_user => vec![if rng.chance(2, 3) { Op::UserAdd(rng.below(6) as u8) } else { Op::UserRemove(rng.below(6) as u8) }],
        10 if allow_reset => vec![Op::Reset],
        _ => vec![Op::Default(*rng.pick(b",.<>?!a[]'-=Z"))],
    }
}

// ------------------------------------------------------------------ queries

unsafe fn owned(p: *mut c_char) -> String {
    if p.is_null() {
        return "NULL".into();
    }
    let s = unsafe { CStr::from_ptr(p) }.to_string_lossy().into_owned();
    unsafe { chewing_free(p as *mut c_void) };
    hx(&s)
}

unsafe fn borrowed(p: *const c_char) -> String {
    if p.is_null() {
        return "NULL".into();
    }
    hx(&unsafe { CStr::from_ptr(p) }.to_string_lossy())
}

const N_PLAIN: u64 = 52;
const CFG_NAMES: [&str; 15] = [
    "chewing.auto_commit_threshold", "chewing.auto_shift_cursor", "chewing.candidates_per_page", "chewing.character_form",
    "chewing.conversion_engine", "chewing.disable_auto_learn_phrase", "chewing.easy_symbol_input",
    "chewing.enable_fullwidth_toggle_key", "chewing.esc_clear_all_buffer", "chewing.keyboard_type", "chewing.language_mode",
    "chewing.phrase_choice_rearward", "chewing.selection_keys", "chewing.space_is_select_key", "chewing.user_phrase_add_direction",
];

/// plain getter `i`
unsafe fn plain(ctx: Ctx, i: u64, arg: u64) -> String {
    unsafe {
        match i {
            0 => format!("commit_Check {}", chewing_commit_Check(ctx)),
            1 => format!("commit_String {}", owned(chewing_commit_String(ctx))),
            2 => format!("commit_String_static {}", borrowed(chewing_commit_String_static(ctx))),
            3 => format!("buffer_String {}", owned(chewing_buffer_String(ctx))),
            4 => format!("buffer_String_static {}", borrowed(chewing_buffer_String_static(ctx))),
            5 => format!("buffer_Check {}", chewing_buffer_Check(ctx)),
            6 => format!("buffer_Len {}", chewing_buffer_Len(ctx)),
            7 => format!("bopomofo_String_static {}", borrowed(chewing_bopomofo_String_static(ctx))),
            8 => format!("bopomofo_String {}", owned(chewing_bopomofo_String(ctx))),
            9 => format!("bopomofo_Check {}", chewing_bopomofo_Check(ctx)),
            10 => format!("cursor_Current {}", chewing_cursor_Current(ctx)),
            11 => format!("cand_CheckDone {}", chewing_cand_CheckDone(ctx)),
            12 => format!("cand_TotalPage {}", chewing_cand_TotalPage(ctx)),
            13 => format!("cand_ChoicePerPage {}", chewing_cand_ChoicePerPage(ctx)),
            14 => format!("cand_TotalChoice {}", chewing_cand_TotalChoice(ctx)),
            15 => format!("cand_CurrentPage {}", chewing_cand_CurrentPage(ctx)),
            16 => {
                let k = (arg % 14) as c_int - 1;
                format!("cand_string_by_index({}) {}", k, owned(chewing_cand_string_by_index(ctx, k)))
            }
            17 => {
                let k = (arg % 14) as c_int - 1;
                format!("cand_string_by_index_static({}) {}", k, borrowed(chewing_cand_string_by_index_static(ctx, k)))
            }
            18 => format!("cand_list_has_next {}", chewing_cand_list_has_next(ctx)),
            19 => format!("cand_list_has_prev {}", chewing_cand_list_has_prev(ctx)),
            20 => format!("aux_Check {}", chewing_aux_Check(ctx)),
            21 => format!("aux_Length {}", chewing_aux_Length(ctx)),
            22 => format!("aux_String {}", owned(chewing_aux_String(ctx))),
            23 => format!("aux_String_static {}", borrowed(chewing_aux_String_static(ctx))),
            24 => format!("keystroke_CheckIgnore {}", chewing_keystroke_CheckIgnore(ctx)),
            25 => format!("keystroke_CheckAbsorb {}", chewing_keystroke_CheckAbsorb(ctx)),
            26 => format!("kbtype_Total {}", chewing_kbtype_Total(ctx)),
            27 => format!("get_KBType {}", chewing_get_KBType(ctx)),
            28 => format!("get_KBString {}", owned(chewing_get_KBString(ctx))),
            29 => format!("get_ChiEngMode {}", chewing_get_ChiEngMode(ctx)),
            30 => format!("get_ShapeMode {}", chewing_get_ShapeMode(ctx)),
            31 => format!("get_candPerPage {}", chewing_get_candPerPage(ctx)),
            32 => format!("get_maxChiSymbolLen {}", chewing_get_maxChiSymbolLen(ctx)),
            33 => {
                let p = chewing_get_selKey(ctx);
                let mut o = String::from("get_selKey");
                if !p.is_null() {
                    for j in 0..10 {
                        let _ = write!(o, " {}", *p.add(j));
                    }
                    // NOT passed to chewing_free although the documentation asks for it: the pointer is into the
                    // context, and the process-wide OWNED registry never forgets freed addresses, so a stale entry
                    // with this address makes chewing_free release memory inside the context (observed: SIGSEGV
                    // some traces later; C15's subject)
                }
                o
            }
            34 => format!("get_addPhraseDirection {}", chewing_get_addPhraseDirection(ctx)),
            35 => format!("get_spaceAsSelection {}", chewing_get_spaceAsSelection(ctx)),
            36 => format!("get_escCleanAllBuf {}", chewing_get_escCleanAllBuf(ctx)),
            37 => format!("get_autoShiftCur {}", chewing_get_autoShiftCur(ctx)),
            38 => format!("get_easySymbolInput {}", chewing_get_easySymbolInput(ctx)),
            39 => format!("get_phraseChoiceRearward {}", chewing_get_phraseChoiceRearward(ctx)),
            40 => format!("get_autoLearn {}", chewing_get_autoLearn(ctx)),
            41 => {
                let n = chewing_get_phoneSeqLen(ctx);
                let p = chewing_get_phoneSeq(ctx);
                let mut o = format!("get_phoneSeq {}", n);
                if !p.is_null() {
                    for j in 0..n.max(0) as usize {
                        let _ = write!(o, " {}", *p.add(j));
                    }
                    chewing_free(p as *mut c_void);
                }
                o
            }
            42 => format!("get_phoneSeqLen {}", chewing_get_phoneSeqLen(ctx)),
            43 => {
                let name = CFG_NAMES[(arg % 15) as usize];
                let n = CString::new(name).unwrap();
                format!("config_get_int({}) {}", name, chewing_config_get_int(ctx, n.as_ptr()))
            }
            44 => {
                let name = CFG_NAMES[(arg % 15) as usize];
                let n = CString::new(name).unwrap();
                let mut v: *mut c_char = std::ptr::null_mut();
                let rc = chewing_config_get_str(ctx, n.as_ptr(), &mut v);
                format!("config_get_str({}) {} {}", name, rc, if rc == 0 { owned(v) } else { "-".into() })
            }
            45 => {
                let name = if arg % 4 == 0 { "chewing.no_such_option" } else { CFG_NAMES[(arg % 15) as usize] };
                let n = CString::new(name).unwrap();
                format!("config_has_option({}) {}", name, chewing_config_has_option(ctx, n.as_ptr()))
            }
            46 => {
                let (p, b) = PHRASES[(arg % 6) as usize];
                let (pc, bc) = (CString::new(p).unwrap(), CString::new(b).unwrap());
                format!("userphrase_lookup({}) {}", p, chewing_userphrase_lookup(ctx, pc.as_ptr(), bc.as_ptr()))
            }
            47 => {
                let (_, b) = PHRASES[(arg % 6) as usize];
                let bc = CString::new(b).unwrap();
                format!("userphrase_lookup(NULL,{}) {}", b, chewing_userphrase_lookup(ctx, std::ptr::null(), bc.as_ptr()))
            }
            48 => format!("zuin_Check {}", chewing_zuin_Check(ctx)),
            49 => {
                let mut n: c_int = -7;
                let s = owned(chewing_zuin_String(ctx, &mut n));
                format!("zuin_String {} {}", s, n)
            }
            50 => format!("get_hsuSelKeyType {}", chewing_get_hsuSelKeyType(ctx)),
            _ => format!("cand_string_by_index_static(0) {}", borrowed(chewing_cand_string_by_index_static(ctx, 0))),
        }
    }
}

thread_local! {
    /// ask `hasNext` twice per item (it must be idempotent: it peeks)
    static DBL: std::cell::Cell<bool> = const { std::cell::Cell::new(false) };
    /// a violation of the slot protocol noticed inside `observe`
    static ANOMALY: std::cell::RefCell<Option<String>> = const { std::cell::RefCell::new(None) };
}

fn dbl() -> bool {
    DBL.with(|d| d.get())
}

/// the documented loops; `limit` = how many items are fetched before the loop is abandoned
unsafe fn cand_loop(ctx: Ctx, limit: usize, stat: bool) -> String {
    unsafe {
        let mut o = String::from("cand[");
        chewing_cand_Enumerate(ctx);
        let mut n = 0;
        while n < limit && chewing_cand_hasNext(ctx) == 1 && (!dbl() || chewing_cand_hasNext(ctx) == 1) {
            let s = if stat { borrowed(chewing_cand_String_static(ctx)) } else { owned(chewing_cand_String(ctx)) };
            let _ = write!(o, " {}", s);
            n += 1;
        }
        o.push(']');
        o
    }
}

unsafe fn interval_loop(ctx: Ctx, limit: usize) -> String {
    unsafe {
        let mut o = String::from("interval[");
        chewing_interval_Enumerate(ctx);
        let mut n = 0;
        while n < limit && chewing_interval_hasNext(ctx) == 1 && (!dbl() || chewing_interval_hasNext(ctx) == 1) {
            let mut it = IntervalType { from: -1, to: -1 };
            chewing_interval_Get(ctx, &mut it);
            let _ = write!(o, " {}-{}", it.from, it.to);
            n += 1;
        }
        o.push(']');
        o
    }
}

unsafe fn kbtype_loop(ctx: Ctx, limit: usize, stat: bool) -> String {
    unsafe {
        let mut o = String::from("kbtype[");
        chewing_kbtype_Enumerate(ctx);
        let mut n = 0;
        while n < limit && chewing_kbtype_hasNext(ctx) == 1 && (!dbl() || chewing_kbtype_hasNext(ctx) == 1) {
            let s = if stat { borrowed(chewing_kbtype_String_static(ctx)) } else { owned(chewing_kbtype_String(ctx)) };
            let _ = write!(o, " {}", s);
            n += 1;
        }
        o.push(']');
        o
    }
}

unsafe fn userphrase_loop(ctx: Ctx, limit: usize) -> String {
    unsafe {
        let mut o = format!("userphrase[{}:", chewing_userphrase_enumerate(ctx));
        let mut n = 0;
        let (mut pl, mut bl): (c_uint, c_uint) = (0, 0);
        while n < limit && chewing_userphrase_has_next(ctx, &mut pl, &mut bl) == 1 && (!dbl() || chewing_userphrase_has_next(ctx, &mut pl, &mut bl) == 1) {
            let mut pb = vec![0u8; pl as usize + 1];
            let mut bb = vec![0u8; bl as usize + 1];
            let rc = chewing_userphrase_get(ctx, pb.as_mut_ptr().cast(), pb.len() as c_uint, bb.as_mut_ptr().cast(), bb.len() as c_uint);
            let _ = write!(o, " {}:{}:{}", rc, borrowed(pb.as_ptr().cast()), borrowed(bb.as_ptr().cast()));
            n += 1;
        }
        o.push(']');
        o
    }
}

/// slot reads without a preceding Enumerate
unsafe fn raw(ctx: Ctx, i: u64) -> String {
    unsafe {
        match i {
            0 => format!("raw cand_hasNext {}", chewing_cand_hasNext(ctx)),
            1 => format!("raw cand_String {}", owned(chewing_cand_String(ctx))),
            2 => format!("raw cand_String_static {}", borrowed(chewing_cand_String_static(ctx))),
            3 => format!("raw interval_hasNext {}", chewing_interval_hasNext(ctx)),
            4 => {
                let mut it = IntervalType { from: -1, to: -1 };
                chewing_interval_Get(ctx, &mut it);
                format!("raw interval_Get {}-{}", it.from, it.to)
            }
            5 => format!("raw kbtype_hasNext {}", chewing_kbtype_hasNext(ctx)),
            6 => format!("raw kbtype_String {}", owned(chewing_kbtype_String(ctx))),
            // NOT inserted: chewing_userphrase_has_next/get without a preceding chewing_userphrase_enumerate — the slot
            // holds a borrowed B-tree iterator that any update of the user dictionary invalidates (undefined
            // behaviour, observed as an abort inside alloc::collections::btree::navigate; C15's subject)
            _ => format!("raw kbtype_String_static {}", borrowed(chewing_kbtype_String_static(ctx))),
        }
    }
}

/// one inserted query of any kind (answer returned for the repeat test, otherwise discarded)
unsafe fn any_query(ctx: Ctx, rng: &mut Rng, counts: &mut [u64; 4]) -> String {
    unsafe {
        match rng.weighted(&[12, 3, 2]) {
            0 => {
                counts[0] += 1;
                let (i, a) = (rng.below(N_PLAIN), rng.below(1000));
                let x = plain(ctx, i, a);
                // repeating a plain getter returns an equal value
                let y = plain(ctx, i, a);
                if x != y { format!("REPEAT-DIFFERS [{}] [{}]", x, y) } else { x }
            }
            1 => {
                // complete or abandoned enumerations
                let lim = *rng.pick(&[0usize, 1, 2, 3, 1000]);
                if lim == 1000 { counts[1] += 1 } else { counts[2] += 1 }
                match rng.below(4) {
                    0 => cand_loop(ctx, lim, rng.chance(1, 2)),
                    1 => interval_loop(ctx, lim),
                    2 => kbtype_loop(ctx, lim, rng.chance(1, 2)),
                    _ => userphrase_loop(ctx, lim),
                }
            }
            _ => {
                counts[3] += 1;
                raw(ctx, rng.below(8))
            }
        }
    }
}

/// the observation of a context: all plain getters (a fixed argument per parametrised getter) and the four complete loops
unsafe fn observe(ctx: Ctx) -> String {
    unsafe {
        let mut o = String::new();
        for i in 0..N_PLAIN {
            match i {
                16 | 17 => {
                    for a in 0..4 {
                        let _ = write!(o, "{} | ", plain(ctx, i, a));
                    }
                }
                43 | 44 | 45 => {
                    for a in 0..15 {
                        let _ = write!(o, "{} | ", plain(ctx, i, a));
                    }
                }
                46 | 47 => {
                    for a in 0..6 {
                        let _ = write!(o, "{} | ", plain(ctx, i, a));
                    }
                }
                _ => {
                    let _ = write!(o, "{} | ", plain(ctx, i, 0));
                }
            }
        }
        let loops = |ctx: Ctx| format!("{} | {} | {} | {}", cand_loop(ctx, 100000, false), interval_loop(ctx, 100000), kbtype_loop(ctx, 1000, true), userphrase_loop(ctx, 100000));
        let l1 = loops(ctx);
        // the same loops asking hasNext twice per item, and the candidate loop against the indexed getter
        DBL.with(|d| d.set(true));
        let l2 = loops(ctx);
        DBL.with(|d| d.set(false));
        if l1 != l2 {
            ANOMALY.with(|a| *a.borrow_mut() = Some(format!("hasNext is not idempotent: loop with one hasNext per item {} ; with two {}", first_diff(&l1, &l2), "(see first)")));
        }
        let _ = write!(o, "{}", l1);
        o
    }
}

// ------------------------------------------------------------------ sections

struct W {
    out: Out,
}

impl W {
    fn fail(&mut self, what: &str, hist: &[String], seed: u64, detail: &str) {
        self.out.oracle_fail("C17", "new", &format!("capi {}: {} ; trace-seed {} calls [{}]", what, detail, seed, hist.join(" ; ")));
    }
}

fn anomaly(w: &mut W, hist: &[String], seed: u64) -> bool {
    match ANOMALY.with(|a| a.borrow_mut().take()) {
        Some(x) => {
            // the first few are enough
            if ANOMALIES.fetch_add(1, Ordering::Relaxed) < 3 {
                w.fail("iterator slot protocol", hist, seed, &x);
            }
            true
        }
        None => false,
    }
}

fn first_diff(a: &str, b: &str) -> String {
    let (pa, pb): (Vec<&str>, Vec<&str>) = (a.split(" | ").collect(), b.split(" | ").collect());
    for (x, y) in pa.iter().zip(pb.iter()) {
        if x != y {
            return format!("[{}] vs [{}]", x, y);
        }
    }
    "(lengths differ)".into()
}

fn selecting(ctx: Ctx) -> bool {
    // generation only: the list is open iff there are choices
    unsafe { chewing_cand_TotalChoice(ctx) > 0 }
}

/// G: the same calls with / without inserted queries
fn trace_getters(w: &mut W, seed: u64, n_ops: usize, st: &mut Stats) {
    let mut rng = Rng::new(seed);
    let mini = rng.chance(1, 2);
    let (ha, hb) = (home(mini), home(mini));
    let (a, b) = (new_ctx(&ha), new_ctx(&hb));
    let mut hist: Vec<String> = vec![];
    let mut sel = false;
    let mut ok = true;
    st.g_traces += 1;
    'outer: for _ in 0..n_ops {
        for op in gen_ops(&mut rng, sel, true, true) {
            // twin B only: a burst of queries of all kinds before the operation
            if rng.chance(2, 3) {
                for _ in 0..(1 + rng.below(5)) {
                    let q = unsafe { any_query(b, &mut rng, &mut st.inserted) };
                    if q.starts_with("REPEAT-DIFFERS") {
                        hist.push("(queries)".into());
                        w.fail("a getter answers differently when repeated", &hist, seed, &q);
                        ok = false;
                        break 'outer;
                    }
                    hist.push(format!("B?{}", q.split(' ').next().unwrap_or("")));
                }
            }
            hist.push(op.text());
            let (ra, rb) = unsafe { (apply(a, &op), apply(b, &op)) };
            st.g_ops += 1;
            if ra != rb {
                w.fail("with/without queries: return values differ", &hist, seed, &format!("{} vs {}", ra, rb));
                ok = false;
                break 'outer;
            }
            if rng.chance(1, 5) {
                st.observations += 1;
                let (oa, ob) = unsafe { (observe(a), observe(b)) };
                anomaly(w, &hist, seed);
                if oa != ob {
                    w.fail("with/without queries: observations differ", &hist, seed, &first_diff(&oa, &ob));
                    ok = false;
                    break 'outer;
                }
            }
            sel = selecting(a);
        }
    }
    if ok {
        st.observations += 1;
        let (oa, ob) = unsafe { (observe(a), observe(b)) };
        anomaly(w, &hist, seed);
        if oa != ob {
            w.fail("with/without queries: observations differ at the end", &hist, seed, &first_diff(&oa, &ob));
        }
    }
    unsafe {
        chewing_delete(a);
        chewing_delete(b);
    }
}

/// G (every third trace): the enumerate-style calls are OPERATIONS of the history here - both twins make the same
/// Enumerate / hasNext / String / Get calls at the same positions, complete, abandoned half-way and raw (a slot read
/// without its Enumerate, e.g. a pending candidate enumeration read again after the list was closed), and their
/// answers are compared - and only PLAIN getters are inserted into twin B.  A plain getter that disturbs an iterator
/// slot (seeded change C17-totalchoice-drops-cand-iter, missed by the other form: there a slot is only read after
/// its own Enumerate) changes the answer of a later slot call.
fn trace_getters_slots(w: &mut W, seed: u64, n_ops: usize, st: &mut Stats) {
    let mut rng = Rng::new(seed);
    let mini = rng.chance(1, 2);
    let (ha, hb) = (home(mini), home(mini));
    let (a, b) = (new_ctx(&ha), new_ctx(&hb));
    let mut hist: Vec<String> = vec![];
    let mut sel = false;
    st.g_slot_traces += 1;
    'outer: for _ in 0..n_ops {
        for op in gen_ops(&mut rng, sel, true, true) {
            // both twins: a slot call
            if rng.chance(1, 2) {
                let kind = rng.below(3);
                let lim = *rng.pick(&[0usize, 1, 2, 3, 1000]);
                let which = rng.below(3);
                let stat = rng.chance(1, 2);
                let ri = rng.below(8);
                let call = |c: Ctx| -> String {
                    unsafe {
                        match kind {
                            0 | 1 => match which {
                                0 => cand_loop(c, lim, stat),
                                1 => interval_loop(c, lim),
                                _ => kbtype_loop(c, lim, stat),
                            },
                            _ => raw(c, ri),
                        }
                    }
                };
                let (xa, xb) = (call(a), call(b));
                st.g_slot_calls += 1;
                hist.push(format!("AB:{}", xa.split(' ').take(2).collect::<Vec<_>>().join(" ")));
                if xa != xb {
                    w.fail("with/without plain getters: an enumerate-style call answers differently", &hist, seed, &format!("[{}] vs [{}]", xa, xb));
                    break 'outer;
                }
            }
            // twin B only: plain getters
            if rng.chance(2, 3) {
                for _ in 0..(1 + rng.below(5)) {
                    let (i, arg) = (rng.below(N_PLAIN), rng.below(1000));
                    let (x, y) = unsafe { (plain(b, i, arg), plain(b, i, arg)) };
                    st.inserted[0] += 1;
                    hist.push(format!("B?{}", x.split(' ').next().unwrap_or("")));
                    if x != y {
                        w.fail("a getter answers differently when repeated", &hist, seed, &format!("[{}] [{}]", x, y));
                        break 'outer;
                    }
                }
            }
            hist.push(op.text());
            let (ra, rb) = unsafe { (apply(a, &op), apply(b, &op)) };
            st.g_ops += 1;
            if ra != rb {
                w.fail("with/without queries: return values differ", &hist, seed, &format!("{} vs {}", ra, rb));
                break 'outer;
            }
            sel = selecting(a);
        }
    }
    unsafe {
        chewing_delete(a);
        chewing_delete(b);
    }
}

/// R: chewing_Reset after a random prefix vs. a new context with the same configuration and user phrases
fn trace_reset(w: &mut W, seed: u64, n_ops: usize, st: &mut Stats) {
    let mut rng = Rng::new(seed);
    let mini = rng.chance(1, 2);
    let (ha, hb) = (home(mini), home(mini));
    let a = new_ctx(&ha);
    let mut hist: Vec<String> = vec![];
    // auto-learning off during the prefix: the user dictionary then holds exactly the phrases added through
    // chewing_userphrase_add/remove, which the new context is given too
    let mut prefix: Vec<Op> = vec![Op::Set(10, 1)];
    let mut sel = false;
    let n_prefix = 1 + rng.below(n_ops as u64) as usize;
    let want_sel = rng.chance(1, 2);
    let mut i = 0;
    while i < n_prefix || (want_sel && !sel && i < 3 * n_ops) {
        let mut ops = gen_ops(&mut rng, sel, false, true);
        // the KEYS that add user phrases (Ctrl-digit; Enter on a highlighted range, hence Shift-Left/Right) are kept
        // out of the prefix: the new context could not be given exactly the same user dictionary
        ops.retain(|o| *o != Op::Set(10, 0) && !matches!(o, Op::CtrlNum(_) | Op::Named(6) | Op::Named(8)));
        prefix.extend(ops);
        while i < prefix.len() {
            unsafe { apply(a, &prefix[i]) };
            i += 1;
        }
        sel = selecting(a);
    }
    // every sixth trace: reset while a range is highlighted
    if rng.chance(1, 6) {
        let mut extra: Vec<Op> = if sel { vec![Op::CandClose] } else { vec![] };
        extra.extend(b"hk4g4".iter().map(|k| Op::Default(*k)));
        extra.push(Op::Named(6));
        for o in &extra {
            unsafe { apply(a, o) };
        }
        prefix.extend(extra);
        sel = false;
        st.r_highlighting += 1;
    }
    // every fifth trace (round 3, after the seeded change C17-clear-keeps-notice): the last key before the reset leaves a
    // NOTICE behind without touching the user dictionary - Ctrl-2 over a buffer that cannot be added (one syllable, or
    // letters in English mode) answers "加詞失敗…"; a reset context must not show it any more than a new one does
    if rng.chance(1, 5) {
        let mut extra: Vec<Op> = if sel { vec![Op::CandClose] } else { vec![] };
        extra.extend([Op::CleanBopomofo, Op::CleanPreedit]);
        extra.extend(b"hk4".iter().map(|k| Op::Default(*k)));
        extra.push(Op::CtrlNum(b'2'));
        for o in &extra {
            unsafe { apply(a, o) };
        }
        prefix.extend(extra);
        sel = false;
        st.r_notice += 1;
    }
    for o in &prefix {
        hist.push(o.text());
    }
    st.r_traces += 1;
    if sel {
        st.r_in_selecting += 1;
    }
    if unsafe { chewing_bopomofo_Check(a) } == 1 {
        st.r_in_syllable += 1;
    }
    // sometimes leave iterators half-way before the reset (the new context has never enumerated)
    if rng.chance(1, 3) {
        unsafe {
            cand_loop(a, 1, false);
            interval_loop(a, 1);
        }
        hist.push("(abandoned enumerations)".into());
    }
    hist.push("chewing_Reset".into());
    let rc = unsafe { chewing_Reset(a) };
    if rc != 0 {
        w.fail("chewing_Reset failed", &hist, seed, &format!("{}", rc));
    }
    // the new context: same configuration calls, same user-phrase calls, in the same order
    let b = new_ctx(&hb);
    for o in prefix.iter().filter(|o| o.is_config() || o.is_user()) {
        unsafe { apply(b, o) };
    }
    // the two modes are configuration that KEYS change too (Capslock, Shift-Space): copy them through the API
    unsafe {
        chewing_set_ChiEngMode(b, chewing_get_ChiEngMode(a));
        chewing_set_ShapeMode(b, chewing_get_ShapeMode(a));
    }
    hist.push("| continuation:".into());
    // the iterator slots themselves: read WITHOUT Enumerate directly after the reset (a new context has empty slots)
    st.r_raw_after_reset += 1;
    let raws = |c: Ctx| -> String { (0..8).map(|i| unsafe { raw(c, i) }).collect::<Vec<_>>().join(" | ") };
    let (xa, xb) = (raws(a), raws(b));
    if xa != xb {
        w.fail("reset vs new context: iterator slots read without Enumerate differ directly after the reset", &hist, seed, &first_diff(&xa, &xb));
    }
    let (oa, ob) = unsafe { (observe(a), observe(b)) };
    anomaly(w, &hist, seed);
    st.observations += 1;
    let mut ok = true;
    if oa != ob {
        w.fail("reset vs new context: observations differ directly after the reset", &hist, seed, &first_diff(&oa, &ob));
        ok = false;
    }
    sel = false;
    if ok {
        'outer: for _ in 0..n_ops {
            for op in gen_ops(&mut rng, sel, false, true) {
                hist.push(op.text());
                let (ra, rb) = unsafe { (apply(a, &op), apply(b, &op)) };
                st.r_ops += 1;
                if ra != rb {
                    w.fail("reset vs new context: return values differ", &hist, seed, &format!("{} vs {}", ra, rb));
                    break 'outer;
                }
                if rng.chance(1, 3) {
                    st.observations += 1;
                    let (oa, ob) = unsafe { (observe(a), observe(b)) };
                    anomaly(w, &hist, seed);
                    if oa != ob {
                        w.fail("reset vs new context: observations differ", &hist, seed, &first_diff(&oa, &ob));
                        break 'outer;
                    }
                }
                sel = selecting(a);
            }
        }
    }
    unsafe {
        chewing_delete(a);
        chewing_delete(b);
    }
}

struct SendCtx(Ctx);
unsafe impl Send for SendCtx {}

/// P: A alone vs. A' beside another context
fn trace_contexts(w: &mut W, seed: u64, n_ops: usize, threaded: bool, st: &mut Stats) {
    let mut rng = Rng::new(seed);
    let mini = rng.chance(1, 2);
    let (ha, ha2, hb) = (home(mini), home(mini), home(rng.chance(1, 2)));
    let (a, a2, b) = (new_ctx(&ha), new_ctx(&ha2), new_ctx(&hb));
    let mut rng_b = Rng::new(seed ^ 0xB0B);
    let mut hist: Vec<String> = vec![];
    st.p_traces += 1;
    let stop = Arc::new(AtomicBool::new(false));
    let count = Arc::new(AtomicU64::new(0));
    let handle = if threaded {
        st.p_threaded += 1;
        let (stop, count) = (stop.clone(), count.clone());
        let hc = home(mini);
        let seed_c = seed ^ 0xC0C;
        Some(std::thread::spawn(move || {
            // a third context, created, driven (operations AND queries) and deleted on this thread
            let c = SendCtx(new_ctx(&hc));
            let mut rng_c = Rng::new(seed_c);
            let mut sel = false;
            let mut dummy = [0u64; 4];
            while !stop.load(Ordering::Relaxed) {
                for op in gen_ops(&mut rng_c, sel, true, true) {
                    unsafe {
                        apply(c.0, &op);
                        any_query(c.0, &mut rng_c, &mut dummy);
                    }
                    count.fetch_add(1, Ordering::Relaxed);
                }
                sel = selecting(c.0);
            }
            unsafe { chewing_delete(c.0) };
        }))
    } else {
        None
    };
    let (mut sel, mut sel_b) = (false, false);
    let mut dummy = [0u64; 4];
    'outer: for _ in 0..n_ops {
        for op in gen_ops(&mut rng, sel, true, true) {
            for _ in 0..rng.below(4) {
                for ob in gen_ops(&mut rng_b, sel_b, true, true) {
                    hist.push(format!("B:{}", ob.text()));
                    unsafe {
                        apply(b, &ob);
                        if rng_b.chance(1, 3) {
                            any_query(b, &mut rng_b, &mut dummy);
                        }
                    }
                    st.p_other_ops += 1;
                }
                sel_b = selecting(b);
            }
            hist.push(op.text());
            let (ra, rb) = unsafe { (apply(a, &op), apply(a2, &op)) };
            st.p_ops += 1;
            if ra != rb {
                w.fail("alone vs beside another context: return values differ", &hist, seed, &format!("{} vs {}", ra, rb));
                break 'outer;
            }
            if rng.chance(1, 5) {
                st.observations += 1;
                let (oa, ob) = unsafe { (observe(a), observe(a2)) };
                anomaly(w, &hist, seed);
                if oa != ob {
                    w.fail("alone vs beside another context: observations differ", &hist, seed, &first_diff(&oa, &ob));
                    break 'outer;
                }
            }
            sel = selecting(a);
        }
    }
    stop.store(true, Ordering::Relaxed);
    if let Some(h) = handle {
        let _ = h.join();
        st.p_other_ops += count.load(Ordering::Relaxed);
    }
    unsafe {
        chewing_delete(a);
        chewing_delete(a2);
        chewing_delete(b);
    }
}

// ------------------------------------------------------------------ D: different creation arguments

/// the creation arguments of one context: what its system data directory holds, where its user dictionary
/// lives, and the options set directly after `chewing_new2`
#[derive(Clone, Debug, PartialEq)]
struct Profile {
    /// 0 = tests/data word.dat+tsi.dat, 1 = none (built-in mini dictionary), 2 / 3 = generated dictionaries
    dict: u8,
    /// 0 = tests/data symbols.dat, 1 / 2 = other tables, 3 = no file (empty table)
    symbols: u8,
    /// 0 = tests/data swkb.dat, 1 = another table, 2 = no file
    swkb: u8,
    /// a drop-in dictionary in dictionary.d
    dropin: bool,
    /// 0 = `:memory:`, 1 = a new chewing.dat in its own directory, 2 = a copy of tests/data/chewing.dat
    user: u8,
    init: Vec<Op>,
}

const SYMBOLS_1: &str = "★\n箭頭=←→↑↓\n星號=☆※\n";
const SYMBOLS_2: &str = "括號=（）「」\n〒\n音樂=♩♪♫♬\n幣=＄￥￡\n";
const SWKB_1: &str = "Q 甲\nW 乙\nA 丙丁\nL Zzz\nM ？！\n";

impl Profile {
    fn gen(rng: &mut Rng) -> Profile {
        let mut init = vec![];
        for _ in 0..rng.below(4) {
            init.push(match rng.below(7) {
                0 => Op::Set(2, 1 + rng.below(10) as i32),
                1 => Op::Set(8, 1),
                2 => Op::SetKb(*rng.pick(&[0, 0, 1, 2, 3, 5, 8])),
                3 => Op::Set(5, rng.below(2) as i32),
                4 => Op::Set(9, rng.below(2) as i32),
                5 => Op::SetOpt(0, rng.below(3) as i32),
                _ => Op::Set(3, *rng.pick(&[0, 3, 5, 20])),
            });
        }
        Profile {
            dict: rng.weighted(&[3, 2, 2, 2]) as u8,
            symbols: rng.weighted(&[3, 3, 2, 1]) as u8,
            swkb: rng.weighted(&[3, 3, 1]) as u8,
            dropin: rng.chance(1, 4),
            user: rng.weighted(&[3, 1, 1]) as u8,
            init,
        }
    }
    fn text(&self) -> String {
        format!(
            "{{dictionaries:{} symbols.dat:{} swkb.dat:{} drop-in:{} user:{} options:[{}]}}",
            ["tests/data", "none(built-in)", "generated-1", "generated-2"][self.dict as usize],
            ["tests/data", "table-1(★ 箭頭 星號)", "table-2(括號 〒 音樂 幣)", "absent"][self.symbols as usize],
            ["tests/data", "table-1(Q甲 W乙 A丙丁 L M)", "absent"][self.swkb as usize],
            self.dropin,
            [":memory:", "new chewing.dat", "copy of tests/data/chewing.dat"][self.user as usize],
            self.init.iter().map(|o| o.text()).collect::<Vec<_>>().join(",")
        )
    }
}

fn write_trie(path: &std::path::Path, entries: &[(&str, &str, u32)]) {
    use chewing::dictionary::{DictionaryBuilder, Phrase, TrieBuilder};
    use chewing::zhuyin::Syllable;
    let mut b = TrieBuilder::new();
    for (phrase, bopomofo, freq) in entries {
        let syls: Vec<Syllable> = bopomofo.split(' ').map(|s| s.parse().unwrap()).collect();
        b.insert(&syls, Phrase::new(*phrase, *freq)).unwrap();
    }
    let mut buf = vec![];
    b.write(&mut buf).unwrap();
    std::fs::write(path, buf).unwrap();
}

/// materialise the directories of a profile (the same bytes in every process)
fn profile_home(p: &Profile) -> Home {
    let dir = tempfile::tempdir().unwrap();
    let repo = std::env::var("VERIF_REPO").unwrap_or_else(|_| "/repo".into());
    let data = std::path::PathBuf::from(format!("{}/tests/data", repo));
    let sys = dir.path().join("sys");
    let usr = dir.path().join("user");
    std::fs::create_dir_all(&sys).unwrap();
    std::fs::create_dir_all(&usr).unwrap();
    match p.dict {
        0 => {
            std::fs::copy(data.join("word.dat"), sys.join("word.dat")).unwrap();
            std::fs::copy(data.join("tsi.dat"), sys.join("tsi.dat")).unwrap();
        }
        1 => {}
        2 => {
            write_trie(&sys.join("word.dat"), &[("冊", "ㄘㄜˋ", 900), ("廁", "ㄘㄜˋ", 800), ("是", "ㄕˋ", 1000), ("市", "ㄕˋ", 900), ("你", "ㄋㄧˇ", 500), ("好", "ㄏㄠˇ", 500), ("我", "ㄨㄛˇ", 700)]);
            write_trie(&sys.join("tsi.dat"), &[("側室", "ㄘㄜˋ ㄕˋ", 500), ("你好", "ㄋㄧˇ ㄏㄠˇ", 900), ("是是", "ㄕˋ ㄕˋ", 3)]);
        }
        _ => {
            write_trie(&sys.join("word.dat"), &[("側", "ㄘㄜˋ", 1000), ("測", "ㄘㄜˋ", 10), ("事", "ㄕˋ", 1000), ("試", "ㄕˋ", 5), ("擬", "ㄋㄧˇ", 1), ("郝", "ㄏㄠˇ", 1)]);
            write_trie(&sys.join("tsi.dat"), &[("策士", "ㄘㄜˋ ㄕˋ", 9000), ("測試", "ㄘㄜˋ ㄕˋ", 100), ("事事側", "ㄕˋ ㄕˋ ㄘㄜˋ", 70)]);
        }
    }
    match p.symbols {
        0 => drop(std::fs::copy(data.join("symbols.dat"), sys.join("symbols.dat")).unwrap()),
        1 => std::fs::write(sys.join("symbols.dat"), SYMBOLS_1).unwrap(),
        2 => std::fs::write(sys.join("symbols.dat"), SYMBOLS_2).unwrap(),
        _ => {}
    }
    match p.swkb {
        0 => drop(std::fs::copy(data.join("swkb.dat"), sys.join("swkb.dat")).unwrap()),
        1 => std::fs::write(sys.join("swkb.dat"), SWKB_1).unwrap(),
        _ => {}
    }
    if p.dropin {
        std::fs::create_dir_all(sys.join("dictionary.d")).unwrap();
        write_trie(&sys.join("dictionary.d").join("01-extra.dat"), &[("廁試", "ㄘㄜˋ ㄕˋ", 20000), ("溼", "ㄕˋ", 30000)]);
    }
    let user = match p.user {
        0 => usr.join(":memory:"),
        1 => usr.join("chewing.dat"),
        _ => {
            std::fs::copy(data.join("chewing.dat"), usr.join("chewing.dat")).unwrap();
            usr.join("chewing.dat")
        }
    };
    Home { sys: CString::new(sys.display().to_string()).unwrap(), user: CString::new(user.display().to_string()).unwrap(), _dir: dir }
}

/// the profiles of trace `seed` (at least two differ in something the data directory decides)
fn trace_profiles(seed: u64) -> Vec<Profile> {
    let mut rng = Rng::new(seed ^ 0xD1FF);
    let k = 2 + rng.below(2) as usize;
    loop {
        let ps: Vec<Profile> = (0..k).map(|_| Profile::gen(&mut rng)).collect();
        if ps.iter().any(|p| (p.dict, p.symbols, p.swkb, p.dropin) != (ps[0].dict, ps[0].symbols, ps[0].swkb, ps[0].dropin)) {
            return ps;
        }
    }
}

/// one context of section D with its own generator; every call goes to `log`
struct Actor {
    ctx: Ctx,
    _home: Home,
    rng: Rng,
    sel: bool,
    log: Vec<String>,
    left: usize,
}
unsafe impl Send for Actor {}

impl Actor {
    fn new(p: &Profile, seed: u64, n_ops: usize) -> Actor {
        let h = profile_home(p);
        let ctx = new_ctx(&h);
        let mut log = vec![format!("new2 -> {}", if ctx.is_null() { "NULL" } else { "ctx" })];
        for o in &p.init {
            let rc = unsafe { apply(ctx, o) };
            log.push(format!("{} -> {}", o.text(), rc));
        }
        log.push(format!("OBSERVE {}", unsafe { observe(ctx) }));
        Actor { ctx, _home: h, rng: Rng::new(seed), sel: false, log, left: n_ops }
    }
    /// one batch of operations; the probes open the symbol table / use easy-symbol input and observe at once
    fn step(&mut self) {
        self.left -= 1;
        let mut dummy = [0u64; 4];
        let mut force = false;
        let ops: Vec<Op> = match self.rng.below(8) {
            0 if !self.sel => {
                force = true;
                vec![Op::Default(b'`')]
            }
            1 if self.sel => {
                // into a category / take a symbol
                force = true;
                vec![Op::CandChoose(self.rng.below(4) as i32)]
            }
            2 if !self.sel => {
                force = true;
                vec![Op::Set(8, 1), Op::Default(*self.rng.pick(b"QWALMZXT")), Op::Set(8, self.rng.below(2) as i32)]
            }
            3 if !self.sel => {
                force = true;
                vec![Op::CtrlNum(*self.rng.pick(b"01"))]
            }
            _ => gen_ops(&mut self.rng, self.sel, true, true),
        };
        for op in ops {
            if self.rng.chance(1, 4) {
                let q = unsafe { any_query(self.ctx, &mut self.rng, &mut dummy) };
                self.log.push(format!("? {}", q));
            }
            let rc = unsafe { apply(self.ctx, &op) };
            self.log.push(format!("{} -> {}", op.text(), rc));
        }
        if force || self.rng.chance(1, 4) || self.left == 0 {
            self.log.push(format!("OBSERVE {}", unsafe { observe(self.ctx) }));
        }
        self.sel = selecting(self.ctx);
    }
    fn finish(self) -> Vec<String> {
        unsafe { chewing_delete(self.ctx) };
        self.log
    }
}

const D_OPS: usize = 24;

fn actor_seed(seed: u64, i: usize) -> u64 {
    seed.wrapping_mul(31).wrapping_add(0xAC7 + i as u64)
}

/// child process of section D: `alone <i>` | `inter <order>` | `thread <order>`; prints `@L <i> <line>`
fn actor_main(seed: u64, mode: &str, arg: usize) {
    let ps = trace_profiles(seed);
    let k = ps.len();
    let order: Vec<usize> = if arg == 0 { (0..k).collect() } else { (0..k).rev().collect() };
    let mut logs: Vec<(usize, Vec<String>)> = vec![];
    match mode {
        "alone" => {
            let mut a = Actor::new(&ps[arg], actor_seed(seed, arg), D_OPS);
            while a.left > 0 {
                a.step();
            }
            logs.push((arg, a.finish()));
        }
        "inter" => {
            let mut actors: Vec<(usize, Actor)> = order.iter().map(|i| (*i, Actor::new(&ps[*i], actor_seed(seed, *i), D_OPS))).collect();
            let mut sched = Rng::new(seed ^ 0x5C4ED);
            loop {
                let live: Vec<usize> = (0..actors.len()).filter(|j| actors[*j].1.left > 0).collect();
                if live.is_empty() {
                    break;
                }
                let j = *sched.pick(&live);
                actors[j].1.step();
            }
            // deleted in creation order or its reverse
            if sched.chance(1, 2) {
                actors.reverse();
            }
            for (i, a) in actors {
                logs.push((i, a.finish()));
            }
        }
        _ => {
            // one thread per context; every other trace the contexts are also CREATED on their threads
            let create_inside = seed % 2 == 1;
            let mut handles = vec![];
            if create_inside {
                for i in order {
                    let p = ps[i].clone();
                    handles.push(std::thread::spawn(move || {
                        let mut a = Actor::new(&p, actor_seed(seed, i), D_OPS);
                        while a.left > 0 {
                            a.step();
                        }
                        (i, a.finish())
                    }));
                }
            } else {
                let actors: Vec<(usize, Actor)> = order.iter().map(|i| (*i, Actor::new(&ps[*i], actor_seed(seed, *i), D_OPS))).collect();
                for (i, mut a) in actors {
                    handles.push(std::thread::spawn(move || {
                        while a.left > 0 {
                            a.step();
                        }
                        (i, a.finish())
                    }));
                }
            }
            for h in handles {
                if let Ok(r) = h.join() {
                    logs.push(r);
                }
            }
        }
    }
    let stdout = std::io::stdout();
    let mut out = stdout.lock();
    for (i, log) in logs {
        for l in log {
            writeln!(out, "@L {} {}", i, l).unwrap();
        }
        writeln!(out, "@END {}", i).unwrap();
    }
    out.flush().unwrap();
}

/// run one child of section D; `None` = the child died (abort inside the C API)
fn run_actor(seed: u64, mode: &str, arg: usize, k: usize) -> Option<Vec<Vec<String>>> {
    let exe = std::env::current_exe().unwrap();
    let o = Command::new(&exe)
        .args(["--actor", &seed.to_string(), mode, &arg.to_string()])
        .stdout(Stdio::piped())
        .stderr(Stdio::null())
        .output()
        .ok()?;
    let mut logs = vec![vec![]; k];
    let mut ended = vec![false; k];
    for line in String::from_utf8_lossy(&o.stdout).lines() {
        if let Some(r) = line.strip_prefix("@L ") {
            if let Some((i, l)) = r.split_once(' ') {
                if let Ok(i) = i.parse::<usize>() {
                    if i < k {
                        logs[i].push(l.to_string());
                    }
                }
            }
        } else if let Some(r) = line.strip_prefix("@END ") {
            if let Ok(i) = r.trim().parse::<usize>() {
                if i < k {
                    ended[i] = true;
                }
            }
        }
    }
    if !o.status.success() || ended.iter().enumerate().any(|(i, e)| !*e && (mode != "alone" || i == arg)) {
        return None;
    }
    Some(logs)
}

#[derive(Default)]
struct DStats {
    traces: u64,
    contexts: u64,
    pairs: u64,
    pairs_sym: u64,
    pairs_swkb: u64,
    pairs_dict: u64,
    pairs_user: u64,
    pairs_opts: u64,
    together_runs: u64,
    threaded_runs: u64,
    created_on_threads: u64,
    calls_compared: u64,
    observations_compared: u64,
    symbol_menus_observed: u64,
    alone_aborts: u64,
    together_aborts: u64,
}

/// D: every context of a process that holds contexts with different creation arguments behaves as it does alone
fn trace_creation_args(w: &mut W, seed: u64, t: u64, st: &mut DStats) {
    let ps = trace_profiles(seed);
    let k = ps.len();
    st.traces += 1;
    st.contexts += k as u64;
    for i in 0..k {
        for j in i + 1..k {
            st.pairs += 1;
            st.pairs_sym += (ps[i].symbols != ps[j].symbols) as u64;
            st.pairs_swkb += (ps[i].swkb != ps[j].swkb) as u64;
            st.pairs_dict += ((ps[i].dict, ps[i].dropin) != (ps[j].dict, ps[j].dropin)) as u64;
            st.pairs_user += (ps[i].user != ps[j].user) as u64;
            st.pairs_opts += (ps[i].init != ps[j].init) as u64;
        }
    }
    let mut alone: Vec<Vec<String>> = vec![];
    for i in 0..k {
        match run_actor(seed, "alone", i, k) {
            Some(mut l) => alone.push(std::mem::take(&mut l[i])),
            None => {
                // crashes are C01's subject
                st.alone_aborts += 1;
                return;
            }
        }
    }
    st.symbol_menus_observed += alone.iter().flatten().filter(|l| l.starts_with("Default('`') ->") || l.starts_with("CtrlNum(")).count() as u64;
    let desc = |order: usize| -> String {
        let idx: Vec<usize> = if order == 0 { (0..k).collect() } else { (0..k).rev().collect() };
        idx.iter().map(|i| format!("ctx{}=new2{}", i, ps[*i].text())).collect::<Vec<_>>().join(" ; ")
    };
    // both creation orders; which of the two runs is threaded alternates
    for (mode, order) in if t % 2 == 0 { [("inter", 0usize), ("thread", 1usize)] } else { [("thread", 0usize), ("inter", 1usize)] } {
        st.together_runs += 1;
        if mode == "thread" {
            st.threaded_runs += 1;
            st.created_on_threads += (seed % 2 == 1) as u64;
        }
        let how = if mode == "inter" { "interleaved on one thread".to_string() } else { format!("one thread per context{}", if seed % 2 == 1 { ", created on their threads" } else { "" }) };
        match run_actor(seed, mode, order, k) {
            None => {
                st.together_aborts += 1;
                w.out.oracle_fail("C17", "new", &format!(
                    "capi creation arguments: every context runs to the end ALONE in a fresh process, the process holding all of them ({}) dies ; trace-seed {} created in this order [{}]",
                    how, seed, desc(order)));
                return;
            }
            Some(tog) => {
                for i in 0..k {
                    let (a, b) = (&alone[i], &tog[i]);
                    st.calls_compared += a.len().min(b.len()) as u64;
                    st.observations_compared += a.iter().filter(|l| l.starts_with("OBSERVE")).count() as u64;
                    let n = a.iter().zip(b.iter()).position(|(x, y)| x != y).or(if a.len() != b.len() { Some(a.len().min(b.len())) } else { None });
                    if let Some(n) = n {
                        let (x, y) = (a.get(n).map(|s| s.as_str()).unwrap_or("(end)"), b.get(n).map(|s| s.as_str()).unwrap_or("(end)"));
                        let d = if x.starts_with("OBSERVE") && y.starts_with("OBSERVE") { format!("observation: alone/together {}", first_diff(x, y)) } else { format!("alone [{}] together [{}]", &x[..x.len().min(300)], &y[..y.len().min(300)]) };
                        let calls: Vec<&str> = a[..n].iter().filter(|l| !l.starts_with("OBSERVE") && !l.starts_with("? ")).map(|l| l.split(" -> ").next().unwrap_or("")).collect();
                        w.out.oracle_fail("C17", "new", &format!(
                            "capi creation arguments: ctx{} behaves differently beside contexts created with other arguments ({}) than ALONE in a fresh process: call #{} {} ; trace-seed {} created in this order [{}] ; calls of ctx{} so far [{}]",
                            i, how, n, d, seed, desc(order), i, calls.join(" ; ")));
                        return;
                    }
                }
            }
        }
    }
}

fn worker_d(from: u64, to: u64) {
    let mut w = W { out: Out::new() };
    let seed = seed_from_env();
    let mut st = DStats::default();
    for t in from..to {
        let s = (seed.wrapping_mul(9_000_011).wrapping_add(t)) ^ 0x9000;
        println!("@trace {}", t);
        trace_creation_args(&mut w, s, t, &mut st);
        w.out.flush();
        println!(
            "@cum D.traces={} D.contexts={} D.context_pairs={} D.pairs_with_different_symbols_dat={} D.pairs_with_different_swkb_dat={} D.pairs_with_different_dictionaries={} D.pairs_with_different_user_path_kind={} D.pairs_with_different_initial_options={} D.together_runs={} D.together_runs_one_thread_per_context={} D.runs_with_contexts_created_on_their_threads={} D.calls_compared_with_the_alone_run={} D.observations_compared={} D.symbol_table_openings_in_alone_runs={} D.alone_run_aborts={} D.together_run_aborts={}",
            st.traces, st.contexts, st.pairs, st.pairs_sym, st.pairs_swkb, st.pairs_dict, st.pairs_user, st.pairs_opts, st.together_runs, st.threaded_runs,
            st.created_on_threads, st.calls_compared, st.observations_compared, st.symbol_menus_observed, st.alone_aborts, st.together_aborts
        );
    }
    if from == 0 {
        for p in trace_profiles((seed.wrapping_mul(9_000_011)) ^ 0x9000) {
            w.out.sample(&format!("D profile {}", p.text()));
        }
    }
    w.out.flush();
}

// ------------------------------------------------------------------ L: the logger slot (F33)

static ANOMALIES: AtomicU64 = AtomicU64::new(0);
static LOG: Mutex<Vec<usize>> = Mutex::new(Vec::new());

unsafe extern "C" fn log_cb(data: *mut c_void, _level: c_int, _fmt: *const c_char, _arg: *const c_char) {
    LOG.lock().unwrap().push(data as usize);
}

type VarFn = unsafe extern "C" fn(*mut c_void, c_int, *const c_char, ...);

fn take_log() -> Vec<usize> {
    std::mem::take(&mut *LOG.lock().unwrap())
}

fn section_logger(w: &mut W) {
    // SAFETY: the callback only reads its first argument; the variadic tail is ignored (System V / AAPCS
    // pass the fixed arguments identically)
    let f: VarFn = unsafe { std::mem::transmute(log_cb as unsafe extern "C" fn(*mut c_void, c_int, *const c_char, *const c_char)) };
    let (ha, hb, hc) = (home(false), home(false), home(false));
    unsafe {
        // inside `logger_isolated_partial`: only A touches the slot — every line of A reaches A's callback
        let a = chewing_new2(ha.sys.as_ptr(), ha.user.as_ptr(), Some(f), 0xA as *mut c_void);
        take_log();
        for k in b"hk4g4" {
            chewing_handle_Default(a, *k as c_int);
        }
        let l1 = take_log();
        w.out.stat("logger.lines_A_alone", l1.len());
        if l1.is_empty() || l1.iter().any(|d| *d != 0xA) {
            w.out.oracle_fail("C17", "new", &format!("capi logger: with no other context touching the logger, lines of A went to {:?}", l1));
        }
        // a context created WITHOUT a logger leaves the slot alone
        let c = chewing_new2(hc.sys.as_ptr(), hc.user.as_ptr(), None, std::ptr::null_mut());
        take_log();
        chewing_handle_Default(a, b'h' as c_int);
        let l2 = take_log();
        if l2.is_empty() || l2.iter().any(|d| *d != 0xA) {
            w.out.oracle_fail("C17", "new", &format!("capi logger: chewing_new2 without a logger redirected the lines of A to {:?}", l2));
        }
        // F33 step 1: chewing_new2(.., loggerB, dataB) redirects A's lines to B's callback data
        let b = chewing_new2(hb.sys.as_ptr(), hb.user.as_ptr(), Some(f), 0xB as *mut c_void);
        take_log();
        chewing_handle_Default(a, b'k' as c_int);
        let l3 = take_log();
        if l3.iter().any(|d| *d != 0xA) || l3.is_empty() {
            w.out.oracle_fail("C17", "F33-logger-global", &format!(
                "calls [new2(A,logger,dataA) ; new2(B,logger,dataB) ; handle_Default(A,'k')]: {} log lines of A delivered with data pointers {:?} (A's is 0xa)",
                l3.len(), l3.iter().collect::<std::collections::BTreeSet<_>>()));
        }
        // F33 step 2: chewing_delete(C) (a context that never had a logger) silences A
        chewing_set_logger(a, Some(std::mem::transmute::<VarFn, extern "C" fn(*mut c_void, c_int, *const c_char, ...)>(f)), 0xA as *mut c_void);
        take_log();
        chewing_handle_Default(a, b'4' as c_int);
        let l4 = take_log();
        chewing_delete(c);
        take_log();
        chewing_handle_Default(a, b'g' as c_int);
        let l5 = take_log();
        if !l4.is_empty() && l5.is_empty() {
            w.out.oracle_fail("C17", "F33-logger-global", &format!(
                "calls [set_logger(A,logger,dataA) ; handle_Default(A,'4') -> {} lines ; delete(C) ; handle_Default(A,'g') -> 0 lines]: deleting another context removed A's logger", l4.len()));
        } else if l5.iter().any(|d| *d != 0xA) {
            w.out.oracle_fail("C17", "new", &format!("capi logger: after delete(C) the lines of A went to {:?}", l5));
        }
        w.out.stat("logger.lines_A_after_new2_B", l3.len());
        w.out.stat("logger.lines_A_after_delete_C", l5.len());
        chewing_delete(b);
        chewing_delete(a);
    }
}

// ------------------------------------------------------------------ plumbing

#[derive(Default)]
struct Stats {
    g_traces: u64,
    g_slot_traces: u64,
    g_slot_calls: u64,
    g_ops: u64,
    inserted: [u64; 4],
    r_traces: u64,
    r_ops: u64,
    r_in_selecting: u64,
    r_in_syllable: u64,
    r_raw_after_reset: u64,
    r_highlighting: u64,
    r_notice: u64,
    p_traces: u64,
    p_ops: u64,
    p_other_ops: u64,
    p_threaded: u64,
    observations: u64,
}

/// cumulative statistics of this worker, one line after every trace (the parent adds up the last line of every
/// chunk, so the numbers of a chunk that ends in an abort are not lost)
fn cum_line(section: &str, st: &Stats) -> String {
    let kv: Vec<(&str, u64)> = match section {
        "G" => vec![
            ("G.traces", st.g_traces), ("G.ops", st.g_ops), ("G.inserted_plain_getters_each_twice", st.inserted[0]),
            ("G.inserted_complete_enumerations", st.inserted[1]), ("G.inserted_abandoned_enumerations", st.inserted[2]),
            ("G.inserted_raw_slot_reads", st.inserted[3]), ("G.observations", st.observations),
            ("G.traces_with_slot_calls_as_operations", st.g_slot_traces), ("G.slot_calls_compared", st.g_slot_calls),
        ],
        "R" => vec![
            ("R.traces", st.r_traces), ("R.continuation_ops", st.r_ops), ("R.reset_while_selecting", st.r_in_selecting),
            ("R.reset_with_pending_syllable", st.r_in_syllable), ("R.raw_slot_reads_after_reset", st.r_raw_after_reset),
            ("R.reset_after_shift_left_highlight", st.r_highlighting), ("R.reset_after_a_failed_ctrl_2_notice", st.r_notice), ("R.observations", st.observations),
        ],
        _ => vec![
            ("P.traces", st.p_traces), ("P.ops", st.p_ops), ("P.ops_of_other_contexts", st.p_other_ops),
            ("P.traces_with_second_thread", st.p_threaded), ("P.observations", st.observations),
        ],
    };
    let mut o = String::from("@cum");
    for (k, v) in kv {
        let _ = write!(o, " {}={}", k, v);
    }
    o
}

fn worker(section: &str, from: u64, to: u64) {
    let mut w = W { out: Out::new() };
    let seed = seed_from_env();
    let mut st = Stats::default();
    let n_ops = 30;
    if section == "L" {
        section_logger(&mut w);
        w.out.flush();
        return;
    }
    if section == "D" {
        drop(w);
        worker_d(from, to);
        return;
    }
    for t in from..to {
        let s = seed.wrapping_mul(9_000_011).wrapping_add(t);
        println!("@trace {}", t);
        match section {
            "G" if t % 3 == 2 => trace_getters_slots(&mut w, s ^ 0x6800, n_ops, &mut st),
            "G" => trace_getters(&mut w, s ^ 0x6000, n_ops, &mut st),
            "R" => trace_reset(&mut w, s ^ 0x7000, n_ops, &mut st),
            _ => trace_contexts(&mut w, s ^ 0x8000, n_ops, t % 3 == 0, &mut st),
        }
        w.out.flush();
        println!("{}", cum_line(section, &st));
    }
    w.out.flush();
}

fn main() {
    let args: Vec<String> = std::env::args().collect();
    if args.len() >= 5 && args[1] == "--actor" {
        actor_main(args[2].parse().unwrap(), &args[3], args[4].parse().unwrap());
        return;
    }
    if args.len() >= 5 && args[1] == "--worker" {
        worker(&args[2], args[3].parse().unwrap(), args[4].parse().unwrap());
        return;
    }
    let n: u64 = if tier_is_thorough() { 6000 } else { 400 };
    let exe = std::env::current_exe().unwrap();
    let stdout = std::io::stdout();
    let mut out = stdout.lock();
    let mut stats: std::collections::BTreeMap<String, u64> = Default::default();
    let only: Option<String> = std::env::var("C17_SECTIONS").ok();
    for section in ["G", "R", "P", "D", "L"] {
        if only.as_ref().is_some_and(|o| !o.contains(section)) {
            continue;
        }
        let total = match section {
            "L" => 1,
            // every trace of D is 4-5 fresh processes
            "D" => if tier_is_thorough() { 1500 } else { 150 },
            _ => n,
        };
        let mut from = 0u64;
        let mut aborts = 0u64;
        while from < total {
            let mut child = Command::new(&exe)
                .args(["--worker", section, &from.to_string(), &total.to_string()])
                .stdout(Stdio::piped())
                .stderr(Stdio::null())
                .spawn()
                .expect("spawn worker");
            let rd = BufReader::new(child.stdout.take().unwrap());
            let mut current = from;
            let mut cum = String::new();
            for line in rd.split(b'\n') {
                let line = String::from_utf8_lossy(&line.unwrap()).to_string();
                if let Some(t) = line.strip_prefix("@trace ") {
                    current = t.trim().parse().unwrap_or(current);
                } else if let Some(c) = line.strip_prefix("@cum ") {
                    cum = c.to_string();
                } else if let Some(s) = line.strip_prefix("#stat ") {
                    // statistics of the chunks of one section are added up
                    let mut it = s.splitn(2, ' ');
                    let (k, v) = (it.next().unwrap_or(""), it.next().unwrap_or("0"));
                    *stats.entry(k.to_string()).or_insert(0) += v.trim().parse::<u64>().unwrap_or(0);
                } else if !line.is_empty() {
                    writeln!(out, "{}", line).unwrap();
                }
            }
            let status = child.wait().unwrap();
            for kv in cum.split(' ') {
                if let Some((k, v)) = kv.split_once('=') {
                    *stats.entry(k.to_string()).or_insert(0) += v.parse::<u64>().unwrap_or(0);
                }
            }
            if status.success() {
                break;
            }
            // the worker died inside the C API (abort) — crashes are C01's subject; the trace is skipped and counted
            aborts += 1;
            from = current + 1;
            if aborts > 40 + total / 10 {
                writeln!(out, "#stat {}.abandoned_after_too_many_aborts 1", section).unwrap();
                break;
            }
        }
        *stats.entry(format!("{}.worker_aborts", section)).or_insert(0) += aborts;
    }
    for (k, v) in stats {
        writeln!(out, "#stat {} {}", k, v).unwrap();
    }
    out.flush().unwrap();
}
