//! C20 correspondence + oracle: the dictionary compiler / dumper of the REAL `chewing-cli` binary,
//! built from $VERIF_REPO by this driver, run on generated phrase sources and on single-line
//! corruptions of them (both database types, with/without --csv, --keep-word-freq, --skip-invalid).
//!
//! Records (recomputed by the Lean model, `Driver/Cli.lean`):
//!   cli ws <lo> <hi> => <code points c in lo..hi with char::is_whitespace(c)>
//!   cli run <db> <csv> <keep> <skip> <source text> => <exit> <reported line numbers> <output exists> <dump> <dump --csv>
//!   cli lookup <db> <csv> <keep> <skip> <source text> <key> => <n> <phrase>:<freq> …   (library lookup on the built file)
//!
//! Oracle (the property itself, on the real tool; independent of the model):
//!   * a source of well-formed lines compiles (exit 0, nothing reported, file exists) and the dump contains exactly its
//!     records (last duplicate wins; one-character frequencies 0 unless --keep-word-freq), in both dump formats;
//!   * compiling either dump again gives the same dump, and every key looks up the same phrases in the same order;
//!   * a malformed line i — also one that is not valid UTF-8 — is reported as line i+1; without --skip-invalid the exit
//!     status is non-zero and no output file exists; with it the tool succeeds and the records of the other lines are all
//!     there (no known class is left here: F27 and F45 are fixed, every unreported malformed line is `new`);
//!   * no well-formed line is reported.
use chewing::dictionary::{Dictionary, LookupStrategy, Trie};
#[cfg(feature = "sqlite")]
use chewing::dictionary::SqliteDictionary;
use chewing::zhuyin::{Bopomofo, Syllable};
use std::collections::BTreeMap;
use std::path::{Path, PathBuf};
use std::process::Command;
use vharness::*;

// ---------------------------------------------------------------------------------------------
// running the real tool

struct Cli {
    exe: PathBuf,
    dir: PathBuf,
    spawns: u64,
    n: u64,
}

#[derive(Clone, Copy, PartialEq, Eq, Debug)]
struct Cfg {
    sqlite: bool,
    csv: bool,
    keep: bool,
    skip: bool,
}

impl Cfg {
    fn db(&self) -> &'static str {
        if self.sqlite { "sqlite" } else { "trie" }
    }
    fn txt(&self) -> String {
        format!("{} {} {} {}", self.db(), self.csv as u8, self.keep as u8, self.skip as u8)
    }
}

struct RunOut {
    exit: i32,
    reported: Vec<usize>,
    exists: bool,
    dump: Option<String>,
    dump_csv: Option<String>,
    path: PathBuf,
}

fn build_cli() -> PathBuf {
    let repo = std::env::var("VERIF_REPO").unwrap_or_else(|_| "/repo".into());
    let exe = std::env::current_exe().expect("current_exe");
    // …/harness/target/debug/cli -> …/harness/target/cli-build
    let target = exe.parent().and_then(|p| p.parent()).expect("target dir").join("cli-build");
    let st = Command::new("cargo")
        .args(["build", "--offline", "--quiet", "-p", "chewing-cli", "--target-dir"])
        .arg(&target)
        .current_dir(&repo)
        .env("CARGO_NET_OFFLINE", "true")
        .env_remove("RUSTFLAGS")
        .status()
        .expect("cargo");
    if !st.success() {
        eprintln!("chewing-cli does not build from {}", repo);
        std::process::exit(3);
    }
    target.join("debug").join("chewing-cli")
}

impl Cli {
    fn cmd(&mut self) -> Command {
        self.spawns += 1;
        let mut c = Command::new(&self.exe);
        c.env("RUST_BACKTRACE", "0").env("RUST_LIB_BACKTRACE", "0").current_dir(&self.dir);
        c
    }

    fn init(&mut self, cfg: Cfg, src: &Path, out: &Path) -> (i32, Vec<usize>, String) {
        let _ = std::fs::remove_file(out);
        let mut c = self.cmd();
        c.arg("init-database").arg("-t").arg(cfg.db());
        if cfg.csv {
            c.arg("--csv");
        }
        if cfg.keep {
            c.arg("--keep-word-freq");
        }
        if cfg.skip {
            c.arg("--skip-invalid");
        }
        c.arg(src).arg(out);
        let o = c.output().expect("spawn chewing-cli");
        let err = String::from_utf8_lossy(&o.stderr).to_string();
        let mut rep = vec![];
        for l in err.split('\n') {
            if let Some(rest) = l.strip_prefix("Parsing failed at line ") {
                if let Some((n, _)) = rest.split_once(':') {
                    if let Ok(n) = n.parse::<usize>() {
                        rep.push(n);
                    }
                }
            }
        }
        (o.status.code().unwrap_or(-1), rep, err)
    }

    fn dump(&mut self, file: &Path, csv: bool) -> Option<String> {
        let mut c = self.cmd();
        c.arg("dump");
        if csv {
            c.arg("--csv");
        }
        c.arg(file);
        let o = c.output().expect("spawn chewing-cli");
        if !o.status.success() {
            return None;
        }
        String::from_utf8(o.stdout).ok()
    }

    fn run(&mut self, cfg: Cfg, src: &str) -> RunOut {
        self.run_bytes(cfg, src.as_bytes()).0
    }

    /// … on any bytes; the flag says whether the tool stopped with the I/O error of an invalid UTF-8 line
    fn run_bytes(&mut self, cfg: Cfg, src: &[u8]) -> (RunOut, bool) {
        self.n += 1;
        let sp = self.dir.join(format!("s{}.src", self.n));
        let op = self.dir.join(format!("o{}.{}", self.n, if cfg.sqlite { "sqlite3" } else { "dat" }));
        std::fs::write(&sp, src).unwrap();
        let (exit, reported, err) = self.init(cfg, &sp, &op);
        let exists = op.exists();
        let (dump, dump_csv) = if exists { (self.dump(&op, false), self.dump(&op, true)) } else { (None, None) };
        let _ = std::fs::remove_file(&sp);
        (RunOut { exit, reported, exists, dump, dump_csv, path: op }, err.contains("stream did not contain valid UTF-8"))
    }
}

fn commas(v: &[usize]) -> String {
    if v.is_empty() { "-".into() } else { v.iter().map(|n| n.to_string()).collect::<Vec<_>>().join(",") }
}

fn hxo(s: &Option<String>) -> String {
    match s {
        Some(s) => hx(s),
        None => "-".into(),
    }
}

fn record(out: &mut Out, cfg: Cfg, src: &str, r: &RunOut) {
    out.rec(&format!(
        "cli run {} {} => {} {} {} {} {}",
        cfg.txt(),
        hx(src),
        r.exit,
        commas(&r.reported),
        r.exists as u8,
        hxo(&r.dump),
        hxo(&r.dump_csv)
    ));
}

// ---------------------------------------------------------------------------------------------
// the documented format, judged independently of parse_line

#[derive(Clone, Debug, PartialEq, Eq)]
struct Rec {
    phrase: String,
    freq: u32,
    syls: Vec<String>,
}

#[derive(Clone, Debug, PartialEq, Eq)]
enum Verdict {
    Good(Rec),
    /// malformed: every defect found (the first is the one named in messages), and the phrase field as
    /// far as it can be told
    Bad(Vec<&'static str>, Option<String>),
}

fn unquote(s: &str) -> &str {
    s.trim_matches('"')
}

fn is_sep(c: char) -> bool {
    c == ',' || c.is_whitespace()
}

/// strict reading of one source line: phrase, u32 frequency, then one valid syllable per character,
/// optionally followed by a `#` comment.  All defects are collected, so that a line is attributed to a
/// known class only if it has no other defect.
fn judge(line: &str, delim: char) -> Verdict {
    let fields: Vec<&str> = line.split(delim).filter(|f| !f.is_empty()).collect();
    if fields.is_empty() {
        return Verdict::Bad(vec!["empty"], None);
    }
    let mut bad: Vec<&'static str> = vec![];
    let phrase = unquote(fields[0]).to_string();
    if phrase.is_empty() {
        bad.push("empty-phrase");
    } else if phrase.chars().any(is_sep) {
        bad.push("phrase-chars");
    }
    let mut freq = 0u32;
    if fields.len() < 2 {
        bad.push("no-freq");
    } else {
        let f = unquote(fields[1]);
        let v = if !f.is_empty() && f.bytes().all(|b| b.is_ascii_digit()) { f.parse::<u64>().ok() } else { None };
        match v {
            Some(v) if v <= u32::MAX as u64 => freq = v as u32,
            _ => bad.push("bad-freq"),
        }
    }
    // the rest of the line after the first two separator-delimited tokens
    let toks: Vec<&str> = line.split(is_sep).filter(|t| !t.is_empty()).collect();
    let mut syls = vec![];
    let mut bad_syl = false;
    for t in toks.iter().skip(2) {
        let t = unquote(t);
        if t.is_empty() {
            continue;
        }
        if t.starts_with('#') {
            break;
        }
        if !valid_syllable(t) {
            bad_syl = true;
            break;
        }
        syls.push(t.to_string());
    }
    if bad_syl {
        bad.push("bad-syllable");
    } else if syls.is_empty() {
        bad.push("no-syllables");
    } else if !phrase.is_empty() && syls.len() != phrase.chars().count() {
        bad.push("length-mismatch");
    }
    if bad.is_empty() {
        Verdict::Good(Rec { phrase, freq, syls })
    } else {
        Verdict::Bad(bad, Some(phrase))
    }
}

/// initial? medial? rime? tone? — each at most once, in this order, at least one symbol
fn valid_syllable(s: &str) -> bool {
    let mut last: i32 = -1;
    let mut n = 0;
    for c in s.chars() {
        let b = match Bopomofo::try_from(c) {
            Ok(b) => b,
            Err(_) => return false,
        };
        use chewing::zhuyin::BopomofoKind::*;
        let k = match b.kind() {
            Initial => 0,
            Medial => 1,
            Rime => 2,
            Tone => 3,
        };
        if k <= last {
            return false;
        }
        last = k;
        n += 1;
    }
    n > 0
}

/// what the dump of a compiled source must contain: (syllables, phrase) -> frequency
fn expected_map(lines: &[(String, Verdict)], cfg: Cfg) -> BTreeMap<(Vec<String>, String), u32> {
    let mut m = BTreeMap::new();
    for (i, (_, v)) in lines.iter().enumerate() {
        if cfg.csv && i == 0 {
            continue;
        }
        if let Verdict::Good(r) = v {
            let f = if r.phrase.chars().count() == 1 && !cfg.keep { 0 } else { r.freq };
            m.insert((canon_syls(&r.syls), r.phrase.clone()), f);
        }
    }
    m
}

/// a syllable as the dumper spells it (the first-tone mark is not written; F18)
fn canon_syls(s: &[String]) -> Vec<String> {
    s.to_vec()
}

/// strict reader of the dump formats: `phrase freq syl syl…` / `phrase,freq,syl　syl…` after the header
fn read_dump(text: &str, csv: bool) -> Result<Vec<Rec>, String> {
    let mut out = vec![];
    let mut it = text.split('\n').collect::<Vec<_>>();
    if it.last() == Some(&"") {
        it.pop();
    } else if !text.is_empty() {
        return Err("dump does not end with a newline".into());
    }
    for (i, l) in it.iter().enumerate() {
        if csv && i == 0 {
            if *l != "詞(phrase),詞頻(freq),注音(bopomofo)" {
                return Err(format!("unexpected CSV header {:?}", l));
            }
            continue;
        }
        let d = if csv { ',' } else { ' ' };
        let mut p = l.splitn(3, d);
        let (ph, fr, sy) = match (p.next(), p.next(), p.next()) {
            (Some(a), Some(b), Some(c)) => (a, b, c),
            _ => return Err(format!("dump line {} has fewer than three fields: {:?}", i + 1, l)),
        };
        let freq = fr.parse::<u32>().map_err(|_| format!("dump line {}: frequency {:?}", i + 1, fr))?;
        let syls: Vec<String> =
            if sy.is_empty() { vec![] } else { sy.split(if csv { '\u{3000}' } else { ' ' }).map(|s| s.to_string()).collect() };
        for s in &syls {
            if !valid_syllable(s) {
                return Err(format!("dump line {}: syllable {:?}", i + 1, s));
            }
        }
        out.push(Rec { phrase: ph.to_string(), freq, syls });
    }
    if csv && it.is_empty() {
        return Err("CSV dump without header".into());
    }
    Ok(out)
}

// ---------------------------------------------------------------------------------------------
// library lookups on the built files ("equivalent dictionary")

fn open_dict(path: &Path, sqlite: bool) -> Option<Box<dyn Dictionary>> {
    if sqlite {
        #[cfg(feature = "sqlite")]
        {
            return SqliteDictionary::open_read_only(path).ok().map(|d| Box::new(d) as Box<dyn Dictionary>);
        }
        #[cfg(not(feature = "sqlite"))]
        {
            return None;
        }
    }
    Trie::open(path).ok().map(|d| Box::new(d) as Box<dyn Dictionary>)
}

/// the order in which `Trie::entries()` visits the keys (C11 `entries_order` / `Cli.trieOrder`): `sorted` = the keys in
/// lexicographic order of their syllable codes with a prefix before its extensions, cut into the maximal runs in which
/// every key is a prefix of the next one, every run reversed
fn entries_key_order(sorted: Vec<Vec<u16>>) -> Vec<Vec<u16>> {
    let mut out: Vec<Vec<u16>> = vec![];
    let mut run: Vec<Vec<u16>> = vec![];
    for k in sorted {
        if let Some(last) = run.last() {
            if !k.starts_with(last) {
                out.extend(run.drain(..).rev());
            }
        }
        run.push(k);
    }
    out.extend(run.drain(..).rev());
    out
}

fn to_syls(key: &[String]) -> Option<Vec<Syllable>> {
    key.iter().map(|s| s.parse::<Syllable>().ok()).collect()
}

fn lookup(d: &dyn Dictionary, key: &[Syllable]) -> Vec<(String, u32)> {
    d.lookup_all_phrases(&key, LookupStrategy::Standard).into_iter().map(|p| (p.as_str().to_string(), p.freq())).collect()
}

// ---------------------------------------------------------------------------------------------
// generators

const SYL_POOL: [&str; 10] = ["ㄘㄜˋ", "ㄕˋ", "ㄘㄜ", "ㄧㄠˋ", "ㄔˊ", "ㄅㄚ", "ㄋㄧˇ", "ㄏㄠˇ", "ㄦ", "ㄙㄨㄢˋ"];
const CHARS: [&str; 24] = [
    "測", "試", "策", "冊", "側", "鑰", "匙", "你", "好", "吧", "𠀀", "a", "Z", "7", "é", "ー", "#", "Ｔ", "国", "ㄅ", "-", "+", ".",
    "_",
];
const COMMENTS: [&str; 6] = ["not official", "x,y", "\"quoted\"", "註 解", "", "# twice"];

struct Gen {
    rng: Rng,
}

impl Gen {
    fn syllable(&mut self) -> String {
        if self.rng.chance(3, 4) {
            return self.rng.pick(&SYL_POOL).to_string();
        }
        // a random valid syllable through the library's own builder
        loop {
            use Bopomofo::*;
            let ini = [B, P, M, F, D, T, N, L, G, K, H, J, Q, X, ZH, CH, SH, R, Z, C, S];
            let med = [I, U, IU];
            let rim = [A, O, E, EH, AI, EI, AU, OU, AN, EN, ANG, ENG, ER];
            let ton = [TONE5, TONE2, TONE3, TONE4];
            let mut s = String::new();
            if self.rng.chance(3, 4) {
                s.push(char::from(*self.rng.pick(&ini)));
            }
            if self.rng.chance(1, 3) {
                s.push(char::from(*self.rng.pick(&med)));
            }
            if self.rng.chance(2, 3) {
                s.push(char::from(*self.rng.pick(&rim)));
            }
            if self.rng.chance(2, 3) {
                s.push(char::from(*self.rng.pick(&ton)));
            }
            if !s.is_empty() {
                return s;
            }
        }
    }

    fn phrase(&mut self, n: usize) -> String {
        let mut s = String::new();
        for _ in 0..n {
            let k = if self.rng.chance(4, 5) { self.rng.below(10) as usize } else { self.rng.below(CHARS.len() as u64) as usize };
            s.push_str(CHARS[k]);
        }
        s
    }

    fn freq(&mut self) -> u32 {
        match self.rng.below(8) {
            0 => 0,
            1 => u32::MAX,
            2 => u32::MAX - self.rng.below(3) as u32,
            3 => self.rng.below(1 << 31) as u32,
            _ => self.rng.below(12) as u32,
        }
    }

    fn rec(&mut self, prev: &[Rec]) -> Rec {
        if !prev.is_empty() {
            match self.rng.below(10) {
                // the same record again with another frequency (duplicate phrase)
                0 | 1 => {
                    let mut r = self.rng.pick(prev).clone();
                    r.freq = self.freq();
                    return r;
                }
                // a homophone: same syllables, other phrase of the same length
                2 | 3 => {
                    let p = self.rng.pick(prev).clone();
                    let n = p.syls.len();
                    return Rec { phrase: self.phrase(n), freq: self.freq(), syls: p.syls };
                }
                // a longer phrase with an earlier key as a prefix
                4 | 5 => {
                    let p = self.rng.pick(prev).clone();
                    let mut syls = p.syls.clone();
                    let extra = 1 + self.rng.below(2) as usize;
                    for _ in 0..extra {
                        syls.push(self.syllable());
                    }
                    let n = syls.len();
                    return Rec { phrase: self.phrase(n), freq: self.freq(), syls };
                }
                // the same phrase under another reading
                6 => {
                    let p = self.rng.pick(prev).clone();
                    let syls = (0..p.syls.len()).map(|_| self.syllable()).collect();
                    return Rec { phrase: p.phrase, freq: self.freq(), syls };
                }
                _ => {}
            }
        }
        let n = *self.rng.pick(&[1usize, 1, 1, 2, 2, 3, 4]);
        Rec { phrase: self.phrase(n), freq: self.freq(), syls: (0..n).map(|_| self.syllable()).collect() }
    }

    /// one well-formed source line for `r`, in a random style
    fn render(&mut self, r: &Rec, csv: bool) -> String {
        let d = if csv { "," } else { " " };
        let q = |s: &str, on: bool| if on { format!("\"{}\"", s) } else { s.to_string() };
        let style = self.rng.below(10);
        let quote_p = style == 0 || style == 1;
        let quote_f = style == 1;
        let quote_s = style == 1 || style == 2;
        let sep = |g: &mut Gen| if g.rng.chance(1, 6) { d.repeat(1 + g.rng.below(3) as usize) } else { d.to_string() };
        let mut s = q(&r.phrase, quote_p);
        s.push_str(&sep(self));
        let fr = if self.rng.chance(1, 12) { format!("{:03}", r.freq) } else { r.freq.to_string() };
        s.push_str(&q(&fr, quote_f));
        s.push_str(&sep(self));
        let mut body = String::new();
        for (i, y) in r.syls.iter().enumerate() {
            if i > 0 {
                let w = match self.rng.below(14) {
                    0 => "  ",
                    1 => "\t",
                    2 => "\u{3000}",
                    3 if csv => ",",
                    4 => "\u{a0}",
                    5 => " \u{2003}",
                    _ => " ",
                };
                body.push_str(w);
            }
            body.push_str(y);
        }
        if self.rng.chance(1, 4) {
            body.push_str(" # ");
            body.push_str(*self.rng.pick(&COMMENTS));
        }
        s.push_str(&q(&body, quote_s));
        s
    }

    fn source(&mut self, csv: bool, nlines: usize) -> Vec<(String, Rec)> {
        let mut recs: Vec<Rec> = vec![];
        let mut lines = vec![];
        for _ in 0..nlines {
            let r = self.rec(&recs);
            let l = self.render(&r, csv);
            recs.push(r.clone());
            lines.push((l, r));
        }
        lines
    }
}

/// every single-line corruption of line `text` (generated from `r`): (kind, new text)
fn corruptions(text: &str, r: &Rec, csv: bool, rng: &mut Rng) -> Vec<(&'static str, String)> {
    let d = if csv { "," } else { " " };
    let syl = r.syls.join(" ");
    let mut v: Vec<(&'static str, String)> = vec![];
    for bad in ["abc", "-1", "4294967296", "1.5", "１２", "+", "6\"8", "0x10", "99999999999999999999"] {
        v.push(("freq", format!("{}{}{}{}{}", r.phrase, d, bad, d, syl)));
    }
    for bad in ["abc", "ㄘㄜˋx", "ㄜㄘ", "ㄘㄘ", "ˋˋ", "ㄘ\"ㄜ", "ce4", "測"] {
        let mut s = r.syls.clone();
        let k = rng.below(s.len() as u64) as usize;
        s[k] = bad.to_string();
        v.push(("bopomofo", format!("{}{}{}{}{}", r.phrase, d, r.freq, d, s.join(" "))));
    }
    v.push(("no-syllables", format!("{}{}{}", r.phrase, d, r.freq)));
    v.push(("no-syllables-comment", format!("{}{}{}{}# {}", r.phrase, d, r.freq, d, syl)));
    v.push(("phrase-only", r.phrase.clone()));
    v.push(("no-freq", format!("{}{}{}", r.phrase, d, syl)));
    v.push(("no-phrase", format!("{}{}{}{}", d, r.freq, d, syl)));
    v.push(("empty-phrase", format!("\"\"{}{}{}{}", d, r.freq, d, syl)));
    v.push(("empty-line", String::new()));
    v.push(("blank-line", "   ".to_string()));
    v.push(("delims-only", d.repeat(3)));
    v.push(("extra-syllable", format!("{}{}{}{}{} ㄕˋ", r.phrase, d, r.freq, d, syl)));
    if r.syls.len() > 1 {
        v.push(("missing-syllable", format!("{}{}{}{}{}", r.phrase, d, r.freq, d, r.syls[1..].join(" "))));
    }
    // white space (not the delimiter) at either end of the phrase field: not trimmed, so it becomes part of the phrase
    if csv {
        v.push(("phrase-whitespace", format!("{} ,{},{}", r.phrase, r.freq, syl)));
        v.push(("phrase-whitespace", format!(" {},{},{}", r.phrase, r.freq, syl)));
        v.push(("phrase-whitespace", format!("\u{3000}{}\t,{},{}", r.phrase, r.freq, syl)));
    } else {
        v.push(("phrase-whitespace", format!("{}\t {} {}", r.phrase, r.freq, syl)));
        v.push(("phrase-whitespace", format!("\u{a0}{} {} {}", r.phrase, r.freq, syl)));
    }
    // … with one more syllable, i.e. as many syllables as the field has characters, white space included: only the phrase is wrong
    if csv {
        v.push(("phrase-whitespace-padded", format!("{} ,{},{} ㄕˋ", r.phrase, r.freq, syl)));
        v.push(("phrase-whitespace-padded", format!("\u{3000}{},{},ㄕˋ {}", r.phrase, r.freq, syl)));
    } else {
        v.push(("phrase-whitespace-padded", format!("{}\t {} {} ㄕˋ", r.phrase, r.freq, syl)));
        v.push(("phrase-whitespace-padded", format!(",{} {} ㄕˋ {}", r.phrase, r.freq, syl)));
    }
    v.push(("quote-in-phrase", format!("{}\"{}{}{}{}{}", r.phrase, r.phrase, d, r.freq, d, syl)));
    v.push(("wrong-delimiter", text.replace(d, if csv { ";" } else { "\t" })));
    v.push(("tone1", format!("{}{}{}{}{}ˉ", r.phrase, d, r.freq, d, r.syls[..r.syls.len() - 1].iter().map(|s| format!("{} ", s)).collect::<String>() + "ㄅㄚ")));
    v
}

// ---------------------------------------------------------------------------------------------

struct Stats {
    runs: u64,
    good_sources: u64,
    corrupted: u64,
    detected: u64,
    undetected_known: u64,
    recompiles: u64,
    lookups: u64,
    by_kind: BTreeMap<&'static str, u64>,
    by_cfg: BTreeMap<String, u64>,
    /// realised input distribution of the generated well-formed sources
    dist: BTreeMap<String, u64>,
    /// per defect of a malformed line: reported / accepted (known class) / accepted (new)
    defects: BTreeMap<String, u64>,
    f34_changed: u64,
    f34_unchanged_single_keys: u64,
    dump_order_checked: u64,
    dump_order_with_chain: u64,
}

/// realised distribution of one generated well-formed source (goes to the evidence as `#stat gen.*`)
fn distribution(dist: &mut BTreeMap<String, u64>, ls: &[(String, Rec)], csv: bool, crlf: bool, final_nl: bool) {
    let mut bump = |k: &str, n: u64| *dist.entry(k.to_string()).or_insert(0) += n;
    bump(if csv { "sources.csv" } else { "sources.plain" }, 1);
    bump("sources.crlf", crlf as u64);
    bump("sources.no_final_newline", (!final_nl) as u64);
    bump("lines", ls.len() as u64);
    let d = if csv { ",," } else { "  " };
    let mut leaves: BTreeMap<Vec<String>, Vec<String>> = BTreeMap::new();
    for (text, r) in ls {
        bump("lines.quoted", text.contains('"') as u64);
        bump("lines.comment", text.contains(" # ") as u64);
        bump("lines.repeated_delimiter", text.contains(d) as u64);
        bump("lines.unicode_space", text.chars().any(|c| c.is_whitespace() && c != ' ') as u64);
        bump("lines.non_bmp", text.chars().any(|c| c as u32 > 0xffff) as u64);
        bump(&format!("records.syllables_{}", r.syls.len().min(4)), 1);
        bump("records.max_freq", (r.freq >= u32::MAX - 2) as u64);
        let leaf = leaves.entry(r.syls.clone()).or_default();
        if leaf.contains(&r.phrase) {
            bump("records.duplicate_of_earlier", 1);
        } else {
            leaf.push(r.phrase.clone());
        }
    }
    bump("keys", leaves.len() as u64);
    for (k, ps) in &leaves {
        bump(&format!("leaf.phrases_{}", if ps.len() >= 4 { "4+".to_string() } else { ps.len().to_string() }), 1);
        if (1..k.len()).any(|n| leaves.contains_key(&k[..n])) {
            bump("keys.with_a_proper_prefix_key", 1);
        }
    }
}

fn src_text(lines: &[(String, Verdict)], crlf: bool, final_nl: bool) -> String {
    let nl = if crlf { "\r\n" } else { "\n" };
    let mut s = String::new();
    for (i, (l, _)) in lines.iter().enumerate() {
        s.push_str(l);
        if i + 1 < lines.len() || final_nl {
            s.push_str(nl);
        }
    }
    s
}

/// class of a malformed line the tool did not report: always "new" — the former known classes of F27 (`no-syllables`,
/// `length-mismatch`, `empty-phrase`, `phrase-whitespace`, `word-freq-unchecked`) are fixed in `parse_line`, so a recurrence
/// is a violation
fn undetected_class(_kinds: &[&'static str], _phrase: &Option<String>, _cfg: Cfg) -> &'static str {
    "new"
}

#[allow(clippy::too_many_arguments)]
fn check_source(
    cli: &mut Cli,
    out: &mut Out,
    st: &mut Stats,
    cfg: Cfg,
    lines: &[(String, Verdict)],
    crlf: bool,
    final_nl: bool,
    with_lookup: bool,
) {
    let src = src_text(lines, crlf, final_nl);
    let r = cli.run(cfg, &src);
    record(out, cfg, &src, &r);
    st.runs += 1;
    *st.by_cfg.entry(cfg.txt()).or_insert(0) += 1;
    let id = format!("cfg={} src={}", cfg.txt().replace(' ', "/"), hx(&src));
    let fail = |out: &mut Out, class: &str, what: String| out.oracle_fail("C20", class, &format!("{} {}", what.replace(' ', "_"), id));

    // what the format says about every line
    let first = if cfg.csv { 1 } else { 0 };
    let mut bad_lines = vec![];
    for (i, (_, v)) in lines.iter().enumerate().skip(first) {
        if let Verdict::Bad(kinds, ph) = v {
            bad_lines.push((i, kinds.clone(), ph.clone()));
        }
    }
    let has_tone1 = lines.iter().skip(first).any(|(l, _)| l.contains('ˉ'));
    // F18: the keys (as the dumper spells them) under which a record written with the first-tone mark reappears
    let tone1_keys: Vec<Vec<String>> = lines
        .iter()
        .skip(first)
        .filter_map(|(_, v)| match v {
            Verdict::Good(x) if x.syls.iter().any(|y| y.contains('ˉ')) => Some(x.syls.iter().map(|y| y.replace('ˉ', "")).collect()),
            _ => None,
        })
        .collect();
    // F18: (key as dumped, phrase) of these records — such a pair may collide with another record of the source, which
    // the dump then lists twice and the recompiled dictionary merges
    let tone1_pairs: Vec<(Vec<String>, String)> = lines
        .iter()
        .skip(first)
        .filter_map(|(_, v)| match v {
            Verdict::Good(x) if x.syls.iter().any(|y| y.contains('ˉ')) => {
                Some((x.syls.iter().map(|y| y.replace('ˉ', "")).collect(), x.phrase.clone()))
            }
            _ => None,
        })
        .collect();
    // a trailing CR-less empty last line etc. are lines of the file as the tool reads it; `lines` mirrors that
    let mut undetected: Vec<(usize, &'static str, Option<String>)> = vec![];
    for (i, kinds, ph) in &bad_lines {
        if r.reported.contains(&(i + 1)) {
            st.detected += 1;
            *st.defects.entry(format!("{}.reported", kinds.join("+"))).or_insert(0) += 1;
        } else {
            let class = undetected_class(kinds, ph, cfg);
            if class != "new" {
                st.undetected_known += 1;
            }
            *st.defects.entry(format!("{}.accepted_{}", kinds.join("+"), class)).or_insert(0) += 1;
            fail(out, class, format!("malformed line {} ({}) is not reported", i + 1, kinds.join("+")));
            for k in kinds {
                undetected.push((*i, *k, ph.clone()));
            }
        }
    }
    for n in &r.reported {
        let ok = *n >= 1 && bad_lines.iter().any(|(i, _, _)| i + 1 == *n);
        if !ok {
            fail(out, "new", format!("well-formed line {} is reported as malformed", n));
        }
    }
    let any_reported = !r.reported.is_empty();
    if any_reported && !cfg.skip {
        if r.exit == 0 {
            fail(out, "new", "a line is reported but the exit status is 0".into());
        }
        if r.exists {
            fail(out, "new", "a line is reported but an output file was produced".into());
        }
        return;
    }
    if r.exit != 0 || !r.exists {
        fail(out, "new", format!("exit status {} / output exists {} although no line blocks the build", r.exit, r.exists));
        return;
    }
    // dump reproduces the records
    let want = expected_map(lines, cfg);
    let junk_phrases: Vec<String> = undetected.iter().filter_map(|(_, _, p)| p.clone()).collect();
    let mut dumps = vec![];
    for (csvd, text) in [(false, &r.dump), (true, &r.dump_csv)] {
        let text = match text {
            Some(t) => t,
            None => {
                fail(out, "new", format!("dump{} fails on the built file", if csvd { " --csv" } else { "" }));
                continue;
            }
        };
        let recs = match read_dump(text, csvd) {
            Ok(v) => v,
            Err(e) => {
                let class =
                    if undetected.iter().any(|(_, k, _)| *k == "empty-phrase" || *k == "no-syllables" || *k == "phrase-chars") { "junk" } else { "new" };
                if class == "new" {
                    fail(out, "new", format!("dump is not in the documented format: {}", e));
                }
                continue;
            }
        };
        let mut got: BTreeMap<(Vec<String>, String), u32> = BTreeMap::new();
        let mut dups: Vec<(Vec<String>, String)> = vec![];
        for x in &recs {
            if got.insert((x.syls.clone(), x.phrase.clone()), x.freq).is_some() {
                dups.push((x.syls.clone(), x.phrase.clone()));
            }
        }
        for k in &dups {
            // two dumped lines can only read the same if one of them lost its first-tone mark (F18)
            let class = if tone1_pairs.contains(k) { "F18-tone1" } else { "new" };
            fail(out, class, format!("dump lists {:?} twice", k));
        }
        for (k, f) in &want {
            if junk_phrases.contains(&k.1) {
                continue;
            }
            let kk = (k.0.iter().map(|s| s.replace('ˉ', "")).collect::<Vec<_>>(), k.1.clone());
            match got.get(k) {
                Some(g) if g == f => {}
                Some(_) if dups.contains(k) && tone1_pairs.contains(k) => {} // listed twice (F18, reported above): either frequency may come last
                Some(g) => fail(out, "new", format!("record {:?} dumped with frequency {} instead of {}", k, g, f)),
                None if has_tone1 && (got.get(&kk) == Some(f) || (dups.contains(&kk) && tone1_pairs.contains(&kk))) => {
                    fail(out, "F18-tone1", format!("record {:?} is dumped without its first-tone mark", k))
                }
                None => fail(out, "new", format!("record {:?} of the source is missing from the dump", k)),
            }
        }
        if undetected.is_empty() {
            for (k, _) in &got {
                let back = want.contains_key(k)
                    || (has_tone1 && want.keys().any(|w| w.1 == k.1 && w.0.iter().map(|s| s.replace('ˉ', "")).collect::<Vec<_>>() == k.0));
                if !back {
                    fail(out, "new", format!("dump contains {:?} which is not a record of the source", k));
                }
            }
        }
        // the ORDER of the trie back end's dump (C20 `dump_order_linked` from C11 `entries_order`): the keys sorted
        // lexicographically by syllable code with a prefix first, every maximal chain "each key a prefix of the next"
        // reversed (Trie::entries descends along first children and pops its results deepest first); all records of a
        // key together.  Keys as codes through the library's spelling parser; sources with a first-tone mark are
        // skipped (F18: two different keys are spelled alike in the dump)
        if !cfg.sqlite && !has_tone1 && undetected.is_empty() {
            let mut seq: Vec<Vec<u16>> = vec![];
            let mut all = true;
            for x in &recs {
                match to_syls(&x.syls) {
                    Some(ks) => {
                        let k: Vec<u16> = ks.iter().map(|s| s.to_u16()).collect();
                        if seq.last() != Some(&k) {
                            seq.push(k);
                        }
                    }
                    None => all = false,
                }
            }
            if all {
                let mut sorted = seq.clone();
                sorted.sort();
                sorted.dedup();
                let order = entries_key_order(sorted);
                st.dump_order_checked += 1;
                if order.iter().zip(order.iter().skip(1)).any(|(a, b)| b.len() < a.len() && a.starts_with(b)) {
                    st.dump_order_with_chain += 1;
                }
                if seq != order {
                    let at = seq.iter().zip(order.iter()).position(|(a, b)| a != b).unwrap_or(order.len().min(seq.len()));
                    fail(out, "new", format!("dump{} of the trie file lists the keys in the order {:?} but the depth-first order (sorted keys, prefix chains deepest first) is {:?}: first difference at key {}",
                        if csvd { " --csv" } else { "" }, seq, order, at));
                }
            }
        }
        dumps.push((csvd, text.clone(), recs));
    }
    // recompile each dump: same dump again, same lookups
    for (csvd, text, recs) in &dumps {
        if !with_lookup && *csvd != cfg.csv {
            continue; // corrupted sources: only the dump in the source's own format is compiled again
        }
        let cfg2 = Cfg { csv: *csvd, skip: false, ..cfg };
        let r2 = cli.run(cfg2, text);
        record(out, cfg2, text, &r2);
        st.recompiles += 1;
        let again = if *csvd { &r2.dump_csv } else { &r2.dump };
        // F18: two keys that differ only in the unspellable tone value merge when the dump is compiled again; the
        // records stay the same, their order may change.  Anything else is not that finding.
        // … where the dump lists a pair twice (above), the later line replaces the earlier one when compiled again
        let same_records = match again.as_ref().map(|t| read_dump(t, *csvd)) {
            Some(Ok(v2)) => {
                let last_wins = |v: &[Rec]| -> BTreeMap<(Vec<String>, String), u32> {
                    v.iter().map(|x| ((x.syls.clone(), x.phrase.clone()), x.freq)).collect()
                };
                let m1 = last_wins(recs);
                m1 == last_wins(&v2) && v2.len() == m1.len()
            }
            _ => false,
        };
        let class = if !tone1_keys.is_empty() && r2.exit == 0 && r2.reported.is_empty() && same_records {
            "F18-tone1"
        } else {
            "new"
        };
        if r2.exit != 0 || !r2.reported.is_empty() || again.as_ref() != Some(text) {
            fail(
                out,
                class,
                format!("compiling the {}dump again: exit {} reported {} dump {}", if *csvd { "CSV " } else { "" }, r2.exit, commas(&r2.reported),
                        if again.as_ref() == Some(text) { "equal" } else { "differs" }),
            );
        } else if with_lookup {
            // equivalent dictionary: every key looks up the same phrases in the same order
            if let (Some(d1), Some(d2)) = (open_dict(&r.path, cfg.sqlite), open_dict(&r2.path, cfg.sqlite)) {
                let mut keys: Vec<Vec<String>> = recs.iter().map(|x| x.syls.clone()).collect();
                keys.sort();
                keys.dedup();
                for k in keys {
                    if let Some(ks) = to_syls(&k) {
                        let a = lookup(d1.as_ref(), &ks);
                        let b = lookup(d2.as_ref(), &ks);
                        st.lookups += 1;
                        let keytxt = commas(&ks.iter().map(|s| s.to_u16() as usize).collect::<Vec<_>>());
                        out.rec(&format!(
                            "cli lookup {} {} {} => {} {}",
                            cfg.txt(),
                            hx(&src),
                            keytxt,
                            a.len(),
                            a.iter().map(|(p, f)| format!("{}:{}", hx(p), f)).collect::<Vec<_>>().join(" ")
                        ).trim_end().to_string());
                        // the recompiled file against the model as well (its source is the dump text)
                        out.rec(&format!(
                            "cli lookup {} {} {} => {} {}",
                            cfg2.txt(),
                            hx(text),
                            keytxt,
                            b.len(),
                            b.iter().map(|(p, f)| format!("{}:{}", hx(p), f)).collect::<Vec<_>>().join(" ")
                        ).trim_end().to_string());
                        if cfg.sqlite && ks.len() == 1 && !tone1_keys.contains(&k) {
                            if a != b { st.f34_changed += 1 } else { st.f34_unchanged_single_keys += 1 }
                        }
                        if a != b {
                            // F34, exactly (theorem recompiled_lookup_sqlite_single): SQLite, a one-syllable key, and the
                            // recompiled file lists the same (phrase, frequency) pairs in ascending bytewise order of the text
                            let mut sa = a.clone();
                            sa.sort_by(|x, y| x.0.as_bytes().cmp(y.0.as_bytes()));
                            let class = if tone1_keys.contains(&k) {
                                "F18-tone1"
                            } else if cfg.sqlite && ks.len() == 1 && sa == b {
                                "F34-sqlite-order"
                            } else {
                                "new"
                            };
                            fail(
                                out,
                                class,
                                format!(
                                    "after recompiling the dump key {} looks up {} instead of {}",
                                    k.join("+"),
                                    b.iter().map(|x| x.0.clone()).collect::<Vec<_>>().join("/"),
                                    a.iter().map(|x| x.0.clone()).collect::<Vec<_>>().join("/")
                                ),
                            );
                        }
                    }
                }
            }
        }
        let _ = std::fs::remove_file(&r2.path);
    }
    let _ = std::fs::remove_file(&r.path);
}

/// a source given as bytes: correspondence record (`runraw`, byte-level model) and the oracle for lines that are not
/// valid UTF-8 — such a line is malformed, so it must be reported with its number, block the build without
/// `--skip-invalid` and be skipped with it (F45 `invalid-utf8`, fixed: the tool used to stop with an I/O error instead;
/// a recurrence is reported as `new`)
fn check_raw(cli: &mut Cli, out: &mut Out, st: &mut Stats, cfg: Cfg, bytes: &[u8]) {
    let (r, io) = cli.run_bytes(cfg, bytes);
    st.runs += 1;
    out.rec(&format!(
        "cli runraw {} {} => {} {} {} {} {} {}",
        cfg.txt(),
        hbytes(bytes),
        r.exit,
        commas(&r.reported),
        r.exists as u8,
        hxo(&r.dump),
        hxo(&r.dump_csv),
        if io { "io" } else { "ok" }
    ));
    let _ = std::fs::remove_file(&r.path);
    let mut chunks: Vec<&[u8]> = bytes.split(|b| *b == b'\n').collect();
    if chunks.last().map(|c| c.is_empty()).unwrap_or(false) {
        chunks.pop();
    }
    let first = if cfg.csv { 1 } else { 0 };
    let invalid: Vec<usize> =
        chunks.iter().enumerate().skip(first).filter(|(_, c)| std::str::from_utf8(c).is_err()).map(|(i, _)| i).collect();
    let id = format!("cfg={} src={}", cfg.txt().replace(' ', "/"), hbytes(bytes));
    if invalid.is_empty() {
        if io {
            out.oracle_fail("C20", "new", &format!("I/O_error_on_a_source_whose_lines_are_all_valid_UTF-8 {}", id));
        }
        return; // everything else about such a source is checked on the text level
    }
    *st.defects.entry("invalid-utf8.sources".into()).or_insert(0) += 1;
    let class = "new";
    for i in &invalid {
        if !r.reported.contains(&(i + 1)) {
            out.oracle_fail("C20", class, &format!("line_{}_(not_valid_UTF-8)_is_not_reported_with_its_number {}", i + 1, id));
        }
    }
    if cfg.skip && !r.exists {
        out.oracle_fail("C20", class, &format!("--skip-invalid_given_but_no_output_file_is_produced_(line_{}_is_not_valid_UTF-8) {}", invalid[0] + 1, id));
    }
    if !cfg.skip && (r.exit == 0 || r.exists) {
        out.oracle_fail("C20", "new", &format!("a_line_is_not_valid_UTF-8_but_exit_status_{}_/_output_exists_{} {}", r.exit, r.exists, id));
    }
}

/// `info` reports the metadata given to `init-database`, for both back ends, in both output formats
/// (oracle only: the dictionary compiled from a dump with the same flags is described identically)
fn check_info(cli: &mut Cli, out: &mut Out, sqlite: bool) {
    let meta = [("-n", "名 \"稱\"\\"), ("-c", "© 2024 someone"), ("-l", "LGPL-2.1-or-later"), ("-r", "9.8.7")];
    let dir = cli.dir.clone();
    let sp = dir.join("info.src");
    let op = dir.join(if sqlite { "info.sqlite3" } else { "info.dat" });
    std::fs::write(&sp, "測試 9 ㄘㄜˋ ㄕˋ\n").unwrap();
    let _ = std::fs::remove_file(&op);
    let mut c = cli.cmd();
    c.arg("init-database").arg("-t").arg(if sqlite { "sqlite" } else { "trie" });
    for (k, v) in meta {
        c.arg(k).arg(v);
    }
    c.arg(&sp).arg(&op);
    let o = c.output().expect("spawn chewing-cli");
    let id = format!("db={}", if sqlite { "sqlite" } else { "trie" });
    if !o.status.success() || !op.exists() {
        out.oracle_fail("C20", "new", &format!("init-database_with_metadata_flags_fails {}", id));
        return;
    }
    let mut c = cli.cmd();
    c.arg("info").arg("-p").arg(&op);
    let txt = String::from_utf8_lossy(&c.output().expect("spawn").stdout).to_string();
    let want = [("Name", meta[0].1), ("Copyright", meta[1].1), ("License", meta[2].1), ("Version", meta[3].1), ("Software", "chewing-cli ")];
    for (k, v) in want {
        let ok = txt.lines().any(|l| {
            l.split_once(':').map(|(a, b)| a.trim() == k && (if k == "Software" { b.trim().starts_with(v) } else { b.trim() == v })).unwrap_or(false)
        });
        if !ok {
            out.oracle_fail("C20", "new", &format!("info_does_not_report_{}_{} {} got={}", k, hx(v), id, hx(&txt)));
        }
    }
    let mut c = cli.cmd();
    c.arg("info").arg("-j").arg("-p").arg(&op);
    let js = String::from_utf8_lossy(&c.output().expect("spawn").stdout).to_string();
    let esc = |s: &str| s.replace('\\', "\\\\").replace('"', "\\\"");
    for (k, v) in [("name", meta[0].1), ("copyright", meta[1].1), ("license", meta[2].1), ("version", meta[3].1)] {
        let needle = format!("\"{}\": \"{}\"", k, esc(v));
        if !js.contains(&needle) {
            out.oracle_fail("C20", "new", &format!("info_--json_does_not_report_{} {} got={}", k, id, hx(&js)));
        }
    }
    let _ = std::fs::remove_file(&sp);
    let _ = std::fs::remove_file(&op);
}

fn main() {
    let mut out = Out::new();
    let thorough = tier_is_thorough();
    let exe = build_cli();
    let tmp = tempfile::tempdir().expect("tempdir");
    let mut cli = Cli { exe, dir: tmp.path().to_path_buf(), spawns: 0, n: 0 };
    let mut g = Gen { rng: Rng::new(seed_from_env()) };
    let mut st = Stats {
        runs: 0,
        good_sources: 0,
        corrupted: 0,
        detected: 0,
        undetected_known: 0,
        recompiles: 0,
        lookups: 0,
        by_kind: BTreeMap::new(),
        by_cfg: BTreeMap::new(),
        dist: BTreeMap::new(),
        defects: BTreeMap::new(),
        f34_changed: 0,
        f34_unchanged_single_keys: 0,
        dump_order_checked: 0,
        dump_order_with_chain: 0,
    };

    // char::is_whitespace on every code point
    {
        let ws: Vec<usize> = (0u32..0x110000).filter(|c| char::from_u32(*c).map(|c| c.is_whitespace()).unwrap_or(false)).map(|c| c as usize).collect();
        out.rec(&format!("cli ws 0 1114112 => {}", commas(&ws)));
    }

    let sqlite_ok = cfg!(feature = "sqlite");
    let dbs: Vec<bool> = if sqlite_ok { vec![false, true] } else { vec![false] };
    let all_cfgs = |csv: bool| -> Vec<Cfg> {
        let mut v = vec![];
        for &sqlite in &dbs {
            for keep in [false, true] {
                for skip in [false, true] {
                    v.push(Cfg { sqlite, csv, keep, skip });
                }
            }
        }
        v
    };
    let header = "詞(phrase),詞頻(freq),注音(bopomofo)";
    for &sqlite in &dbs {
        check_info(&mut cli, &mut out, sqlite);
    }

    // fixed sources: the witnesses of the pre-survey and the repository's own small files
    let fixed: Vec<(bool, Vec<&str>)> = vec![
        (false, vec!["測 5 ㄘㄜˋ", "冊 1 ㄘㄜˋ", "策 9 ㄘㄜˋ", "側 9 ㄘㄜˋ", "測試 9 ㄘㄜˋ ㄕˋ", "測試 10 ㄘㄜˋ ㄕˋ"]),
        (false, vec!["鑰匙 668 ㄧㄠˋ ㄔˊ # not official", "鑰匙     668 ㄧㄠˋ ㄔˊ # not official"]),
        (true, vec![header, "鑰匙,668,ㄧㄠˋ ㄔˊ # not official", "\"鑰匙\",668,\"ㄧㄠˋ ㄔˊ # not official\""]),
        (false, vec![]),
        (true, vec![]),
        (true, vec!["anything at all, even \"this\""]),
        (false, vec!["測 5", "甲乙 7 ㄘㄜˋ"]),
        // the other former witnesses of F27 (fixed): unchecked one-character frequency, empty phrase, white space / comma in the
        // phrase field (the last ones with as many syllables as the field has characters, so that nothing else is wrong)
        (false, vec!["測 abc ㄘㄜˋ", "試", "\"\" 5 ㄘㄜˋ", "測試\t 5 ㄘㄜˋ ㄕˋ ㄕˋ", ",策 3 ㄘㄜˋ ㄘㄜˋ", "測試 5 # ㄘㄜˋ ㄕˋ"]),
        (true, vec![header, "測試 ,5,ㄘㄜˋ ㄕˋ ㄕˋ", " 策,3,ㄘㄜˋ ㄘㄜˋ", ",5,ㄘㄜˋ", "測,abc,ㄘㄜˋ"]),
        (false, vec!["吧 3 ㄅㄚˉ", "爸 4 ㄅㄚˋ"]),
        // lines that would put one-character and longer phrases into one leaf: rejected since the fix of F27 `length-mismatch`
        // (a mixed leaf can no longer be built through the tool; the comparator arm for it is C11's business)
        (false, vec!["𠀀 1 ㄘㄜˋ", "ab 7 ㄘㄜˋ", "測 2 ㄘㄜˋ", "abc 9 ㄘㄜˋ", "é 3 ㄘㄜˋ", "策略 9 ㄘㄜˋ"]),
        // F18 with a collision: the dump lists a pair twice, the recompiled dictionary merges the two
        (false, vec!["吧 1 ㄅㄚ", "吧 9 ㄅㄚˉ", "試吧 2 ㄕˋ ㄅㄚ", "試吧 3 ㄕˋ ㄅㄚˉ", "爸吧 7 ㄅㄚˋ ㄅㄚˉ", "爸吧 6 ㄅㄚˋ ㄅㄚ"]),
    ];
    for (csv, ls) in &fixed {
        let d = if *csv { ',' } else { ' ' };
        let lines: Vec<(String, Verdict)> = ls.iter().map(|l| (l.to_string(), judge(l, d))).collect();
        for cfg in all_cfgs(*csv) {
            check_source(&mut cli, &mut out, &mut st, cfg, &lines, false, true, true);
        }
    }
    for f in ["tests/data/tsi.src", "tests/data/word.src", "tests/data/extra.src"] {
        let repo = std::env::var("VERIF_REPO").unwrap_or_else(|_| "/repo".into());
        if let Ok(text) = std::fs::read_to_string(Path::new(&repo).join(f)) {
            let lines: Vec<(String, Verdict)> = text.lines().map(|l| (l.to_string(), judge(l, ' '))).collect();
            for cfg in all_cfgs(false) {
                check_source(&mut cli, &mut out, &mut st, cfg, &lines, false, true, true);
            }
        }
    }

    // raw texts (correspondence only): line endings and the Unicode separators `char::is_whitespace` knows
    let raw: Vec<(bool, &str)> = vec![
        (false, "測 5 ㄘㄜˋ\r"),
        (false, "\n\n"),
        (false, "測試 5 ㄘㄜˋ ㄕˋ\r\r\n"),
        (false, "策 1 ㄘㄜˋ\n\r\n冊 2 ㄘㄜˋ"),
        (false, "測試\t5\tㄘㄜˋ\tㄕˋ\n"),
        (false, "測試 5 ㄘㄜˋ\u{3000}ㄕˋ\u{85}# c\n測試 6 ㄘㄜˋ\u{2028}ㄕˋ\u{a0}\u{1680}\u{2003}\u{202f}\u{205f}\n"),
        (false, "\u{feff}測 5 ㄘㄜˋ\n"),
        (false, "測,試 5 ㄘㄜˋ ㄕˋ\n測\u{200b}試 5 ㄘㄜˋ ㄕˋ ㄕˋ\n"),
        (false, "a\r 5 ㄘㄜˋ\n, 5 ㄘㄜˋ ㄘㄜˋ\n"),
        (false, "\"\"\"測試\"\" \"5\" \"\" \"ㄘㄜˋ\" \"\"ㄕˋ \"#\" ㄕˋ\n"),
        (false, "測試 +5 ㄘㄜˋ ㄕˋ\n測試 005 ㄘㄜ ㄕˋ\n測試 4294967295 ㄘㄜ ㄕ\n"),
        (true, "h\n測試,5,ㄘㄜˋ,ㄕˋ\r\n測試 ,5,ㄘㄜˋ ㄕˋ\n,5,ㄘㄜˋ\n\"\",5,ㄘㄜˋ\n"),
        (true, "測試,5,ㄘㄜˋ ㄕˋ"),
        (true, "\n測試,,5,,ㄘㄜˋ　ㄕˋ,,# x\n"),
    ];
    for (csv, text) in &raw {
        for cfg in all_cfgs(*csv) {
            let r = cli.run(cfg, text);
            record(&mut out, cfg, text, &r);
            let _ = std::fs::remove_file(&r.path);
            st.runs += 1;
        }
    }

    // sources that are not valid UTF-8 (byte-level model `runraw`; oracle: finding F45), and valid ones through the same path
    let raw_bytes: Vec<(bool, &[u8])> = vec![
        (false, &b"\xe6\xb8\xac 5 \xe3\x84\x98\xe3\x84\x9c\xcb\x8b\n\xff\xfe 5 \xe3\x84\x98\xe3\x84\x9c\xcb\x8b\n\xe7\xad\x96 1 \xe3\x84\x98\xe3\x84\x9c\xcb\x8b\n"[..]),
        (false, &b"\xe6\xb8\xac 5 \xe3\x84\x98\xe3\x84\x9c\xcb\x8b\nabc x\n\xe6\xb8 7 \xe3\x84\x98\n"[..]), // a rejected line before the invalid one: not printed either
        (false, &b"\xe6\xb8\xac 5 \xe3\x84\x98\xe3\x84\x9c\xcb\x8b\n\xc0\xaf 5 \xe3\x84\x98\xe3\x84\x9c\xcb\x8b"[..]),          // overlong form, no final newline
        (false, &b"\xed\xa0\x80 5 \xe3\x84\x98\xe3\x84\x9c\xcb\x8b\r\n"[..]),                                              // surrogate, CRLF
        (false, &b"\xf4\x90\x80\x80 5 \xe3\x84\x98\xe3\x84\x9c\xcb\x8b\n"[..]),                                            // above U+10FFFF
        (false, &b"\xf4\x8f\xbf\xbf\xf0\x90\x80\x80 5 \xe3\x84\x98\xe3\x84\x9c\xcb\x8b \xe3\x84\x98\xe3\x84\x9c\xcb\x8b\n\xed\x9f\xbf\xee\x80\x80\xe0\xa0\x80 4 \xe3\x84\x98\xe3\x84\x9c\xcb\x8b\r\n"[..]), // valid corner cases
        (false, &b"\xe6\xb8\xac 5 \xe3\x84\x98\xe3\x84\x9c\xcb\x8b\n\xe6\xb8"[..]),                                          // truncated sequence at the end of the file
        (false, &b"\x80\n"[..]),
        (false, &b"\xe0\x9f\xbf 1 \xe3\x84\x98\n\xf0\x8f\xbf\xbf 1 \xe3\x84\x98\n"[..]),
        (true, &b"\xff\xfe\n\xe6\xb8\xac\xe8\xa9\xa6,5,\xe3\x84\x98\xe3\x84\x9c\xcb\x8b \xe3\x84\x95\xcb\x8b\n"[..]),               // invalid CSV header: skipped unread
        (true, &b"h\n\xe6\xb8\xac\xe8\xa9\xa6,5,\xe3\x84\x98\xe3\x84\x9c\xcb\x8b \xe3\x84\x95\xcb\x8b\n\xe6\xb8\xac\xff,5,\xe3\x84\x98\xe3\x84\x9c\xcb\x8b\n"[..]),
        (true, &b"\xff"[..]),
    ];
    for (csv, bytes) in &raw_bytes {
        for cfg in all_cfgs(*csv) {
            check_raw(&mut cli, &mut out, &mut st, cfg, bytes);
        }
    }

    // generated well-formed sources, all eight configurations each
    let n_sources = if thorough { 150 } else { 12 };
    let mut bases: Vec<(bool, Vec<(String, Rec)>)> = vec![];
    for i in 0..n_sources {
        let csv = i % 2 == 1;
        let n = 1 + g.rng.below(if i % 6 == 0 { 24 } else { 8 }) as usize;
        let ls = g.source(csv, n);
        let d = if csv { ',' } else { ' ' };
        let mut lines: Vec<(String, Verdict)> = vec![];
        if csv {
            let h = if g.rng.chance(1, 3) { "phrase,freq,bopomofo".to_string() } else { header.to_string() };
            lines.push((h, Verdict::Bad(vec!["header"], None)));
        }
        for (l, r) in &ls {
            let v = judge(l, d);
            // self-check of the generator against the independent reader
            match &v {
                Verdict::Good(x) if x == r => {}
                other => {
                    eprintln!("harness bug: generated line {:?} for {:?} is judged {:?}", l, r, other);
                    std::process::exit(4);
                }
            }
            lines.push((l.clone(), v));
        }
        st.good_sources += 1;
        let crlf = g.rng.chance(1, 5);
        let final_nl = !g.rng.chance(1, 5);
        distribution(&mut st.dist, &ls, csv, crlf, final_nl);
        for cfg in all_cfgs(csv) {
            check_source(&mut cli, &mut out, &mut st, cfg, &lines, crlf, final_nl, true);
        }
        if i < 3 {
            out.sample(&format!("source {:?}", src_text(&lines, false, true)));
        }
        bases.push((csv, ls));
    }

    // every single-line corruption of the first sources (one random configuration pair each), sampled for the rest
    for (bi, (csv, ls)) in bases.iter().enumerate() {
        let d = if *csv { ',' } else { ' ' };
        let exhaustive = if thorough { bi < 40 } else { bi == 1 || bi == 2 }; // quick: one plain, one CSV source of at most 8 lines
        for li in 0..ls.len() {
            if !exhaustive && !g.rng.chance(1, 4) {
                continue;
            }
            let (text, r) = &ls[li];
            // the line made invalid UTF-8 (a stray continuation byte / a truncated sequence), through the byte-level path
            {
                let mut bytes: Vec<u8> = vec![];
                if *csv {
                    bytes.extend_from_slice(header.as_bytes());
                    bytes.push(b'\n');
                }
                for (j, (l, _)) in ls.iter().enumerate() {
                    if j == li {
                        let cut = *g.rng.pick(&[0usize, 1, 2]);
                        let b = l.as_bytes();
                        bytes.extend_from_slice(&b[..b.len().min(cut)]);
                        bytes.push(*g.rng.pick(&[0x80u8, 0xff, 0xc0, 0xe6]));
                        bytes.extend_from_slice(&b[b.len().min(cut)..]);
                    } else {
                        bytes.extend_from_slice(l.as_bytes());
                    }
                    bytes.push(b'\n');
                }
                *st.by_kind.entry("invalid-utf8").or_insert(0) += 1;
                let sqlite = sqlite_ok && g.rng.chance(1, 2);
                let keep = g.rng.chance(1, 2);
                for skip in [false, true] {
                    check_raw(&mut cli, &mut out, &mut st, Cfg { sqlite, csv: *csv, keep, skip }, &bytes);
                }
            }
            let cs = corruptions(text, r, *csv, &mut g.rng);
            for (kind, bad) in cs {
                if !exhaustive && !g.rng.chance(1, 3) {
                    continue;
                }
                let mut lines: Vec<(String, Verdict)> = vec![];
                if *csv {
                    lines.push((header.to_string(), Verdict::Bad(vec!["header"], None)));
                }
                for (j, (l, _)) in ls.iter().enumerate() {
                    let l = if j == li { &bad } else { l };
                    lines.push((l.clone(), judge(l, d)));
                }
                st.corrupted += 1;
                *st.by_kind.entry(kind).or_insert(0) += 1;
                let sqlite = sqlite_ok && g.rng.chance(1, 2);
                let keep = g.rng.chance(1, 2);
                // an empty last line without newline is no line at all: keep the final newline
                for skip in [false, true] {
                    check_source(&mut cli, &mut out, &mut st, Cfg { sqlite, csv: *csv, keep, skip }, &lines, false, true, false);
                }
            }
        }
    }

    out.stat("cli_spawns", cli.spawns);
    out.stat("runs", st.runs);
    out.stat("good_sources", st.good_sources);
    out.stat("corrupted_sources", st.corrupted);
    out.stat("malformed_lines_detected", st.detected);
    out.stat("malformed_lines_undetected_known_class", st.undetected_known);
    out.stat("recompiles_of_dumps", st.recompiles);
    out.stat("library_lookups", st.lookups);
    out.stat("trie_dump_order_checked", st.dump_order_checked);
    out.stat("trie_dump_order_with_a_prefix_chain", st.dump_order_with_chain);
    out.stat("sqlite", sqlite_ok as u8);
    for (k, v) in &st.by_kind {
        out.stat(&format!("corruption.{}", k), v);
    }
    for (k, v) in &st.by_cfg {
        out.stat(&format!("cfg.{}", k.replace(' ', "_")), v);
    }
    for (k, v) in &st.dist {
        out.stat(&format!("gen.{}", k), v);
    }
    for (k, v) in &st.defects {
        out.stat(&format!("defect.{}", k), v);
    }
    out.stat("sqlite_single_syllable_keys_order_changed_F34", st.f34_changed);
    out.stat("sqlite_single_syllable_keys_order_kept", st.f34_unchanged_single_keys);
    out.flush();
}
