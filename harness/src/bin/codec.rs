//! C11 correspondence + oracle: the trie dictionary file codec (`src/dictionary/trie.rs`).
//!
//! For every generated entry set (shared prefixes, keys that are prefixes of other keys, the empty
//! key, re-inserted phrases, 0–11 syllables, 1–4 byte characters, frequencies over the whole u32
//! range, with/without timestamps, metadata strings of all length classes):
//!
//! * `codec write …  => b<file>`     bytes of `TrieBuilder::write`, compared byte for byte with the model's writer
//! * `codec lookup b<file> <std|fuzzy> <key>… => …`, `codec entries b<file> => …`, `codec about b<file> => …`
//!   the real `Trie` on the implementation's bytes (the model's reader has to agree), and — independent
//!   writer — on the bytes the *model's* writer produced for the same input (obtained from the compiled
//!   model driver), fed to the real `Trie::new`;
//! * ORACLE = the C11 statement itself evaluated with a reference map on the real code
//!   (`!oracle C11 new …` on any deviation), including an independent parser of the documented format;
//! * a separate, counted stream of entry sets beyond the format's limits (a leaf of ≥ 64 KiB):
//!   `write` has to fail loudly or the file has to read back exactly (finding F13);
//! * written files with ONE node syllable overwritten by a value `Syllable::try_from` rejects (since the repair
//!   of C13's F47 `Trie::new` has to refuse them: `codec about … => err`, the model's `openTrie` agrees) and,
//!   as a control, by another valid code (the file still opens).
//!
//! Keys are `&[Syllable]`: since the repair of F47 a `Syllable` is a valid code (initial ≤ 21, medial ≤ 3,
//! rime ≤ 13, tone ≤ 5, marker bit clear; or the empty pattern 0x8000), so the generators draw valid codes only
//! (`valid`), boundary values included.  A node can therefore have at most 7392 children: the 16-bit child count
//! cannot overflow through the typed API any more (the thorough tier builds the full fan-out).
use chewing::dictionary::{
    Dictionary, DictionaryBuilder, DictionaryInfo, LookupStrategy, Phrase, Trie, TrieBuilder,
};
use chewing::zhuyin::Syllable;
use std::collections::BTreeMap;
use std::io::{Cursor, Read, Write};
use std::panic::{catch_unwind, AssertUnwindSafe};
use std::process::{Command, Stdio};
use vharness::*;

#[derive(Clone, Debug, PartialEq, Eq, PartialOrd, Ord)]
struct Ph {
    text: String,
    freq: u32,
    ts: Option<u64>,
}

#[derive(Clone, Debug)]
struct Ent {
    key: Vec<u16>,
    ph: Ph,
}

#[derive(Clone, Debug)]
struct Case {
    info: [String; 5],
    ents: Vec<Ent>,
}

fn syls(key: &[u16]) -> Vec<Syllable> {
    key.iter()
        .map(|c| Syllable::try_from(*c).unwrap_or_else(|_| panic!("generator bug: {:#06x} is not a Syllable", c)))
        .collect()
}

/// the codes of `Syllable` values (independent of the code under test): the empty pattern, or marker bit clear,
/// not zero, every component index within its table
fn valid(c: u16) -> bool {
    c == 0x8000
        || (c != 0 && c & 0x8000 == 0 && (c >> 9) & 0x3F <= 21 && (c >> 7) & 3 <= 3 && (c >> 3) & 0xF <= 13 && c & 7 <= 5)
}

/// number of valid codes with the marker bit clear: 22 * 4 * 14 * 6 tuples without the all-zero one
const N_VALID: u32 = 22 * 4 * 14 * 6 - 1;

/// the `n`-th valid code, 1 ≤ n ≤ N_VALID, in numeric order of (initial, medial, rime, tone)
fn nth_valid(n: u32) -> u16 {
    assert!((1..=N_VALID).contains(&n));
    enc((n / 336) as u16, (n / 84 % 4) as u16, (n / 6 % 14) as u16, (n % 6) as u16)
}

/// the numerically next / previous valid code (wrapping)
fn next_valid(c: u16) -> u16 {
    let mut c = c.wrapping_add(1);
    while !valid(c) {
        c = c.wrapping_add(1);
    }
    c
}

fn prev_valid(c: u16) -> u16 {
    let mut c = c.wrapping_sub(1);
    while !valid(c) {
        c = c.wrapping_sub(1);
    }
    c
}

fn to_phrase(p: &Ph) -> Phrase {
    let ph = Phrase::new(p.text.as_str(), p.freq);
    match p.ts {
        Some(t) => ph.with_time(t),
        None => ph,
    }
}

fn of_phrase(p: &Phrase) -> Ph {
    Ph { text: p.as_str().to_string(), freq: p.freq(), ts: p.last_used() }
}

fn key_s(key: &[u16]) -> String {
    if key.is_empty() {
        "-".to_string()
    } else {
        key.iter().map(|c| c.to_string()).collect::<Vec<_>>().join(",")
    }
}

fn ph_s(p: &Ph) -> String {
    format!("{}/{}/{}", hx(&p.text), p.freq, opt(p.ts))
}

fn phs_s(ps: &[Ph]) -> String {
    format!("[{}]", ps.iter().map(ph_s).collect::<Vec<_>>().join(","))
}

fn write_lhs(case: &Case) -> String {
    let mut s = String::from("codec write");
    for i in &case.info {
        s.push(' ');
        s.push_str(&hx(i));
    }
    for e in &case.ents {
        s.push(' ');
        s.push_str(&format!("{}/{}", key_s(&e.key), ph_s(&e.ph)));
    }
    s
}

fn info_of(case: &Case) -> DictionaryInfo {
    DictionaryInfo {
        name: case.info[0].clone(),
        copyright: case.info[1].clone(),
        license: case.info[2].clone(),
        version: case.info[3].clone(),
        software: case.info[4].clone(),
        ..Default::default()
    }
}

/// the real writer
fn build(case: &Case) -> Result<Vec<u8>, String> {
    let r = catch_unwind(AssertUnwindSafe(|| {
        let mut b = TrieBuilder::new();
        b.set_info(info_of(case)).map_err(|e| e.to_string())?;
        for e in &case.ents {
            b.insert(&syls(&e.key), to_phrase(&e.ph)).map_err(|e| e.to_string())?;
        }
        let mut cur = Cursor::new(vec![]);
        let n = b.write(&mut cur).map_err(|e| e.to_string())?;
        let bytes = cur.into_inner();
        if n != bytes.len() {
            return Err(format!("write returned {} but wrote {} bytes", n, bytes.len()));
        }
        Ok(bytes)
    }));
    match r {
        Ok(x) => x,
        Err(_) => Err("panic".to_string()),
    }
}

/// the file path of the API: `DictionaryBuilder::build(path)` (temporary file + rename) and `Trie::open(path)`;
/// returns the bytes found at `path` and what the opened dictionary says
#[allow(clippy::type_complexity)]
fn build_and_open(case: &Case, probe: &[u16]) -> Result<(Vec<u8>, [String; 5], Vec<Ph>, bool, usize), String> {
    let dir = tempfile::tempdir().map_err(|e| e.to_string())?;
    let path = dir.path().join("dict.dat");
    let r = catch_unwind(AssertUnwindSafe(|| {
        let mut b = TrieBuilder::new();
        b.set_info(info_of(case)).map_err(|e| e.to_string())?;
        for e in &case.ents {
            b.insert(&syls(&e.key), to_phrase(&e.ph)).map_err(|e| e.to_string())?;
        }
        b.build(&path).map_err(|e| e.to_string())?;
        let bytes = std::fs::read(&path).map_err(|e| e.to_string())?;
        let leftovers = std::fs::read_dir(dir.path()).map_err(|e| e.to_string())?.count();
        let t = Trie::open(&path).map_err(|e| e.to_string())?;
        let i = t.about();
        let k = syls(probe);
        let got = t.lookup_all_phrases(&k.as_slice(), LookupStrategy::Standard).iter().map(of_phrase).collect();
        Ok((bytes, [i.name, i.copyright, i.license, i.version, i.software], got, t.path() == Some(path.as_path()), leftovers))
    }));
    match r {
        Ok(x) => x,
        Err(_) => Err("panic".to_string()),
    }
}

/// reference map: key -> phrases in insertion order, a re-inserted phrase replaces in place
fn ref_map(ents: &[Ent]) -> BTreeMap<Vec<u16>, Vec<Ph>> {
    let mut m: BTreeMap<Vec<u16>, Vec<Ph>> = BTreeMap::new();
    for e in ents {
        let v = m.entry(e.key.clone()).or_default();
        if let Some(q) = v.iter_mut().find(|q| q.text == e.ph.text) {
            *q = e.ph.clone();
        } else {
            v.push(e.ph.clone());
        }
    }
    m
}

/// is the leaf mixed (single characters together with longer phrases)? the documentation fixes no
/// order for that case
fn mixed(ps: &[Ph]) -> bool {
    let singles = ps.iter().filter(|p| p.text.chars().count() == 1).count();
    singles != 0 && singles != ps.len()
}

/// the order the code documents (single characters first, then phrases by frequency and UTF-8 order), for messages
fn documented_order(ps: &[Ph]) -> Option<Vec<Ph>> {
    let mut v: Vec<Ph> = ps.iter().filter(|p| p.text.chars().count() == 1).cloned().collect();
    let mut m: Vec<Ph> = ps.iter().filter(|p| p.text.chars().count() != 1).cloned().collect();
    m.sort_by(|a, b| b.freq.cmp(&a.freq).then_with(|| b.text.cmp(&a.text)));
    v.extend(m);
    Some(v)
}

fn same_multiset(a: &[Ph], b: &[Ph]) -> bool {
    let mut a = a.to_vec();
    let mut b = b.to_vec();
    a.sort();
    b.sort();
    a == b
}

/// `got` is exactly the inserted phrases `exp` (insertion order), in the documented order:
/// the single characters keep insertion order, the multi-character phrases are by descending
/// frequency (as subsequences; in a mixed leaf the single characters come first)
fn leaf_ok(got: &[Ph], exp: &[Ph]) -> bool {
    if !same_multiset(got, exp) {
        return false;
    }
    let single = |p: &&Ph| p.text.chars().count() == 1;
    let gs: Vec<&Ph> = got.iter().filter(single).collect();
    let es: Vec<&Ph> = exp.iter().filter(single).collect();
    let gm: Vec<&Ph> = got.iter().filter(|p| !single(p)).collect();
    gs == es && gm.windows(2).all(|w| w[0].freq >= w[1].freq)
}

/// the order in which `Trie::entries()` must visit the keys (C11 `entries_order` / `Cli.trieOrder`): `sorted` =
/// the keys in lexicographic order of their syllable codes with a prefix before its extensions; cut into the
/// maximal runs in which every key is a prefix of the next one; every run reversed
fn entries_key_order(sorted: Vec<Vec<u16>>) -> Vec<Vec<u16>> {
    let mut out: Vec<Vec<u16>> = vec![];
    let mut run: Vec<Vec<u16>> = vec![];
    for k in sorted {
        if let Some(last) = run.last() {
            if !k.starts_with(last) {
                out.extend(run.drain(..).rev());
            }
        }
        run.push(k);
    }
    out.extend(run.drain(..).rev());
    out
}

/// does `got` equal the concatenation of the groups, each in its documented order?
fn matches_groups(got: &[Ph], groups: &[&Vec<Ph>]) -> bool {
    let mut pos = 0;
    for g in groups {
        if pos + g.len() > got.len() {
            return false;
        }
        if !leaf_ok(&got[pos..pos + g.len()], g) {
            return false;
        }
        pos += g.len();
    }
    pos == got.len()
}

// ------------------------------------------------------------------ independent format parser

/// `freq INTEGER (lo..hi)` of the ASN.1 module of the tree under test (`$VERIF_REPO/src/dictionary/trie.asn1`)
fn asn1_freq_range() -> Option<(u64, u64)> {
    let repo = std::env::var("VERIF_REPO").unwrap_or_else(|_| "/repo".to_string());
    let text = std::fs::read_to_string(std::path::Path::new(&repo).join("src/dictionary/trie.asn1")).ok()?;
    parse_freq_range(&text)
}

/// tolerant of layout: comments (`-- …`), line breaks and spacing do not matter
fn parse_freq_range(text: &str) -> Option<(u64, u64)> {
    let flat: String = text
        .lines()
        .map(|l| l.split("--").next().unwrap_or(""))
        .collect::<Vec<_>>()
        .join(" ")
        .split_whitespace()
        .collect::<Vec<_>>()
        .join(" ");
    // the `freq` field of `Phrase ::= SEQUENCE { … }`
    let ph = flat.find("Phrase ::= SEQUENCE")?;
    let body = &flat[ph..];
    let body = &body[..body.find('}')?];
    let mut from = 0;
    while let Some(i) = body[from..].find("freq") {
        let at = from + i;
        let before_ok = at == 0 || !body.as_bytes()[at - 1].is_ascii_alphanumeric();
        let rest = body[at + 4..].trim_start();
        if before_ok && rest.starts_with("INTEGER") {
            let rest = rest["INTEGER".len()..].trim_start();
            let rest = rest.strip_prefix('(')?;
            let inner = &rest[..rest.find(')')?];
            let (lo, hi) = inner.split_once("..")?;
            return Some((lo.trim().parse().ok()?, hi.trim().parse().ok()?));
        }
        from = at + 4;
    }
    None
}

thread_local! {
    static FREQ_RANGE: (u64, u64) = asn1_freq_range().unwrap_or((1, 0));
}

struct Tlv {
    tag: u8,
    start: usize, // of the content
    end: usize,
}

/// one TLV at `pos` inside `b[..limit]`, DER definite minimal lengths only
fn tlv(b: &[u8], pos: usize, limit: usize) -> Result<Tlv, String> {
    if pos + 2 > limit {
        return Err(format!("truncated header at {}", pos));
    }
    let tag = b[pos];
    let l0 = b[pos + 1] as usize;
    let (len, hdr) = if l0 < 0x80 {
        (l0, 2)
    } else {
        let n = l0 - 0x80;
        if n == 0 || n > 4 || pos + 2 + n > limit {
            return Err(format!("bad length form at {}", pos));
        }
        let mut v = 0usize;
        for i in 0..n {
            v = (v << 8) | b[pos + 2 + i] as usize;
        }
        let minimal = match n {
            1 => v >= 0x80,
            2 => v >= 0x100,
            3 => v >= 0x10000,
            _ => v >= 0x1000000,
        };
        if !minimal {
            return Err(format!("non-minimal length at {}", pos));
        }
        (v, 2 + n)
    };
    if pos + hdr + len > limit {
        return Err(format!("value of {} bytes at {} exceeds its container", len, pos));
    }
    Ok(Tlv { tag, start: pos + hdr, end: pos + hdr + len })
}

fn utf8_field(b: &[u8], pos: usize, limit: usize) -> Result<(String, usize), String> {
    let t = tlv(b, pos, limit)?;
    if t.tag != 0x0C {
        return Err(format!("expected UTF8String at {}, tag {:#x}", pos, t.tag));
    }
    let s = std::str::from_utf8(&b[t.start..t.end]).map_err(|e| format!("utf8 at {}: {}", pos, e))?;
    Ok((s.to_string(), t.end))
}

/// minimal unsigned INTEGER contents -> value
fn uint_value(c: &[u8], max_bytes: usize, at: usize) -> Result<u64, String> {
    if c.is_empty() {
        return Err(format!("empty INTEGER at {}", at));
    }
    if c[0] >= 0x80 {
        return Err(format!("negative INTEGER at {}", at));
    }
    if c.len() > 1 && c[0] == 0 && c[1] < 0x80 {
        return Err(format!("non-minimal INTEGER at {}", at));
    }
    let digits = if c[0] == 0 && c.len() > 1 { &c[1..] } else { c };
    if digits.len() > max_bytes {
        return Err(format!("INTEGER too large at {}", at));
    }
    Ok(digits.iter().fold(0u64, |a, d| (a << 8) | *d as u64))
}

struct Parsed {
    info: [String; 5],
    index: Vec<(u32, u16, u16)>,
    /// offset of the first index record in the file
    index_start: usize,
    data: Vec<u8>,
}

/// `Document` of trie.asn1 (freq range: the u32 of the rustdoc / the corrected module)
fn parse_document(b: &[u8]) -> Result<Parsed, String> {
    let doc = tlv(b, 0, b.len())?;
    if doc.tag != 0x30 {
        return Err("document is not a SEQUENCE".into());
    }
    if doc.end != b.len() {
        return Err("trailing data after the document".into());
    }
    let (magic, p) = utf8_field(b, doc.start, doc.end)?;
    if magic != "CHEW" {
        return Err("magic".into());
    }
    let v = tlv(b, p, doc.end)?;
    if v.tag != 0x02 || &b[v.start..v.end] != [0u8] {
        return Err("version is not INTEGER 0".into());
    }
    let inf = tlv(b, v.end, doc.end)?;
    if inf.tag != 0x30 {
        return Err("info is not a SEQUENCE".into());
    }
    let mut info: [String; 5] = Default::default();
    let mut q = inf.start;
    for slot in info.iter_mut() {
        let (s, n) = utf8_field(b, q, inf.end)?;
        *slot = s;
        q = n;
    }
    if q != inf.end {
        return Err("info has extra fields".into());
    }
    let ix = tlv(b, inf.end, doc.end)?;
    if ix.tag != 0x04 {
        return Err("index is not an OCTET STRING".into());
    }
    let ixb = &b[ix.start..ix.end];
    if ixb.len() % 8 != 0 || ixb.is_empty() {
        return Err("index is not a non-empty sequence of 8-byte records".into());
    }
    let index = ixb
        .chunks_exact(8)
        .map(|r| {
            (
                u32::from_be_bytes(r[..4].try_into().unwrap()),
                u16::from_be_bytes(r[4..6].try_into().unwrap()),
                u16::from_be_bytes(r[6..8].try_into().unwrap()),
            )
        })
        .collect();
    let ps = tlv(b, ix.end, doc.end)?;
    if ps.tag != 0x30 {
        return Err("phraseSeq is not a SEQUENCE".into());
    }
    if ps.end != doc.end {
        return Err("document has extra fields".into());
    }
    Ok(Parsed { info, index, index_start: ix.start, data: b[ps.start..ps.end].to_vec() })
}

/// `SEQUENCE OF Phrase` on a slice
fn parse_phrases(d: &[u8]) -> Result<Vec<Ph>, String> {
    let mut out = vec![];
    let mut pos = 0;
    while pos < d.len() {
        let rec = tlv(d, pos, d.len())?;
        if rec.tag != 0x30 {
            return Err(format!("phrase record at {} is not a SEQUENCE", pos));
        }
        let (text, p) = utf8_field(d, rec.start, rec.end)?;
        let f = tlv(d, p, rec.end)?;
        if f.tag != 0x02 {
            return Err(format!("freq at {} is not an INTEGER", p));
        }
        let freq = uint_value(&d[f.start..f.end], 4, p)? as u32;
        let (lo, hi) = FREQ_RANGE.with(|r| *r);
        if (freq as u64) < lo || (freq as u64) > hi {
            return Err(format!("freq {} is outside the module's INTEGER ({}..{})", freq, lo, hi));
        }
        let mut ts = None;
        if f.end != rec.end {
            let t = tlv(d, f.end, rec.end)?;
            if t.tag != 0x80 {
                return Err(format!("unexpected field tag {:#x} at {}", t.tag, f.end));
            }
            ts = Some(uint_value(&d[t.start..t.end], 8, f.end)?);
            if t.end != rec.end {
                return Err(format!("phrase record at {} has extra fields", pos));
            }
        }
        out.push(Ph { text, freq, ts });
        pos = rec.end;
    }
    Ok(out)
}

/// Independent reader of the documented format: checks the index invariants (BFS order with
/// consecutive child ranges, leaf first, children strictly ascending by syllable, leaf slices in
/// bounds and made of whole phrase records, phraseSeq covered exactly once in order) and returns
/// the map the file denotes.
fn read_independent(b: &[u8]) -> Result<([String; 5], BTreeMap<Vec<u16>, Vec<Ph>>), String> {
    let p = parse_document(b)?;
    let n = p.index.len();
    let mut map = BTreeMap::new();
    let (_, _, rs) = p.index[0];
    if rs != 0 {
        return Err("root record has a syllable".into());
    }
    // BFS exactly as the format describes it
    let mut queue: std::collections::VecDeque<(usize, Vec<u16>)> = Default::default();
    queue.push_back((0, vec![]));
    let mut next_child = 1usize;
    let mut next_data = 0usize;
    let mut visited = 0usize;
    while let Some((i, key)) = queue.pop_front() {
        visited += 1;
        let (a, l, s) = p.index[i];
        let is_leaf = i != 0 && s == 0;
        if is_leaf {
            let (db, dl) = (a as usize, l as usize);
            if db != next_data {
                return Err(format!("leaf record {}: data_begin {} but {} expected", i, db, next_data));
            }
            if dl == 0 || db + dl > p.data.len() {
                return Err(format!("leaf record {}: data range out of bounds", i));
            }
            let phs = parse_phrases(&p.data[db..db + dl]).map_err(|e| format!("leaf record {}: {}", i, e))?;
            if phs.is_empty() {
                return Err(format!("leaf record {} has no phrase", i));
            }
            next_data = db + dl;
            map.insert(key, phs);
        } else {
            let (cb, cl) = (a as usize, l as usize);
            if cb != next_child {
                return Err(format!("record {}: child_begin {} but {} expected", i, cb, next_child));
            }
            if cb + cl > n {
                return Err(format!("record {}: child range out of bounds", i));
            }
            if cl == 0 && i != 0 {
                return Err(format!("record {}: internal node without children", i));
            }
            let mut last = 0u16;
            for j in 0..cl {
                let (_, _, cs) = p.index[cb + j];
                if cs == 0 {
                    if j != 0 {
                        return Err(format!("record {}: leaf child not first", i));
                    }
                    queue.push_back((cb + j, key.clone()));
                } else {
                    if cs <= last {
                        return Err(format!("record {}: children not strictly ascending by syllable", i));
                    }
                    last = cs;
                    let mut k = key.clone();
                    k.push(cs);
                    queue.push_back((cb + j, k));
                }
            }
            next_child = cb + cl;
        }
    }
    if visited != n || next_child != n {
        return Err(format!("{} records, {} reachable", n, visited));
    }
    if next_data != p.data.len() {
        return Err("phraseSeq has bytes no leaf refers to".into());
    }
    Ok((p.info, map))
}

// ------------------------------------------------------------------ the real reader

struct Real {
    trie: Trie,
}

fn open_real(bytes: &[u8]) -> Option<Real> {
    catch_unwind(AssertUnwindSafe(|| Trie::new(Cursor::new(bytes.to_vec())).ok()))
        .ok()
        .flatten()
        .map(|trie| Real { trie })
}

impl Real {
    fn lookup(&self, key: &[u16], fuzzy: bool) -> Result<Vec<Ph>, String> {
        let k = syls(key);
        let st = if fuzzy { LookupStrategy::FuzzyPartialPrefix } else { LookupStrategy::Standard };
        catch_unwind(AssertUnwindSafe(|| {
            self.trie.lookup_all_phrases(&k.as_slice(), st).iter().map(of_phrase).collect()
        }))
        .map_err(|_| "panic".to_string())
    }
    fn lookup_n(&self, key: &[u16], fuzzy: bool, n: usize) -> Result<Vec<Ph>, String> {
        let k = syls(key);
        let st = if fuzzy { LookupStrategy::FuzzyPartialPrefix } else { LookupStrategy::Standard };
        catch_unwind(AssertUnwindSafe(|| {
            self.trie.lookup_first_n_phrases(&k.as_slice(), n, st).iter().map(of_phrase).collect()
        }))
        .map_err(|_| "panic".to_string())
    }
    fn first(&self, key: &[u16], fuzzy: bool) -> Result<Option<Ph>, String> {
        let k = syls(key);
        let st = if fuzzy { LookupStrategy::FuzzyPartialPrefix } else { LookupStrategy::Standard };
        catch_unwind(AssertUnwindSafe(|| self.trie.lookup_first_phrase(&k.as_slice(), st).map(|p| of_phrase(&p))))
            .map_err(|_| "panic".to_string())
    }
    fn entries(&self) -> Result<Vec<(Vec<u16>, Ph)>, String> {
        catch_unwind(AssertUnwindSafe(|| {
            self.trie
                .entries()
                .map(|(k, p)| (k.iter().map(|s| s.to_u16()).collect(), of_phrase(&p)))
                .collect()
        }))
        .map_err(|_| "panic".to_string())
    }
    fn about(&self) -> [String; 5] {
        let i = self.trie.about();
        [i.name, i.copyright, i.license, i.version, i.software]
    }
}

// ------------------------------------------------------------------ generators

const CHARS: &[char] = &[
    'a', 'Z', '\u{0}', '\u{7f}', '\u{80}', 'é', '\u{7ff}', '\u{800}', '測', '試', '冊', '策', '國', '民', '\u{d7ff}',
    '\u{e000}', '\u{ffff}', '\u{10000}', '𠀀', '😀', '\u{10ffff}',
];
const FREQS: &[u32] = &[
    0, 1, 2, 100, 127, 128, 255, 256, 32767, 32768, 65535, 65536, 0xFF_FFFF, 0x100_0000, 0x7FFF_FFFF, 0x8000_0000,
    0xFFFF_FFFF,
];
const TIMES: &[u64] = &[
    0, 1, 127, 128, 255, 256, 0xFFFF_FFFF, 0x1_0000_0000, 0x7FFF_FFFF_FFFF_FFFF, 0x8000_0000_0000_0000,
    0xFFFF_FFFF_FFFF_FFFF,
];

fn enc(i: u16, m: u16, r: u16, t: u16) -> u16 {
    i * 512 + m * 128 + r * 8 + t
}

/// a small pool of syllables so that keys share prefixes: full syllables, partial ones
/// (which are prefixes of the full ones) and boundary codes (the largest index of every component, tone index 5,
/// the code 1, the empty pattern 0x8000) — valid codes only: a key is a `&[Syllable]`
fn syl_pool(rng: &mut Rng) -> Vec<u16> {
    let mut v = vec![];
    let n = 2 + rng.below(5);
    for _ in 0..n {
        let i = rng.below(22) as u16;
        let m = rng.below(4) as u16;
        let r = rng.below(14) as u16;
        let t = if rng.chance(1, 10) { 5 } else { rng.below(5) as u16 };
        let c = enc(i, m, r, t);
        if c != 0 {
            v.push(c);
        }
        // relatives: same initial other tone / without tone / initial only
        if rng.chance(1, 2) && enc(i, m, r, 0) != 0 {
            v.push(enc(i, m, r, 0));
        }
        if rng.chance(1, 3) && enc(i, 0, 0, 0) != 0 {
            v.push(enc(i, 0, 0, 0));
        }
        if rng.chance(1, 3) && enc(i, m, r, (t + 1) % 6) != 0 {
            v.push(enc(i, m, r, (t + 1) % 6));
        }
    }
    if rng.chance(1, 4) {
        v.push(*rng.pick(&[1u16, 0x8000, enc(21, 3, 13, 5), enc(21, 3, 13, 4), enc(21, 0, 0, 0), enc(0, 3, 0, 0),
            enc(0, 0, 13, 0), 0x0100, 5, enc(1, 0, 0, 0), enc(21, 0, 13, 5)]));
    }
    debug_assert!(v.iter().all(|c| valid(*c)));
    if v.is_empty() {
        v.push(enc(1, 0, 1, 0));
    }
    v
}

fn gen_text(rng: &mut Rng, nchars: usize) -> String {
    (0..nchars)
        .map(|_| if rng.chance(2, 3) { CHARS[8 + rng.below(6) as usize] } else { *rng.pick(CHARS) })
        .collect()
}

fn gen_freq(rng: &mut Rng) -> u32 {
    match rng.below(4) {
        0 => *rng.pick(FREQS),
        1 => rng.below(4) as u32, // ties
        2 => rng.next() as u32,
        _ => rng.below(70000) as u32,
    }
}

fn gen_ts(rng: &mut Rng) -> Option<u64> {
    match rng.below(6) {
        0 => Some(*rng.pick(TIMES)),
        1 => Some(rng.next()),
        2 => Some(rng.below(2_000_000_000)),
        _ => None,
    }
}

fn gen_info_str(rng: &mut Rng) -> String {
    match rng.below(8) {
        0 => String::new(),
        1 => "libchewing 測試 dictionary".to_string(),
        2 => "x".repeat(127),
        3 => "y".repeat(128),
        4 => "é".repeat(130), // 260 bytes: three-byte length form
        5 => gen_text(rng, 3),
        6 => "Copyright (c) 2022 libchewing Core Team".to_string(),
        _ => "LGPL-2.1-or-later".to_string(),
    }
}

fn gen_case(rng: &mut Rng, size_class: u64) -> Case {
    let pool = syl_pool(rng);
    let max_entries = match size_class {
        0 => rng.below(4),
        1 => 1 + rng.below(12),
        _ => 12 + rng.below(28),
    } as usize;
    let mut keys: Vec<Vec<u16>> = vec![];
    let mut ents: Vec<Ent> = vec![];
    while ents.len() < max_entries {
        // key: new, an existing one (homophones / re-insert), a prefix or an extension of one
        let key: Vec<u16> = if keys.is_empty() || rng.chance(1, 3) {
            let len = match rng.below(10) {
                0 => 0,
                1 => 11,
                2 => 5 + rng.below(6),
                _ => 1 + rng.below(4),
            } as usize;
            (0..len).map(|_| *rng.pick(&pool)).collect()
        } else {
            let k = rng.pick(&keys).clone();
            match rng.below(5) {
                0 | 1 => k,
                2 => k[..(rng.below(k.len() as u64 + 1) as usize)].to_vec(),
                3 if k.len() < 11 => {
                    let mut k = k;
                    k.push(*rng.pick(&pool));
                    k
                }
                _ => {
                    let mut k = k;
                    if !k.is_empty() {
                        let i = rng.below(k.len() as u64) as usize;
                        k[i] = *rng.pick(&pool);
                    }
                    k
                }
            }
        };
        if !keys.contains(&key) {
            keys.push(key.clone());
        }
        // phrase: usually as many characters as syllables; sometimes a re-insert of an earlier text
        let earlier: Vec<&Ent> = ents.iter().filter(|e| e.key == key).collect();
        let text = if !earlier.is_empty() && rng.chance(1, 4) {
            rng.pick(&earlier).ph.text.clone()
        } else {
            let n = match rng.below(12) {
                0 => 0,
                1 => 1,
                2 => 1 + rng.below(4) as usize,
                _ => key.len().max(1),
            };
            gen_text(rng, n)
        };
        ents.push(Ent { key, ph: Ph { text, freq: gen_freq(rng), ts: gen_ts(rng) } });
    }
    let info = if rng.chance(1, 3) {
        Default::default()
    } else {
        [gen_info_str(rng), gen_info_str(rng), gen_info_str(rng), gen_info_str(rng), gen_info_str(rng)]
    };
    Case { info, ents }
}

/// one key with many homophones: > 20 phrases in one leaf (all single characters, all longer phrases, or
/// both kinds mixed — std's sort leaves insertion sort above 20 elements), encoded leaf of ≥ 128 / ≥ 256 bytes
fn gen_big_leaf(rng: &mut Rng) -> Case {
    let pool = syl_pool(rng);
    let klen = 1 + rng.below(3) as usize;
    let key: Vec<u16> = (0..klen).map(|_| *rng.pick(&pool)).collect();
    let n = 21 + rng.below(15) as usize;
    let kind = rng.below(3); // 0 single, 1 multi, 2 mixed
    let mut ents = vec![];
    for i in 0..n {
        let single = kind == 0 || (kind == 2 && rng.chance(1, 3));
        let text = if single {
            char::from_u32(0x4E00 + (rng.below(40) as u32) + if rng.chance(1, 6) { 0 } else { i as u32 * 41 }).unwrap().to_string()
        } else {
            // 0, 2 or 3 characters, 1–4 bytes each: byte lengths below, equal to and above a single character's
            let n = if rng.chance(1, 12) { 0 } else { 2 + rng.below(2) as usize };
            if rng.chance(1, 3) { (0..n).map(|_| *rng.pick(&['a', 'é', 'Z', '\u{80}'])).collect() } else { gen_text(rng, n) }
        };
        ents.push(Ent { key: key.clone(), ph: Ph { text, freq: gen_freq(rng), ts: gen_ts(rng) } });
    }
    // a second key so that the leaf is not alone
    ents.push(Ent { key: vec![pool[0]], ph: Ph { text: "試".into(), freq: 3, ts: None } });
    Case { info: Default::default(), ents }
}

/// distinct syllable codes in a scrambled order, for i < N_VALID = 7391 = 19 * 389 (211 is coprime to it)
fn scrambled(i: u32) -> u16 {
    assert!(i < N_VALID);
    nth_valid(i * 211 % N_VALID + 1)
}

fn cjk3(i: u32) -> String {
    [0x4E00 + i % 0x5000, 0x4E00 + (i / 0x5000), 0x6E2C].iter().map(|c| char::from_u32(*c).unwrap()).collect()
}

/// fixed extreme shapes inside the format's limits (every one goes through the same pipeline as the random
/// cases: bytes compared with the model's writer, real reader vs model reader, oracle):
/// wide fan-out (child_len needs the high byte of its u16), deep keys with every prefix inserted, leaves whose
/// data offsets need more than 16 bits (data_begin's upper bytes), a leaf of exactly 65 535 encoded bytes
fn shape_cases(rng: &mut Rng) -> Vec<(String, Case)> {
    let mut v = vec![];
    // wide: 260 children under the root, 300 under one of them, inserted in scrambled order
    {
        let hub = scrambled(7);
        let mut ents = vec![];
        for i in 0..300u32 {
            ents.push(Ent { key: vec![hub, scrambled(i)], ph: Ph { text: gen_text(rng, 2), freq: gen_freq(rng), ts: gen_ts(rng) } });
            if i < 260 {
                ents.push(Ent { key: vec![scrambled(i)], ph: Ph { text: gen_text(rng, 1), freq: gen_freq(rng), ts: None } });
            }
            if i % 50 == 3 {
                ents.push(Ent { key: vec![hub, scrambled(i), scrambled(i + 1)], ph: Ph { text: gen_text(rng, 3), freq: i, ts: None } });
                ents.push(Ent { key: vec![hub, scrambled(i)], ph: Ph { text: gen_text(rng, 2), freq: gen_freq(rng), ts: None } });
            }
        }
        v.push(("wide: 260 children under the root, 300 under one child".to_string(), Case { info: Default::default(), ents }));
    }
    // deep: a key of 40 syllables with every prefix inserted, a branch at depth 20, a 60-syllable chain without inner leaves
    {
        let pool = syl_pool(rng);
        let base: Vec<u16> = (0..40).map(|_| *rng.pick(&pool)).collect();
        let mut ents = vec![];
        let mut order: Vec<usize> = (0..=40).collect();
        for i in (1..order.len()).rev() {
            order.swap(i, rng.below(i as u64 + 1) as usize);
        }
        for len in order {
            ents.push(Ent { key: base[..len].to_vec(), ph: Ph { text: gen_text(rng, len.max(1)), freq: gen_freq(rng), ts: gen_ts(rng) } });
        }
        let mut branch = base[..20].to_vec();
        for _ in 0..10 {
            branch.push(scrambled(rng.below(1000) as u32));
        }
        ents.push(Ent { key: branch, ph: Ph { text: gen_text(rng, 30), freq: 5, ts: None } });
        let chain: Vec<u16> = (0..60).map(|i| scrambled(2000 + i)).collect();
        ents.push(Ent { key: chain, ph: Ph { text: gen_text(rng, 60), freq: 6, ts: Some(6) } });
        v.push(("deep: 40 syllables with every prefix a key, a 60-syllable chain".to_string(), Case { info: Default::default(), ents }));
    }
    // heavy: four leaves of about 30 KB each, so that data_begin exceeds 65 535
    {
        let (a, b, c) = (enc(20, 0, 3, 4), enc(17, 0, 0, 4), enc(1, 0, 1, 0));
        let mut ents = vec![];
        for i in 0..2800u32 {
            // single characters (insertion order is kept; no sorting work)
            let ch = char::from_u32(if i % 7 == 0 { 0x20000 + i } else { 0x4E00 + i }).unwrap();
            ents.push(Ent { key: vec![a], ph: Ph { text: ch.to_string(), freq: gen_freq(rng), ts: if i % 5 == 0 { Some(i as u64) } else { None } } });
        }
        for (key, n) in [(vec![c], 1500u32), (vec![a, b], 1500), (vec![c, b], 200)] {
            for i in 0..n {
                // almost sorted already (descending frequency), with ties and a few inversions
                let f = 3_000_000 - (i / 3) * 1000 + if i % 97 == 0 { 5000 } else { 0 };
                ents.push(Ent { key: key.clone(), ph: Ph { text: cjk3(i), freq: f, ts: if i % 4 == 0 { Some(1u64 << (i % 60)) } else { None } } });
            }
        }
        v.push(("heavy: four leaves of 13-36 KB, data offsets beyond 16 bits".to_string(), Case { info: Default::default(), ents }));
    }
    // the largest leaf the format can hold: 3855 records of 17 bytes = 65 535 bytes exactly
    {
        let key = vec![enc(20, 0, 3, 4)];
        let ents = (0..3855u32).map(|i| Ent { key: key.clone(), ph: Ph { text: cjk3(i), freq: 32767 - i, ts: None } }).collect();
        v.push(("a leaf of exactly 65535 encoded bytes".to_string(), Case { info: Default::default(), ents }));
    }
    v
}

/// partial syllables that are prefixes of `c` (and `c` itself), by the bit layout
fn partials(c: u16) -> Vec<u16> {
    let mut v = vec![c];
    for mask in [0xFFF8u16, 0xFF80, 0xFE00] {
        let p = c & mask;
        if p != 0 && !v.contains(&p) {
            v.push(p);
        }
    }
    v
}

// ------------------------------------------------------------------ model driver (independent writer)

fn model_driver_path() -> Option<std::path::PathBuf> {
    if let Ok(p) = std::env::var("VERIF_MODEL_DRIVER") {
        return Some(p.into());
    }
    let exe = std::env::current_exe().ok()?;
    // <root>/harness/target/debug/codec -> <root>/lean/.lake/build/bin/chewing-model
    let root = exe.parent()?.parent()?.parent()?.parent()?;
    let p = root.join("lean").join(".lake").join("build").join("bin").join("chewing-model");
    if p.exists() {
        Some(p)
    } else {
        None
    }
}

/// bytes the model's writer produces for each case (`None` = the model's `write` fails)
fn model_write(cases: &[Case]) -> Option<Vec<Option<Vec<u8>>>> {
    let path = model_driver_path()?;
    let mut child = Command::new(path).stdin(Stdio::piped()).stdout(Stdio::piped()).spawn().ok()?;
    let mut input = String::new();
    for c in cases {
        input.push_str(&write_lhs(c));
        input.push_str(" => ?\n");
    }
    let mut stdin = child.stdin.take()?;
    let writer = std::thread::spawn(move || {
        let _ = stdin.write_all(input.as_bytes());
    });
    let mut outp = String::new();
    child.stdout.take()?.read_to_string(&mut outp).ok()?;
    let _ = writer.join();
    let _ = child.wait();
    let mut res = vec![];
    for line in outp.lines() {
        if let Some(rest) = line.strip_prefix("DIFF ") {
            let e = rest.rsplit("|| expected ").next()?.trim();
            res.push(if e == "err" { None } else { Some(unhex(e)) });
        }
    }
    if res.len() == cases.len() {
        Some(res)
    } else {
        None
    }
}

// ------------------------------------------------------------------ per-case checks

struct Stats {
    files: u64,
    entries: u64,
    entries_order_checked: u64,
    entries_order_with_chain: u64,
    lookups_hit: u64,
    lookups_miss: u64,
    fuzzy: u64,
    fuzzy_nonempty: u64,
    fuzzy_multi_key: u64,
    reinserts: u64,
    empty_key: u64,
    prefix_keys: u64,
    mixed_leaves: u64,
    max_syllables: usize,
    bytes_max: usize,
    with_ts: u64,
    four_byte: u64,
    max_child_len: u64,
    max_leaf_bytes: u64,
    max_records: u64,
    max_data_begin: u64,
    big_leaves: u64,
    key_depth_hist: [u64; 5],
    first_n: u64,
    first_n_cut: u64,
    first_phrase: u64,
    oracle_fail: u64,
}

fn clip(s: String) -> String {
    if s.len() > 3000 { format!("{}…(+{} chars)", &s[..3000], s.len() - 3000) } else { s }
}

fn fail(out: &mut Out, st: &mut Stats, what: &str, case: &Case) {
    st.oracle_fail += 1;
    let lhs = write_lhs(case);
    let lhs = if lhs.len() > 6000 { format!("{}…(+{} chars)", &lhs[..6000], lhs.len() - 6000) } else { lhs };
    out.oracle_fail("C11", "new", &format!("{} || input: {}", what.replace('\n', " "), lhs));
}

/// query keys for a case: every inserted key, near misses, random ones
fn query_keys(rng: &mut Rng, case: &Case, rm: &BTreeMap<Vec<u16>, Vec<Ph>>) -> Vec<Vec<u16>> {
    let mut qs: Vec<Vec<u16>> = rm.keys().cloned().collect();
    let all: Vec<u16> = {
        let mut v: Vec<u16> = case.ents.iter().flat_map(|e| e.key.iter().copied()).collect();
        v.sort();
        v.dedup();
        if v.is_empty() {
            v.push(enc(1, 0, 1, 0));
        }
        v
    };
    let mut extra = vec![vec![]];
    for k in rm.keys() {
        if !k.is_empty() {
            extra.push(k[..k.len() - 1].to_vec());
            let mut c = k.clone();
            let i = rng.below(k.len() as u64) as usize;
            c[i] = *rng.pick(&all);
            extra.push(c);
            let mut c = k.clone();
            let i = rng.below(k.len() as u64) as usize;
            c[i] = next_valid(c[i]); // numerically adjacent syllable
            extra.push(c);
            let mut c = k.clone();
            c[i] = prev_valid(c[i]);
            extra.push(c);
        }
        let mut c = k.clone();
        c.push(*rng.pick(&all));
        extra.push(c);
    }
    for _ in 0..3 {
        let n = rng.below(4) as usize;
        extra.push((0..n).map(|_| *rng.pick(&all)).collect());
    }
    // keep the record count bounded
    while extra.len() > 24 {
        let i = rng.below(extra.len() as u64) as usize;
        extra.swap_remove(i);
    }
    for e in extra {
        if !qs.contains(&e) {
            qs.push(e);
        }
    }
    qs
}

fn fuzzy_queries(rng: &mut Rng, rm: &BTreeMap<Vec<u16>, Vec<Ph>>) -> Vec<Vec<u16>> {
    let mut qs: Vec<Vec<u16>> = vec![];
    let keys: Vec<&Vec<u16>> = rm.keys().collect();
    for k in &keys {
        if k.is_empty() {
            continue;
        }
        for _ in 0..2 {
            let q: Vec<u16> = k.iter().map(|c| *rng.pick(&partials(*c))).collect();
            if !qs.contains(&q) {
                qs.push(q);
            }
        }
        // a query that fails in one position
        let mut q: Vec<u16> = k.to_vec();
        let i = rng.below(k.len() as u64) as usize;
        q[i] = q[i] ^ 0x0200; // another initial (0 <-> 1, …, 20 <-> 21)
        if !valid(q[i]) {
            q[i] = 1;
        }
        if !qs.contains(&q) {
            qs.push(q);
        }
    }
    qs.push(vec![]);
    while qs.len() > 16 {
        let i = rng.below(qs.len() as u64) as usize;
        qs.swap_remove(i);
    }
    qs
}

/// "the stored syllable begins with the partial one", stated on the COMPONENTS of the two codes (initial = bits 9..,
/// medial = bits 7..8, rime = bits 3..6, tone = bits 0..2) and NOT through `Syllable::starts_with`, which is the code
/// under test (a reference that calls it agrees with any defect in it): the partial syllable's components up to and
/// including its last present one must be equal, whatever follows is free; a partial syllable with a tone is a
/// whole syllable and must be equal.
fn starts_with(s: u16, p: u16) -> bool {
    let comp = |c: u16| (c >> 9, (c >> 7) & 3, (c >> 3) & 15, c & 7);
    let (si, sm, sr, st) = comp(s);
    let (pi, pm, pr, pt) = comp(p);
    if pt != 0 {
        (si, sm, sr, st) == (pi, pm, pr, pt)
    } else if pr != 0 {
        (si, sm, sr) == (pi, pm, pr)
    } else if pm != 0 {
        (si, sm) == (pi, pm)
    } else {
        si == pi
    }
}

/// the reader part of the statement on `bytes` (produced by either writer) for the input `case`;
/// emits the reader records (unless `quiet`) and oracle verdicts
fn check_reader(out: &mut Out, st: &mut Stats, rng: &mut Rng, case: &Case, bytes: &[u8], who: &str, emit: bool) {
    let rm = ref_map(&case.ents);
    let file = hbytes(bytes);
    let real = match open_real(bytes) {
        Some(r) => r,
        None => {
            if emit {
                out.rec(&format!("codec about {} => err", file));
            }
            fail(out, st, &format!("Trie::new rejects the file written by {}", who), case);
            return;
        }
    };
    // metadata
    let about = real.about();
    if emit {
        out.rec(&format!("codec about {} => {}", file, about.iter().map(|s| hx(s)).collect::<Vec<_>>().join(" ")));
    }
    if about != case.info {
        fail(out, st, &format!("about() differs from the metadata written ({})", who), case);
    }
    // exact lookups
    let qs = query_keys(rng, case, &rm);
    let mut results = vec![];
    for q in &qs {
        let got = match real.lookup(q, false) {
            Ok(g) => g,
            Err(e) => {
                fail(out, st, &format!("lookup({}) {} ({})", key_s(q), e, who), case);
                vec![]
            }
        };
        match rm.get(q) {
            Some(exp) => {
                st.lookups_hit += 1;
                if !matches_groups(&got, &[exp]) {
                    fail(out, st, &format!("lookup({}) = {} but inserted (documented order) {} ({})", key_s(q), phs_s(&got),
                        phs_s(&documented_order(exp).unwrap_or(exp.clone())), who), case);
                }
            }
            None => {
                st.lookups_miss += 1;
                if !got.is_empty() {
                    fail(out, st, &format!("lookup({}) = {} for a key never inserted ({})", key_s(q), phs_s(&got), who), case);
                }
            }
        }
        results.push(phs_s(&got));
    }
    if emit {
        for (ks, rs) in qs.chunks(8).zip(results.chunks(8)) {
            out.rec(&format!("codec lookup {} std {} => {}", file,
                ks.iter().map(|k| key_s(k)).collect::<Vec<_>>().join(" "), rs.join(" ")));
        }
    }
    // fuzzy prefix lookups
    let fq = fuzzy_queries(rng, &rm);
    let mut results = vec![];
    for q in &fq {
        let got = match real.lookup(q, true) {
            Ok(g) => g,
            Err(e) => {
                fail(out, st, &format!("fuzzy lookup({}) {} ({})", key_s(q), e, who), case);
                vec![]
            }
        };
        // BTreeMap order = lexicographic by code = the order of the index
        let groups: Vec<&Vec<Ph>> = rm
            .iter()
            .filter(|(k, _)| k.len() == q.len() && k.iter().zip(q.iter()).all(|(s, p)| starts_with(*s, *p)))
            .map(|(_, v)| v)
            .collect();
        st.fuzzy += 1;
        if !groups.is_empty() {
            st.fuzzy_nonempty += 1;
        }
        if groups.len() > 1 {
            st.fuzzy_multi_key += 1;
        }
        if !matches_groups(&got, &groups) {
            let exp: Vec<Ph> = groups.iter().flat_map(|g| g.iter().cloned()).collect();
            fail(out, st, &format!("fuzzy lookup({}) = {} but the matching entries are {} ({})", key_s(q), phs_s(&got), phs_s(&exp), who), case);
        }
        results.push(phs_s(&got));
    }
    if emit {
        for (ks, rs) in fq.chunks(8).zip(results.chunks(8)) {
            out.rec(&format!("codec lookup {} fuzzy {} => {}", file,
                ks.iter().map(|k| key_s(k)).collect::<Vec<_>>().join(" "), rs.join(" ")));
        }
    }
    // the other two lookup methods of the trait: lookup_first_n_phrases (exactly the first min(n, all) phrases of
    // lookup_all_phrases: at most n, a prefix, nothing missing) and lookup_first_phrase (its first element)
    for fuzzy in [false, true] {
        let pool: &Vec<Vec<u16>> = if fuzzy { &fq } else { &qs };
        let mut sel: Vec<Vec<u16>> = pool.iter().take(if fuzzy { 6 } else { rm.len().min(6) + 2 }).cloned().collect();
        if sel.len() > 8 {
            sel.truncate(8);
        }
        let tag = if fuzzy { "fuzzy" } else { "std" };
        let all: Vec<Vec<Ph>> = sel.iter().map(|q| real.lookup(q, fuzzy).unwrap_or_default()).collect();
        for n in [0usize, 1, 3] {
            let mut results = vec![];
            for (q, all) in sel.iter().zip(all.iter()) {
                let got = match real.lookup_n(q, fuzzy, n) {
                    Ok(g) => g,
                    Err(e) => {
                        fail(out, st, &format!("lookup_first_n_phrases({}, {}, {}) {} ({})", key_s(q), n, tag, e, who), case);
                        vec![]
                    }
                };
                st.first_n += 1;
                if got.len() < all.len() {
                    st.first_n_cut += 1;
                }
                if got[..] != all[..n.min(all.len())] {
                    fail(out, st, &format!("lookup_first_n_phrases({}, {}, {}) = {} is not the first n phrases of lookup_all_phrases = {} ({})",
                        key_s(q), n, tag, phs_s(&got), phs_s(all), who), case);
                }
                results.push(phs_s(&got));
            }
            if emit && !sel.is_empty() {
                out.rec(&format!("codec lookupn {} {} {} {} => {}", file, tag, n,
                    sel.iter().map(|k| key_s(k)).collect::<Vec<_>>().join(" "), results.join(" ")));
            }
        }
        let mut results = vec![];
        for (q, all) in sel.iter().zip(all.iter()) {
            let got = match real.first(q, fuzzy) {
                Ok(g) => g,
                Err(e) => {
                    fail(out, st, &format!("lookup_first_phrase({}, {}) {} ({})", key_s(q), tag, e, who), case);
                    None
                }
            };
            st.first_phrase += 1;
            if got.as_ref() != all.first() {
                fail(out, st, &format!("lookup_first_phrase({}, {}) = {} but lookup_all_phrases = {} ({})", key_s(q), tag,
                    got.as_ref().map(ph_s).unwrap_or("-".into()), phs_s(all), who), case);
            }
            results.push(got.as_ref().map(ph_s).unwrap_or("-".into()));
        }
        if emit && !sel.is_empty() {
            out.rec(&format!("codec first {} {} {} => {}", file, tag,
                sel.iter().map(|k| key_s(k)).collect::<Vec<_>>().join(" "), results.join(" ")));
        }
    }
    // enumeration
    match real.entries() {
        Ok(es) => {
            if emit {
                let mut s = format!("codec entries {} => ok", file);
                for (k, p) in &es {
                    s.push_str(&format!(" {}={}", key_s(k), ph_s(p)));
                }
                out.rec(&s);
            }
            // the ORDER (C11 `entries_order`): the keys sorted lexicographically by syllable code, a prefix first
            // (= the order of this BTreeMap), cut into the maximal chains "each key a prefix of the next", every
            // chain reversed (the iterator descends along first children and pops its results deepest first);
            // under each key the leaf in the documented order
            {
                let order = entries_key_order(rm.keys().cloned().collect());
                let got_keys: Vec<&Vec<u16>> = {
                    let mut v: Vec<&Vec<u16>> = vec![];
                    for (k, _) in &es {
                        if v.last().map_or(true, |l| *l != k) {
                            v.push(k);
                        }
                    }
                    v
                };
                st.entries_order_checked += 1;
                if order.iter().zip(order.iter().skip(1)).any(|(a, b)| b.len() < a.len() && a.starts_with(b)) {
                    st.entries_order_with_chain += 1;
                }
                if got_keys.len() != order.len() || got_keys.iter().zip(order.iter()).any(|(a, b)| *a != b) {
                    let at = got_keys.iter().zip(order.iter()).position(|(a, b)| *a != b).unwrap_or(order.len().min(got_keys.len()));
                    fail(out, st, &format!("entries() visits the keys in the order {} but the depth-first order (sorted keys, prefix chains deepest first) is {} — first difference at position {} ({})",
                        got_keys.iter().map(|k| key_s(k)).collect::<Vec<_>>().join(" "),
                        order.iter().map(|k| key_s(k)).collect::<Vec<_>>().join(" "), at, who), case);
                } else {
                    let phs: Vec<Ph> = es.iter().map(|(_, p)| p.clone()).collect();
                    let groups: Vec<&Vec<Ph>> = order.iter().map(|k| &rm[k]).collect();
                    if !matches_groups(&phs, &groups) {
                        fail(out, st, &format!("entries() does not list every leaf in its documented order ({})", who), case);
                    }
                }
            }
            let mut got: Vec<(Vec<u16>, Ph)> = es;
            let mut exp: Vec<(Vec<u16>, Ph)> =
                rm.iter().flat_map(|(k, v)| v.iter().map(move |p| (k.clone(), p.clone()))).collect();
            got.sort();
            exp.sort();
            if got != exp {
                fail(out, st, &format!("entries() yields {} entries, not exactly the {} inserted ({})", got.len(), exp.len(), who), case);
            }
        }
        Err(e) => {
            if emit {
                out.rec(&format!("codec entries {} => panic", file));
            }
            fail(out, st, &format!("entries() {} ({})", e, who), case);
        }
    }
    // the documented format, read by an independent reader
    match read_independent(bytes) {
        Ok((info, map)) => {
            if info != case.info {
                fail(out, st, &format!("independent reader: metadata differs ({})", who), case);
            }
            let same = map.len() == rm.len()
                && map.iter().all(|(k, v)| rm.get(k).map(|e| matches_groups(v, &[e])).unwrap_or(false));
            if !same {
                fail(out, st, &format!("independent reader of the documented format sees {} keys, inserted {} (or other phrases/order) ({})",
                    map.len(), rm.len(), who), case);
            }
        }
        Err(e) => fail(out, st, &format!("file does not conform to the documented format: {} ({})", e, who), case),
    }
}

fn case_stats(st: &mut Stats, case: &Case, bytes: &[u8]) {
    let bytes_len = bytes.len();
    let rm = ref_map(&case.ents);
    st.files += 1;
    st.entries += case.ents.len() as u64;
    st.reinserts += (case.ents.len() - rm.values().map(|v| v.len()).sum::<usize>()) as u64;
    if rm.contains_key(&vec![]) {
        st.empty_key += 1;
    }
    for k in rm.keys() {
        st.max_syllables = st.max_syllables.max(k.len());
        if rm.keys().any(|o| o.len() > k.len() && o.starts_with(k)) {
            st.prefix_keys += 1;
        }
    }
    for v in rm.values() {
        if mixed(v) {
            st.mixed_leaves += 1;
        }
    }
    for (k, v) in &rm {
        if v.len() > 20 {
            st.big_leaves += 1;
        }
        let b = match k.len() { 0 => 0, 1 => 1, 2..=4 => 2, 5..=11 => 3, _ => 4 };
        st.key_depth_hist[b] += 1;
    }
    // realised index geometry, from the file itself
    if let Ok(p) = parse_document(bytes) {
        st.max_records = st.max_records.max(p.index.len() as u64);
        for (i, (a, l, s)) in p.index.iter().enumerate() {
            if i != 0 && *s == 0 {
                st.max_leaf_bytes = st.max_leaf_bytes.max(*l as u64);
                st.max_data_begin = st.max_data_begin.max(*a as u64);
            } else {
                st.max_child_len = st.max_child_len.max(*l as u64);
            }
        }
    }
    st.with_ts += case.ents.iter().filter(|e| e.ph.ts.is_some()).count() as u64;
    st.four_byte += case.ents.iter().filter(|e| e.ph.text.chars().any(|c| c.len_utf8() == 4)).count() as u64;
    st.bytes_max = st.bytes_max.max(bytes_len);
}

// ------------------------------------------------------------------ beyond the format's limits

/// entry sets that violate `Fits`; returns (label, case)
fn oversize_cases(thorough: bool) -> Vec<(String, Case, bool)> {
    let mut v = vec![];
    let key = vec![enc(20, 0, 3, 4)];
    let three = |i: u32| -> String {
        // 3 CJK characters = 9 bytes; record = 2 + (2+9) + 3 = 16 bytes
        [0x4E00 + i % 0x5000, 0x4E00 + (i / 0x5000), 0x6E2C].iter().map(|c| char::from_u32(*c).unwrap()).collect()
    };
    // boundary: 4095 records of 16 bytes = 65 520 bytes fits, 4096 = 65 536 does not
    for (n, fits) in [(4095u32, true), (4096u32, false), (6000u32, false)] {
        let ents = (0..n).map(|i| Ent { key: key.clone(), ph: Ph { text: three(i), freq: 0, ts: None } }).collect();
        v.push((format!("{} phrases of 16 encoded bytes under one key", n), Case { info: Default::default(), ents }, fits));
    }
    // one phrase whose record alone exceeds 64 KiB
    v.push((
        "one phrase of 70000 bytes".to_string(),
        Case { info: Default::default(), ents: vec![Ent { key: key.clone(), ph: Ph { text: "a".repeat(70000), freq: 1, ts: None } },
            Ent { key: vec![enc(1, 0, 1, 0)], ph: Ph { text: "八".into(), freq: 1, ts: None } }] },
        false,
    ));
    if thorough {
        // the largest fan-out the typed API can produce since the repair of F47: every `Syllable` value (7391 codes
        // and the empty pattern) as a child of one node, next to a leaf — 7393 queue entries, far below the 16-bit
        // child count (which therefore cannot overflow any more: 65 536 distinct `Syllable`s do not exist)
        let ents = (0..N_VALID)
            .map(|c| Ent { key: vec![enc(1, 0, 1, 0), scrambled(c)], ph: Ph { text: "測試".into(), freq: c, ts: None } })
            .chain(std::iter::once(Ent { key: vec![enc(1, 0, 1, 0), 0x8000], ph: Ph { text: "空白".into(), freq: 2, ts: None } }))
            .chain(std::iter::once(Ent { key: vec![enc(1, 0, 1, 0)], ph: Ph { text: "八".into(), freq: 1, ts: None } }))
            .collect();
        v.push(("every Syllable value (7392) as a child of one node, and a leaf".to_string(), Case { info: Default::default(), ents }, true));
        // ten such hubs: 73 910 children, 147 832 index records, so child_begin needs more than 16 bits
        let ents = (0..10u32)
            .flat_map(|h| (0..N_VALID).map(move |c| Ent { key: vec![scrambled(h * 700 + 3), scrambled(c)],
                ph: Ph { text: "測試".into(), freq: c + h, ts: None } }))
            .collect();
        v.push(("10 nodes with 7391 children each, 147832 index records".to_string(), Case { info: Default::default(), ents }, true));
    }
    v
}

/// the statement on an oversize input, evaluated without transcript records (files are large)
fn check_oversize(out: &mut Out, st: &mut Stats, label: &str, case: &Case, fits: bool) -> &'static str {
    let rm = ref_map(&case.ents);
    match build(case) {
        Err(e) => {
            if fits {
                fail(out, st, &format!("{}: write fails ({}) although the input is within the format's limits", label, e), &small(case));
            }
            "write-error"
        }
        Ok(bytes) => {
            let real = match open_real(&bytes) {
                Some(r) => r,
                None => {
                    fail(out, st, &format!("{}: write succeeds but the file cannot be opened", label), &small(case));
                    return "unreadable";
                }
            };
            let mut bad = None;
            // every key, or an evenly spread sample of about 300 when there are very many
            let stride = (rm.len() / 300).max(1);
            for (k, exp) in rm.iter().step_by(stride) {
                let got = real.lookup(k, false).unwrap_or_default();
                if !matches_groups(&got, &[exp]) {
                    bad = Some(format!("lookup({}) returns {} phrases, {} inserted", key_s(k), got.len(), exp.len()));
                    break;
                }
            }
            if bad.is_none() {
                if let Err(e) = read_independent(&bytes) {
                    bad = Some(format!("the file does not conform to the documented format: {}", e));
                }
            }
            if bad.is_none() {
                let n = real.entries().map(|e| e.len()).unwrap_or(usize::MAX);
                let m: usize = rm.values().map(|v| v.len()).sum();
                if n != m {
                    bad = Some(format!("entries() yields {} entries, {} inserted", n, m));
                }
            }
            match bad {
                Some(b) => {
                    fail(out, st, &format!("{}: write reports success but {}", label, b), &small(case));
                    "silently-wrong"
                }
                None => "roundtrip-ok",
            }
        }
    }
}

/// oversize inputs are described, not dumped
fn small(case: &Case) -> Case {
    Case { info: case.info.clone(), ents: case.ents.iter().take(2).cloned().collect() }
}

fn main() {
    let mut out = Out::new();
    let thorough = tier_is_thorough();
    let mut rng = Rng::new(seed_from_env());
    let mut st = Stats {
        files: 0, entries: 0, entries_order_checked: 0, entries_order_with_chain: 0, lookups_hit: 0, lookups_miss: 0, fuzzy: 0, fuzzy_nonempty: 0, fuzzy_multi_key: 0,
        reinserts: 0, empty_key: 0, prefix_keys: 0, mixed_leaves: 0, max_syllables: 0, bytes_max: 0, with_ts: 0,
        four_byte: 0, max_child_len: 0, max_leaf_bytes: 0, max_records: 0, max_data_begin: 0, big_leaves: 0, key_depth_hist: [0; 5], first_n: 0, first_n_cut: 0, first_phrase: 0, oracle_fail: 0,
    };

    // ---- fixed cases: the repository's own examples and the corner cases named in the design
    let mut cases: Vec<Case> = vec![];
    let e = |key: &[u16], t: &str, f: u32, ts: Option<u64>| Ent { key: key.to_vec(), ph: Ph { text: t.into(), freq: f, ts } };
    let ce4 = enc(20, 0, 3, 4); // ㄘㄜˋ
    let sh4 = enc(17, 0, 0, 4);
    cases.push(Case { info: Default::default(), ents: vec![] });
    cases.push(Case { info: Default::default(), ents: vec![e(&[], "空", 7, None)] });
    cases.push(Case { info: Default::default(), ents: vec![e(&[ce4], "測", 1, None), e(&[ce4], "冊", 1, None)] });
    cases.push(Case {
        info: ["name".into(), "copyright".into(), "license".into(), "version".into(), "software".into()],
        ents: vec![e(&[ce4, sh4], "測試", 100, None), e(&[ce4], "測", 1, Some(5)), e(&[ce4], "策", 2, None),
            e(&[ce4, sh4], "側室", 100, None), e(&[ce4, sh4], "測試", 9, Some(1 << 40)), e(&[], "", 0, None)],
    });

    let n_cases = if thorough { 6000 } else { 260 };
    for i in 0..n_cases {
        let class = match i % 10 {
            0 => 0,
            1..=6 => 1,
            _ => 2,
        };
        cases.push(if i % 25 == 24 { gen_big_leaf(&mut rng) } else { gen_case(&mut rng, class) });
    }

    let first_shape = cases.len();
    let shapes = shape_cases(&mut rng);
    for (_, c) in &shapes {
        cases.push(c.clone());
    }

    if asn1_freq_range().is_none() {
        // fail closed: the documented value range could not be read
        out.rec("codec xcheck asn1-freq-range-unreadable => fail");
    }
    // ---- the model's writer on the same inputs (independent writer for the real reader)
    let model_bytes = model_write(&cases);
    if model_bytes.is_none() {
        // fail closed: the cross-check could not be made
        out.rec("codec xcheck model-writer-unavailable => fail");
    }
    let mut shape_files = 0u64;
    let mut built_files = 0u64;
    let mut regrouped_files = 0u64;
    let mut shuffled_rewrites = 0u64;
    let mut shuffled_first_order_changed = 0u64;
    let mut shuffle_rng = Rng::new(seed_from_env() ^ 0x5bd1_e995_c11d_e7);
    let mut x_identical = 0u64;
    let mut x_different = 0u64;

    for (i, case) in cases.iter().enumerate() {
        let lhs = write_lhs(case);
        let bytes = match build(case) {
            Ok(b) => b,
            Err(e) => {
                out.rec(&format!("{} => err", lhs));
                fail(&mut out, &mut st, &format!("write fails ({}) on an input within the format's limits", e), case);
                continue;
            }
        };
        out.rec(&format!("{} => {}", lhs, hbytes(&bytes)));
        case_stats(&mut st, case, &bytes);
        if i < 3 {
            out.sample(&format!("{} entries -> {} bytes", case.ents.len(), bytes.len()));
        }
        if i >= first_shape {
            out.sample(&format!("shape: {} ({} entries) -> {} bytes", shapes[i - first_shape].0, case.ents.len(), bytes.len()));
            shape_files += 1;
        }
        // equal input gives byte-identical files (a second builder, same inserts)
        match build(case) {
            Ok(b2) if b2 == bytes => {}
            _ => fail(&mut out, &mut st, "a second write of the same input gives different bytes", case),
        }
        // the file path of the API on every seventh input: build(path) writes the same bytes, Trie::open reads them back
        if i % 7 == 3 || i >= first_shape {
            let probe: Vec<u16> = case.ents.first().map(|e| e.key.clone()).unwrap_or_default();
            match build_and_open(case, &probe) {
                Ok((fb, about, got, path_ok, files)) => {
                    built_files += 1;
                    if fb != bytes {
                        fail(&mut out, &mut st, "build(path) leaves other bytes in the file than write() produces", case);
                    }
                    if about != case.info {
                        fail(&mut out, &mut st, "Trie::open(path).about() differs from the metadata written", case);
                    }
                    let rm = ref_map(&case.ents);
                    if !matches_groups(&got, &[rm.get(&probe).unwrap_or(&vec![])]) {
                        fail(&mut out, &mut st, &format!("Trie::open(path): lookup({}) = {}", key_s(&probe), phs_s(&got)), case);
                    }
                    if !path_ok || files != 1 {
                        fail(&mut out, &mut st, &format!("build(path)/open(path): path() wrong or {} files left in the directory", files), case);
                    }
                }
                Err(e) => fail(&mut out, &mut st, &format!("build(path) / Trie::open(path) fails: {}", e), case),
            }
        }
        // the file depends on the entry *map* only: the same per-key insert sequences, keys visited in another order
        // (all entries of a key together, keys descending) give the same bytes
        {
            let mut by_key: BTreeMap<Vec<u16>, Vec<Ent>> = BTreeMap::new();
            for e in &case.ents {
                by_key.entry(e.key.clone()).or_default().push(e.clone());
            }
            let regrouped = Case { info: case.info.clone(), ents: by_key.into_values().rev().flatten().collect() };
            let moved = regrouped.ents.iter().zip(case.ents.iter()).filter(|(a, b)| a.key != b.key).count();
            if moved > 0 {
                regrouped_files += 1;
                match build(&regrouped) {
                    Ok(b2) if b2 == bytes => {}
                    _ => fail(&mut out, &mut st, "the same entries inserted key by key in another key order give different bytes", case),
                }
            }
        }
        // `order_independent` on the implementation: the same inserts with the keys' FIRST-INSERTION ORDER SHUFFLED — a random
        // interleaving of the per-key insert sequences (every key's inserts keep their relative order, re-inserts included),
        // sent through a fresh TrieBuilder — must give the same bytes.  Own random stream: the main one is not disturbed.
        {
            let mut by_key: BTreeMap<Vec<u16>, std::collections::VecDeque<Ent>> = BTreeMap::new();
            for e in &case.ents {
                by_key.entry(e.key.clone()).or_default().push_back(e.clone());
            }
            if by_key.len() >= 2 {
                let rounds = if case.ents.len() <= 400 { 2 } else { 1 };
                for round in 0..rounds {
                    let mut queues: Vec<std::collections::VecDeque<Ent>> = by_key.values().cloned().collect();
                    let mut ents: Vec<Ent> = Vec::with_capacity(case.ents.len());
                    if round == 0 {
                        // a uniformly random merge of the per-key sequences: shuffle the multiset of key indices
                        let mut slots: Vec<usize> = queues.iter().enumerate().flat_map(|(j, q)| std::iter::repeat(j).take(q.len())).collect();
                        for j in (1..slots.len()).rev() {
                            slots.swap(j, shuffle_rng.below(j as u64 + 1) as usize);
                        }
                        for j in slots {
                            ents.push(queues[j].pop_front().unwrap());
                        }
                    } else {
                        // the keys in a random order, each key's inserts together (first insertions exactly permuted)
                        let mut order: Vec<usize> = (0..queues.len()).collect();
                        for j in (1..order.len()).rev() {
                            order.swap(j, shuffle_rng.below(j as u64 + 1) as usize);
                        }
                        for j in order {
                            ents.extend(queues[j].drain(..));
                        }
                    }
                    let first_keys = |es: &[Ent]| {
                        let mut seen: Vec<&Vec<u16>> = vec![];
                        for e in es {
                            if !seen.contains(&&e.key) {
                                seen.push(&e.key);
                            }
                        }
                        seen.into_iter().cloned().collect::<Vec<_>>()
                    };
                    let shuffled = Case { info: case.info.clone(), ents };
                    debug_assert_eq!(ref_map(&shuffled.ents), ref_map(&case.ents));
                    shuffled_rewrites += 1;
                    if by_key.len() <= 64 && first_keys(&shuffled.ents) != first_keys(&case.ents) {
                        shuffled_first_order_changed += 1;
                    }
                    match build(&shuffled) {
                        Ok(b2) if b2 == bytes => {}
                        Ok(_) => fail(&mut out, &mut st, &format!("the same per-key insert sequences with the keys' first-insertion order shuffled give different bytes; shuffled input: {}", clip(write_lhs(&shuffled))), case),
                        Err(e) => fail(&mut out, &mut st, &format!("the input with the keys' first-insertion order shuffled is not written ({}); shuffled input: {}", e, clip(write_lhs(&shuffled))), case),
                    }
                }
            }
        }
        check_reader(&mut out, &mut st, &mut rng, case, &bytes, "TrieBuilder::write", true);
        if let Some(mb) = &model_bytes {
            match &mb[i] {
                Some(m) if *m == bytes => x_identical += 1,
                Some(m) => {
                    // the write record above already differs from the model; exercise the real reader on the model's file
                    x_different += 1;
                    let mut r2 = rng.clone();
                    check_reader(&mut out, &mut st, &mut r2, case, m, "the model's writer", true);
                }
                None => x_different += 1,
            }
        }
    }

    // ---- a node syllable that is not a `Syllable` (since the repair of C13's F47 `Trie::new` refuses the file)
    let mut tamper_invalid = 0u64;
    let mut tamper_rejected = 0u64;
    let mut tamper_valid = 0u64;
    let mut tamper_valid_opened = 0u64;
    {
        const BAD: &[u16] = &[0x6a07, 0x8208, 0x020e, 0xffff, 0x8001, 0x2c00, 0x0006, 0x0070, 0xc000, 0x7fff];
        let step = if thorough { 3 } else { 5 };
        let mut k = 0usize;
        for (i, case) in cases.iter().enumerate().take(first_shape) {
            if i % step != step / 2 + 1 {
                continue;
            }
            let bytes = match build(case) {
                Ok(b) => b,
                Err(_) => continue,
            };
            let p = match parse_document(&bytes) {
                Ok(p) => p,
                Err(_) => continue,
            };
            let nodes: Vec<usize> = (1..p.index.len()).filter(|j| p.index[*j].2 != 0).collect();
            if nodes.is_empty() {
                continue;
            }
            let j = *rng.pick(&nodes);
            let at = p.index_start + j * 8 + 6;
            // (a) an invalid code: the listed ones in turn, then random invalid values
            let bad = if k < 2 * BAD.len() {
                BAD[k % BAD.len()]
            } else {
                let mut c = rng.next() as u16;
                while valid(c) || c == 0 {
                    c = rng.next() as u16;
                }
                c
            };
            k += 1;
            let mut b2 = bytes.clone();
            b2[at..at + 2].copy_from_slice(&bad.to_be_bytes());
            tamper_invalid += 1;
            match open_real(&b2) {
                None => {
                    tamper_rejected += 1;
                    out.rec(&format!("codec about {} => err", hbytes(&b2)));
                }
                Some(r) => {
                    let about = r.about();
                    out.rec(&format!("codec about {} => {}", hbytes(&b2), about.iter().map(|s| hx(s)).collect::<Vec<_>>().join(" ")));
                    fail(&mut out, &mut st, &format!("Trie::new accepts an index whose record {} has the syllable field {:#06x}, which is not a Syllable \
                        (entries() would panic on it)", j, bad), case);
                }
            }
            // (b) control: another VALID code in the same place — the file still opens, entries() does not panic
            let other = if rng.chance(1, 2) { next_valid(p.index[j].2) } else { nth_valid(1 + rng.below(N_VALID as u64) as u32) };
            let mut b3 = bytes.clone();
            b3[at..at + 2].copy_from_slice(&other.to_be_bytes());
            tamper_valid += 1;
            match open_real(&b3) {
                None => {
                    out.rec(&format!("codec about {} => err", hbytes(&b3)));
                    fail(&mut out, &mut st, &format!("Trie::new rejects an index that differs from a written one only in the (valid) syllable {:#06x} of record {}", other, j), case);
                }
                Some(r) => {
                    tamper_valid_opened += 1;
                    let about = r.about();
                    out.rec(&format!("codec about {} => {}", hbytes(&b3), about.iter().map(|s| hx(s)).collect::<Vec<_>>().join(" ")));
                    match r.entries() {
                        Ok(es) => {
                            let mut s = format!("codec entries {} => ok", hbytes(&b3));
                            for (k, p) in &es {
                                s.push_str(&format!(" {}={}", key_s(k), ph_s(p)));
                            }
                            out.rec(&s);
                        }
                        Err(_) => {
                            out.rec(&format!("codec entries {} => panic", hbytes(&b3)));
                            fail(&mut out, &mut st, "entries() panics on a file Trie::new accepted", case);
                        }
                    }
                }
            }
        }
    }

    // ---- beyond the limits (separate, counted)
    let mut over = BTreeMap::new();
    for (label, case, fits) in oversize_cases(thorough) {
        let verdict = check_oversize(&mut out, &mut st, &label, &case, fits);
        *over.entry(verdict).or_insert(0u64) += 1;
        out.sample(&format!("limits: {} -> {}", label, verdict));
        // the model on the boundary pair (record only for the two 16-byte-record cases: moderate size)
        if case.ents.len() == 4095 || case.ents.len() == 4096 {
            let lhs = write_lhs(&case);
            match build(&case) {
                Ok(b) => out.rec(&format!("{} => {}", lhs, hbytes(&b))),
                Err(_) => out.rec(&format!("{} => err", lhs)),
            }
        }
    }

    // realised syllable codes of the keys
    {
        let mut codes: Vec<u16> = cases.iter().flat_map(|c| c.ents.iter().flat_map(|e| e.key.iter().copied())).collect();
        out.stat("key_syllables", codes.len());
        out.stat("key_syllables_with_tone_index_5", codes.iter().filter(|c| **c != 0x8000 && **c & 7 == 5).count());
        out.stat("key_syllables_empty_pattern_0x8000", codes.iter().filter(|c| **c == 0x8000).count());
        out.stat("key_syllables_with_a_maximal_component", codes.iter().filter(|c| **c != 0x8000
            && ((**c >> 9) == 21 || (**c >> 7) & 3 == 3 || (**c >> 3) & 0xF == 13)).count());
        out.stat("key_syllables_all_components_maximal", codes.iter().filter(|c| **c == enc(21, 3, 13, 5)).count());
        out.stat("key_syllables_invalid", codes.iter().filter(|c| !valid(**c)).count());
        codes.sort();
        codes.dedup();
        out.stat("distinct_syllable_codes", codes.len());
    }
    out.stat("files_with_an_invalid_node_syllable", tamper_invalid);
    out.stat("files_with_an_invalid_node_syllable_rejected", tamper_rejected);
    out.stat("files_with_another_valid_node_syllable", tamper_valid);
    out.stat("files_with_another_valid_node_syllable_opened", tamper_valid_opened);
    out.stat("files", st.files);
    out.stat("entries_inserted", st.entries);
    out.stat("entries_order_checked_files", st.entries_order_checked);
    out.stat("entries_order_files_with_a_prefix_chain", st.entries_order_with_chain);
    out.stat("reinserted_phrases", st.reinserts);
    out.stat("files_with_empty_key", st.empty_key);
    out.stat("keys_that_prefix_other_keys", st.prefix_keys);
    out.stat("mixed_single_multi_leaves", st.mixed_leaves);
    out.stat("max_syllables", st.max_syllables);
    out.stat("max_file_bytes", st.bytes_max);
    out.stat("entries_with_timestamp", st.with_ts);
    out.stat("entries_with_4_byte_chars", st.four_byte);
    out.stat("exact_lookups_of_inserted_keys", st.lookups_hit);
    out.stat("exact_lookups_of_absent_keys", st.lookups_miss);
    out.stat("fuzzy_lookups", st.fuzzy);
    out.stat("fuzzy_lookups_nonempty", st.fuzzy_nonempty);
    out.stat("fuzzy_lookups_matching_several_keys", st.fuzzy_multi_key);
    out.stat("leaves_with_more_than_20_phrases", st.big_leaves);
    out.stat("keys_by_syllables_0_1_2to4_5to11_12plus", format!("{}/{}/{}/{}/{}", st.key_depth_hist[0], st.key_depth_hist[1], st.key_depth_hist[2], st.key_depth_hist[3], st.key_depth_hist[4]));
    out.stat("max_children_of_a_node", st.max_child_len);
    out.stat("max_leaf_encoded_bytes", st.max_leaf_bytes);
    out.stat("max_index_records", st.max_records);
    out.stat("max_data_begin", st.max_data_begin);
    out.stat("extreme_shape_files", shape_files);
    out.stat("files_via_build_path_and_open_path", built_files);
    out.stat("files_rebuilt_with_keys_in_another_order", regrouped_files);
    out.stat("shuffled_rewrites", shuffled_rewrites);
    out.stat("shuffled_rewrites_first_insertion_order_changed_of_files_with_at_most_64_keys", shuffled_first_order_changed);
    out.stat("first_n_lookups", st.first_n);
    out.stat("first_n_lookups_shorter_than_all", st.first_n_cut);
    out.stat("first_phrase_lookups", st.first_phrase);
    out.stat("model_writer_files_identical", x_identical);
    out.stat("model_writer_files_different", x_different);
    for (k, v) in &over {
        out.stat(&format!("limits_{}", k), v);
    }
    out.stat("oracle_failures", st.oracle_fail);
    out.flush();
}
