//! C04 / C05 (component level): correspondence + oracle for `Composition` and `CompositionEditor`.
//!
//! Random operation sequences are applied to the REAL `chewing::conversion::Composition` (public API)
//! and to the real, crate-private `CompositionEditor` through the guarded forwarding probe
//! `chewing::editor::verif_composition_editor::CompositionEditorProbe` (hook, adds only the
//! `cursor_stack()` accessor).  Per step one record
//!
//!   comp <op> <pre-state> <args> => ok <post-state> | panic:<site>
//!   cedi <op> <pre-state> <args> => ok <post composition> | panic:<site>          (C04's view)
//!   cedc <op> <pre-state> <args> => ok <cursor> <k> <stack>*k <n> <sym>*n | panic  (C05's view)
//!
//! is printed; the Lean driver recomputes the right-hand side from the left-hand side.  The two
//! projections of a `CompositionEditor` step keep the scopes of the two properties apart: a defect
//! that only loses selections does not break C05's correspondence, one that only misplaces the
//! cursor does not break C04's.
//!
//!   comp state = <n> <sym>*n <gap>*n <m> <sel>*m        sym = s<u16 code> | c<code point>
//!   ced  state = <cursor> <k> <stack>*k <comp state>     gap = B | K (break) | U (glue) | N   (pre-state of cedi/cedc)
//!   sel = <start>:<stop>:<is_phrase 0|1>:x<hex utf-8>    (post-state selections are sorted as strings:
//!                                                         `swap_remove` order is not modelled)
//!
//! ORACLE (the property evaluated on the implementation, independent of the Lean model): a shadow
//! ledger — the list of symbols, the cursor, the cursor stack, the set of live choices and the set of
//! user break points — is advanced by the *specification* of each operation:
//!   C04  every choice the operation does not edit inside is still present, shifted by the documented
//!        amount, with the same text; no selection appears that is not the pushed one or the image of
//!        an old one; a new choice removes exactly the choices it overlaps; user breaks stay (shifted)
//!        unless the operation touches that gap, none appears unasked; the composition invariant
//!        (gap 0 = Begin, selections non-empty, in range, pairwise disjoint) holds.
//!   C05  cursor within 0..=len; insert puts exactly one symbol at the cursor and advances it;
//!        Backspace removes the symbol before, Delete the symbol at the cursor; moves change only the
//!        cursor; push/pop restore the (clamped) cursor; remove_front drops a prefix and saturates.
//! The oracle is evaluated only while every call so far satisfied the documented preconditions
//! (index in range, `ValidSelection`); calls that violate them are generated in separate sessions,
//! counted separately, and are compared against the model only.
use chewing::conversion::{Composition, Gap, Interval, Symbol};
use chewing::editor::verif_composition_editor::CompositionEditorProbe;
use chewing::zhuyin::Syllable;
use std::panic::{catch_unwind, AssertUnwindSafe};
use vharness::*;

// ------------------------------------------------------------------------------------------ state

#[derive(Clone, Debug, PartialEq, Eq)]
struct Sel {
    start: usize,
    stop: usize,
    phrase: bool,
    text: String,
}

impl Sel {
    fn tok(&self) -> String {
        format!("{}:{}:{}:{}", self.start, self.stop, self.phrase as u8, hx(&self.text))
    }
    fn interval(&self) -> Interval {
        Interval { start: self.start, end: self.stop, is_phrase: self.phrase, str: self.text.clone().into_boxed_str() }
    }
    fn intersects(&self, o: &Sel) -> bool {
        self.start.max(o.start) < self.stop.min(o.stop)
    }
    fn valid(&self, len: usize) -> bool {
        self.start < self.stop && self.stop <= len && self.text.chars().count() == self.stop - self.start
    }
    fn moved(&self, start: usize, stop: usize) -> Sel {
        Sel { start, stop, phrase: self.phrase, text: self.text.clone() }
    }
}

#[derive(Clone, Debug, PartialEq, Eq)]
struct CState {
    syms: Vec<Symbol>,
    gaps: Vec<Gap>,
    sels: Vec<Sel>,
}

fn snap(c: &Composition) -> CState {
    let syms = c.symbols().to_vec();
    let gaps = (0..syms.len()).map(|i| c.gap(i).expect("gap(i) for i < len")).collect();
    let sels = c
        .selections()
        .iter()
        .map(|iv| Sel { start: iv.start, stop: iv.end, phrase: iv.is_phrase, text: iv.str.to_string() })
        .collect();
    CState { syms, gaps, sels }
}

fn sym_tok(s: &Symbol) -> String {
    match s {
        Symbol::Syllable(y) => format!("s{}", y.to_u16()),
        Symbol::Char(c) => format!("c{}", *c as u32),
    }
}

fn gap_tok(g: Gap) -> &'static str {
    match g {
        Gap::Begin => "B",
        Gap::Break => "K",
        Gap::Glue => "U",
        Gap::Normal => "N",
    }
}

impl CState {
    fn len(&self) -> usize {
        self.syms.len()
    }
    fn toks(&self, sorted: bool) -> String {
        let mut v: Vec<String> = vec![self.syms.len().to_string()];
        v.extend(self.syms.iter().map(sym_tok));
        v.extend(self.gaps.iter().map(|g| gap_tok(*g).to_string()));
        v.push(self.sels.len().to_string());
        let mut s: Vec<String> = self.sels.iter().map(|s| s.tok()).collect();
        if sorted {
            s.sort();
        }
        v.extend(s);
        v.join(" ")
    }
}

#[derive(Clone, Debug, PartialEq, Eq)]
struct EState {
    cursor: usize,
    stack: Vec<usize>,
    c: CState,
}

fn esnap(e: &CompositionEditorProbe) -> EState {
    EState { cursor: e.cursor(), stack: e.cursor_stack().to_vec(), c: snap(e.composition()) }
}

impl EState {
    /// C05's projection: cursor, cursor stack, symbols
    fn cursor_toks(&self) -> String {
        let mut v = vec![self.cursor.to_string(), self.stack.len().to_string()];
        v.extend(self.stack.iter().map(|x| x.to_string()));
        v.push(self.c.syms.len().to_string());
        v.extend(self.c.syms.iter().map(sym_tok));
        v.join(" ")
    }
    fn toks(&self, sorted: bool) -> String {
        let mut v = vec![self.cursor.to_string(), self.stack.len().to_string()];
        v.extend(self.stack.iter().map(|x| x.to_string()));
        v.push(self.c.toks(sorted));
        v.join(" ")
    }
}

// ------------------------------------------------------------------------------------- operations

#[derive(Clone, Debug)]
enum Op {
    Insert(usize, Symbol),
    Push(Symbol),
    Remove(usize),
    RemoveFront(usize),
    Replace(usize, Symbol),
    SetGap(usize, Gap),
    PushSel(Sel),
    Clear,
}

impl Op {
    fn name(&self) -> &'static str {
        match self {
            Op::Insert(..) => "insert",
            Op::Push(..) => "push",
            Op::Remove(..) => "remove",
            Op::RemoveFront(..) => "remove_front",
            Op::Replace(..) => "replace",
            Op::SetGap(..) => "set_gap",
            Op::PushSel(..) => "push_selection",
            Op::Clear => "clear",
        }
    }
    fn args(&self) -> String {
        match self {
            Op::Insert(i, s) | Op::Replace(i, s) => format!("{} {}", i, sym_tok(s)),
            Op::Push(s) => sym_tok(s),
            Op::Remove(i) | Op::RemoveFront(i) => i.to_string(),
            Op::SetGap(i, g) => format!("{} {}", i, gap_tok(*g)),
            Op::PushSel(s) => s.tok(),
            Op::Clear => String::new(),
        }
    }
    fn show(&self) -> String {
        format!("{}({})", self.name(), self.args().replace(' ', ","))
    }
    /// do the documented preconditions hold in a state of length `len`?
    fn valid(&self, len: usize) -> bool {
        match self {
            Op::Insert(i, _) => *i <= len,
            Op::Push(_) | Op::Clear => true,
            Op::Remove(i) | Op::Replace(i, _) => *i < len,
            Op::RemoveFront(n) => *n <= len,
            Op::SetGap(i, g) => *i < len && *g != Gap::Begin,
            Op::PushSel(s) => s.valid(len),
        }
    }
    fn run(&self, c: &mut Composition) {
        match self {
            Op::Insert(i, s) => c.insert(*i, *s),
            Op::Push(s) => c.push(*s),
            Op::Remove(i) => c.remove(*i),
            Op::RemoveFront(n) => c.remove_front(*n),
            Op::Replace(i, s) => c.replace(*i, *s),
            Op::SetGap(i, g) => c.set_gap(*i, *g),
            Op::PushSel(s) => c.push_selection(s.interval()),
            Op::Clear => c.clear(),
        }
    }
}

#[derive(Clone, Debug)]
enum EOp {
    PushCursor,
    PopCursor,
    Clamp,
    MoveCursor(usize),
    Clear,
    RemoveFront(usize),
    RemoveAfter,
    RemoveBefore,
    End,
    Home,
    Left,
    Right,
    Insert(Symbol),
    Glue,
    Break,
    Replace(Symbol),
    Select(Sel),
}

impl EOp {
    fn name(&self) -> &'static str {
        match self {
            EOp::PushCursor => "push_cursor",
            EOp::PopCursor => "pop_cursor",
            EOp::Clamp => "clamp_cursor",
            EOp::MoveCursor(_) => "move_cursor",
            EOp::Clear => "clear",
            EOp::RemoveFront(_) => "remove_front",
            EOp::RemoveAfter => "remove_after_cursor",
            EOp::RemoveBefore => "remove_before_cursor",
            EOp::End => "move_cursor_to_end",
            EOp::Home => "move_cursor_to_beginning",
            EOp::Left => "move_cursor_left",
            EOp::Right => "move_cursor_right",
            EOp::Insert(_) => "insert",
            EOp::Glue => "insert_glue",
            EOp::Break => "insert_break",
            EOp::Replace(_) => "replace",
            EOp::Select(_) => "select",
        }
    }
    fn args(&self) -> String {
        match self {
            EOp::MoveCursor(n) | EOp::RemoveFront(n) => n.to_string(),
            EOp::Insert(s) | EOp::Replace(s) => sym_tok(s),
            EOp::Select(s) => s.tok(),
            _ => String::new(),
        }
    }
    fn show(&self) -> String {
        format!("{}({})", self.name(), self.args())
    }
    fn valid(&self, cursor: usize, len: usize) -> bool {
        match self {
            EOp::RemoveFront(n) => *n <= len,
            EOp::RemoveAfter | EOp::Replace(_) => cursor < len,
            EOp::Select(s) => s.valid(len) && !s.text.is_empty(),
            _ => true,
        }
    }
    fn run(&self, e: &mut CompositionEditorProbe) {
        match self {
            EOp::PushCursor => e.push_cursor(),
            EOp::PopCursor => e.pop_cursor(),
            EOp::Clamp => e.clamp_cursor(),
            EOp::MoveCursor(n) => e.move_cursor(*n),
            EOp::Clear => e.clear(),
            EOp::RemoveFront(n) => e.remove_front(*n),
            EOp::RemoveAfter => e.remove_after_cursor(),
            EOp::RemoveBefore => e.remove_before_cursor(),
            EOp::End => e.move_cursor_to_end(),
            EOp::Home => e.move_cursor_to_beginning(),
            EOp::Left => e.move_cursor_left(),
            EOp::Right => e.move_cursor_right(),
            EOp::Insert(s) => e.insert(*s),
            EOp::Glue => e.insert_glue(),
            EOp::Break => e.insert_break(),
            EOp::Replace(s) => e.replace(*s),
            EOp::Select(s) => e.select(s.interval()),
        }
    }
    /// the `Composition`-level edit this call stands for (specification, from the pre-state)
    fn as_comp_op(&self, cursor: usize, len: usize) -> Option<Op> {
        match self {
            EOp::Clear => Some(Op::Clear),
            EOp::RemoveFront(n) => Some(Op::RemoveFront(*n)),
            EOp::RemoveAfter => Some(Op::Remove(cursor)),
            EOp::RemoveBefore => (cursor > 0).then(|| Op::Remove(cursor - 1)),
            EOp::Insert(s) => Some(Op::Insert(cursor, *s)),
            EOp::Glue => (cursor < len).then_some(Op::SetGap(cursor, Gap::Glue)),
            EOp::Break => (cursor < len).then_some(Op::SetGap(cursor, Gap::Break)),
            EOp::Replace(s) => Some(Op::Replace(cursor, *s)),
            EOp::Select(s) => Some(Op::PushSel(s.clone())),
            _ => None,
        }
    }
}

fn panic_site(p: Box<dyn std::any::Any + Send>) -> &'static str {
    let msg: String = if let Some(s) = p.downcast_ref::<&'static str>() {
        s.to_string()
    } else if let Some(s) = p.downcast_ref::<String>() {
        s.clone()
    } else {
        String::new()
    };
    if msg.contains("index <= self.len()") {
        "insert-index"
    } else if msg.contains("index < self.len()") {
        "index"
    } else if msg.contains("interval.end <= self.len()") {
        "sel-end"
    } else if msg.contains("n <= self.len()") {
        "front-n"
    } else if msg.contains("!interval.str.is_empty()") {
        "sel-empty-str"
    } else if msg.contains("left != right") {
        "gap-begin"
    } else if msg.contains("left == right") {
        "len"
    } else if msg.contains("subtract with overflow") {
        "sub-overflow"
    } else {
        "other"
    }
}

// ------------------------------------------------------------------------- specification (oracle)

/// C04 specification: where must a live choice be after `op`?  `None` = the operation edits inside
/// the range (the choice may go).
fn spec_sel(op: &Op, s: &Sel, len: usize) -> Option<Sel> {
    match op {
        Op::Insert(i, _) => {
            if s.start < *i && *i < s.stop {
                None
            } else if *i <= s.start {
                Some(s.moved(s.start + 1, s.stop + 1))
            } else {
                Some(s.clone())
            }
        }
        Op::Push(x) => spec_sel(&Op::Insert(len, *x), s, len),
        Op::Remove(i) => {
            if s.start <= *i && *i < s.stop {
                None
            } else if *i < s.start {
                Some(s.moved(s.start - 1, s.stop - 1))
            } else {
                Some(s.clone())
            }
        }
        Op::RemoveFront(n) => {
            if s.start < *n {
                None
            } else {
                Some(s.moved(s.start - n, s.stop - n))
            }
        }
        Op::Replace(i, _) => {
            if s.start <= *i && *i < s.stop {
                None
            } else {
                Some(s.clone())
            }
        }
        Op::SetGap(i, g) => {
            if *g == Gap::Break && s.start < *i && *i < s.stop {
                None
            } else {
                Some(s.clone())
            }
        }
        Op::PushSel(t) => {
            if s.intersects(t) {
                None
            } else {
                Some(s.clone())
            }
        }
        Op::Clear => None,
    }
}

/// where must a user break at gap `j` be after `op`?  `None` = the operation touches that gap.
fn spec_break(op: &Op, j: usize, len: usize) -> Option<usize> {
    match op {
        Op::Insert(i, _) => {
            if j == *i {
                None
            } else if j < *i {
                Some(j)
            } else {
                Some(j + 1)
            }
        }
        Op::Push(x) => spec_break(&Op::Insert(len, *x), j, len),
        Op::Remove(i) => {
            if j == *i {
                None
            } else if j < *i {
                Some(j)
            } else if j - 1 == 0 {
                None // becomes the first gap, which is always `Begin`
            } else {
                Some(j - 1)
            }
        }
        Op::RemoveFront(n) => {
            if j <= *n {
                None
            } else {
                Some(j - n)
            }
        }
        Op::Replace(i, _) | Op::SetGap(i, _) => {
            if j == *i {
                None
            } else {
                Some(j)
            }
        }
        Op::PushSel(t) => {
            if t.start < j && j < t.stop {
                None
            } else {
                Some(j)
            }
        }
        Op::Clear => None,
    }
}

/// symbols after `op` (C05 frame at the `Composition` level)
fn spec_syms(op: &Op, syms: &[Symbol]) -> Vec<Symbol> {
    let mut v = syms.to_vec();
    match op {
        Op::Insert(i, x) => v.insert(*i, *x),
        Op::Push(x) => v.push(*x),
        Op::Remove(i) => {
            v.remove(*i);
        }
        Op::RemoveFront(n) => {
            v.drain(0..*n);
        }
        Op::Replace(i, x) => v[*i] = *x,
        Op::SetGap(..) | Op::PushSel(_) => {}
        Op::Clear => v.clear(),
    }
    v
}

/// C04 oracle for one step whose preconditions hold.  `op = None`: an operation that must not touch
/// the composition at all (cursor movement, cursor stack).
fn check_c04(pre: &CState, op: Option<&Op>, post: &CState) -> Vec<String> {
    let mut bad = vec![];
    let len = pre.len();
    let Some(op) = op else {
        if pre.sels.len() != post.sels.len() || pre.sels.iter().any(|s| !post.sels.contains(s)) {
            bad.push("selections changed by an operation that does not edit the buffer".to_string());
        }
        if pre.gaps != post.gaps {
            bad.push("gaps changed by an operation that does not edit the buffer".to_string());
        }
        return bad;
    };
    // 1. untouched choices survive, shifted, same text
    let mut explained = vec![false; post.sels.len()];
    for s in &pre.sels {
        match spec_sel(op, s, len) {
            Some(want) => match post.sels.iter().position(|p| *p == want) {
                Some(k) => explained[k] = true,
                None => bad.push(format!("choice {} not edited inside is lost/moved/altered (expected {})", s.tok(), want.tok())),
            },
            None => {
                // edited inside: `replace` keeps the choice as it is (as coded); allowed either way
                if matches!(op, Op::Replace(..)) {
                    if let Some(k) = post.sels.iter().position(|p| p == s) {
                        explained[k] = true;
                    }
                }
            }
        }
    }
    // 2. the new choice is present; nothing else appears
    if let Op::PushSel(t) = op {
        match post.sels.iter().position(|p| p == t) {
            Some(k) => explained[k] = true,
            None => bad.push(format!("pushed choice {} is not present", t.tok())),
        }
    }
    for (k, p) in post.sels.iter().enumerate() {
        if !explained[k] {
            bad.push(format!("selection {} is neither the pushed choice nor the image of an untouched one", p.tok()));
        }
    }
    // 3. user breaks
    for (j, g) in pre.gaps.iter().enumerate() {
        if *g == Gap::Break {
            if let Some(j2) = spec_break(op, j, len) {
                if post.gaps.get(j2) != Some(&Gap::Break) {
                    bad.push(format!("break at gap {} (expected at {}) lost by an operation that does not touch it", j, j2));
                }
            }
        }
    }
    for (j2, g) in post.gaps.iter().enumerate() {
        if *g == Gap::Break {
            let asked = matches!(op, Op::SetGap(i, Gap::Break) if *i == j2 && *i != 0);
            let image = pre.gaps.iter().enumerate().any(|(j, g)| *g == Gap::Break && spec_break(op, j, len) == Some(j2));
            // a break the operation touches may stay only where the code documents it: nowhere
            if !asked && !image {
                bad.push(format!("break at gap {} appeared unasked", j2));
            }
        }
    }
    bad.extend(check_inv(post));
    bad
}

/// the composition invariant on an observed state
fn check_inv(c: &CState) -> Vec<String> {
    let mut bad = vec![];
    if !c.gaps.is_empty() && c.gaps[0] != Gap::Begin {
        bad.push("gap 0 is not Begin".to_string());
    }
    if c.gaps.iter().skip(1).any(|g| *g == Gap::Begin) {
        bad.push("Begin gap after position 0".to_string());
    }
    for (i, s) in c.sels.iter().enumerate() {
        if s.start >= s.stop {
            bad.push(format!("empty selection {}", s.tok()));
        }
        if s.stop > c.len() {
            bad.push(format!("selection {} beyond the buffer ({})", s.tok(), c.len()));
        }
        if s.text.chars().count() != s.stop.saturating_sub(s.start) {
            bad.push(format!("selection {} text length differs from its range", s.tok()));
        }
        for j in s.start + 1..s.stop.min(c.len()) {
            if c.gaps[j] == Gap::Break {
                bad.push(format!("break at gap {} strictly inside the selection {}", j, s.tok()));
            }
        }
        for t in &c.sels[i + 1..] {
            if s.intersects(t) {
                bad.push(format!("selections {} and {} overlap", s.tok(), t.tok()));
            }
        }
    }
    bad
}

/// C05 oracle for one `CompositionEditor` step whose preconditions hold: shadow list + cursor + stack
fn check_c05(pre: &EState, op: &EOp, post: &EState) -> Vec<String> {
    let mut bad = vec![];
    let len = pre.c.len();
    let cur = pre.cursor;
    let mut syms = pre.c.syms.clone();
    let mut cursor = cur;
    let mut stack = pre.stack.clone();
    match op {
        EOp::PushCursor => stack.push(cur),
        EOp::PopCursor => {
            if let Some(c) = stack.pop() {
                cursor = c;
            }
            cursor = cursor.min(len);
        }
        EOp::Clamp => {
            if cursor == len {
                cursor = cursor.saturating_sub(1);
            }
        }
        EOp::MoveCursor(n) => cursor = (*n).min(len),
        EOp::Clear => {
            syms.clear();
            cursor = 0;
            // since the F25 fix (C17) `clear` also drops the saved cursors
            stack.clear();
        }
        EOp::RemoveFront(n) => {
            syms.drain(0..*n);
            cursor = cursor.saturating_sub(*n);
        }
        EOp::RemoveAfter => {
            syms.remove(cur);
        }
        EOp::RemoveBefore => {
            if cur > 0 {
                syms.remove(cur - 1);
                cursor = cur - 1;
            }
        }
        EOp::End => cursor = len,
        EOp::Home => cursor = 0,
        EOp::Left => cursor = cur.saturating_sub(1),
        EOp::Right => cursor = (cur + 1).min(len),
        EOp::Insert(x) => {
            syms.insert(cur, *x);
            cursor = cur + 1;
        }
        EOp::Glue | EOp::Break | EOp::Select(_) => {}
        EOp::Replace(x) => syms[cur] = *x,
    }
    if post.cursor > post.c.len() {
        bad.push(format!("cursor {} beyond the buffer length {}", post.cursor, post.c.len()));
    }
    if post.c.syms != syms {
        let first = (0..syms.len().max(post.c.syms.len())).find(|i| syms.get(*i) != post.c.syms.get(*i)).unwrap_or(0);
        bad.push(format!(
            "symbols differ from the shadow list at index {} (cursor was {}): expected [{}]",
            first,
            cur,
            syms.iter().map(sym_tok).collect::<Vec<_>>().join(",")
        ));
    }
    if post.cursor != cursor {
        bad.push(format!("cursor {} expected {}", post.cursor, cursor));
    }
    if post.stack != stack {
        bad.push(format!("cursor stack {:?} expected {:?}", post.stack, stack));
    }
    bad
}

// -------------------------------------------------------------------------------------- generator

// syllable codes only (since the repair of C13's F47 `Syllable::try_from` rejects every other value): 0x2BED is the largest one
const SYL_POOL: [u16; 10] = [0x2A48, 0x0208, 0x1404, 0x0404, 0x2208, 0x2A05, 0x0001, 0x0080, 0x1A9B, 0x2BED];
const CHR_POOL: [char; 8] = ['a', 'Z', '1', ' ', '，', '測', '\u{10348}', '~'];
const TXT_POOL: [char; 8] = ['測', '試', '冊', '策', 'a', '，', '\u{20000}', '一'];

fn rand_sym(rng: &mut Rng) -> Symbol {
    match rng.below(10) {
        0..=4 => Symbol::Syllable(Syllable::try_from(*rng.pick(&SYL_POOL)).unwrap()),
        5 => loop {
            // a random syllable code: initial <= 21, medial <= 3, rime <= 13, tone <= 5, not all absent
            let c = (rng.below(22) << 9 | rng.below(4) << 7 | rng.below(14) << 3 | rng.below(6)) as u16;
            if c != 0 {
                break Symbol::Syllable(Syllable::try_from(c).unwrap());
            }
        },
        6..=8 => Symbol::Char(*rng.pick(&CHR_POOL)),
        _ => Symbol::Char(char::from_u32(rng.range(0x20, 0x2FFFF) as u32).unwrap_or('?')),
    }
}

fn rand_text(rng: &mut Rng, n: usize) -> String {
    (0..n).map(|_| *rng.pick(&TXT_POOL)).collect()
}

/// interesting indices of a state: ends, selection boundaries and interiors, break positions
fn hot_indices(c: &CState) -> Vec<usize> {
    let mut v = vec![0, c.len()];
    for s in &c.sels {
        v.extend([s.start, s.stop, s.start.saturating_sub(1), s.stop.saturating_sub(1), s.stop + 1, (s.start + s.stop) / 2]);
    }
    for (j, g) in c.gaps.iter().enumerate() {
        if matches!(g, Gap::Break | Gap::Glue) {
            v.extend([j, j.saturating_sub(1), j + 1]);
        }
    }
    v
}

fn rand_index(rng: &mut Rng, c: &CState, max_incl: usize) -> usize {
    if rng.chance(2, 3) {
        let hot: Vec<usize> = hot_indices(c).into_iter().filter(|i| *i <= max_incl).collect();
        if !hot.is_empty() {
            return *rng.pick(&hot);
        }
    }
    rng.below(max_incl as u64 + 1) as usize
}

/// a valid selection (start < stop <= len, one character per symbol) biased to collide with the
/// existing selections and breaks; `len > 0`
fn rand_valid_sel(rng: &mut Rng, c: &CState, stats: &mut Stats) -> Sel {
    let len = c.len();
    let (mut a, mut b): (usize, usize);
    let pat = rng.below(12);
    let e = if c.sels.is_empty() { None } else { Some(rng.pick(&c.sels).clone()) };
    let brk: Vec<usize> = c.gaps.iter().enumerate().filter(|(_, g)| **g == Gap::Break).map(|(j, _)| j).collect();
    match (pat, &e) {
        (0, Some(e)) => { a = e.stop; b = e.stop + 1 + rng.below(3) as usize; }                       // adjacent after
        (1, Some(e)) => { b = e.start; a = e.start.saturating_sub(1 + rng.below(3) as usize); }       // adjacent before
        (2, Some(e)) => { a = (e.start + e.stop) / 2; b = e.stop + 1 + rng.below(2) as usize; }       // overlaps the tail
        (3, Some(e)) => { a = e.start.saturating_sub(1 + rng.below(2) as usize); b = e.start + 1; }   // overlaps the head
        (4, Some(e)) => { a = e.start; b = e.stop; }                                                  // same range
        (5, Some(e)) => { a = e.start.saturating_sub(rng.below(2) as usize); b = e.stop + rng.below(2) as usize; } // contains
        (6, Some(e)) => { a = e.start + rng.below(2) as usize; b = e.stop.saturating_sub(rng.below(2) as usize); } // contained
        (7, _) => { a = 0; b = 1 + rng.below(3) as usize; }                                           // left edge
        (8, _) => { b = len; a = len.saturating_sub(1 + rng.below(3) as usize); }                     // right edge
        (9, _) if !brk.is_empty() => { let j = *rng.pick(&brk); a = j.saturating_sub(1 + rng.below(2) as usize); b = j + 1 + rng.below(2) as usize; } // spans a break
        (10, _) => { a = 0; b = len; }                                                                // whole buffer
        _ => { a = rng.below(len as u64) as usize; b = a + 1 + rng.below(4) as usize; }
    }
    b = b.min(len);
    if a >= b {
        a = b.saturating_sub(1);
        if a >= b {
            a = 0;
            b = 1;
        }
    }
    let s = Sel { start: a, stop: b, phrase: rng.chance(3, 4), text: rand_text(rng, b - a) };
    for o in &c.sels {
        if o.intersects(&s) {
            stats.sel_overlapping += 1;
        } else if o.stop == s.start || s.stop == o.start {
            stats.sel_adjacent += 1;
        }
    }
    if a == 0 || b == len {
        stats.sel_at_edge += 1;
    }
    if brk.iter().any(|j| a < *j && *j < b) {
        stats.sel_over_break += 1;
    }
    s
}

/// a selection violating `ValidSelection` (empty, reversed, beyond the buffer, wrong text length)
fn rand_invalid_sel(rng: &mut Rng, c: &CState) -> Sel {
    let len = c.len();
    let a = rng.below(len as u64 + 2) as usize;
    match rng.below(5) {
        0 => Sel { start: a, stop: a, phrase: true, text: rand_text(rng, 1) },
        1 => Sel { start: a + 1 + rng.below(2) as usize, stop: a, phrase: true, text: rand_text(rng, 1) },
        2 => Sel { start: a, stop: len + 1 + rng.below(2) as usize, phrase: true, text: rand_text(rng, 1) },
        3 => {
            let b = (a + 1).min(len);
            let n = 2 + rng.below(2) as usize;
            Sel { start: a.min(b.saturating_sub(1)), stop: b, phrase: true, text: rand_text(rng, n) }
        }
        _ => {
            let b = (a + 1).min(len);
            Sel { start: a.min(b.saturating_sub(1)), stop: b, phrase: false, text: String::new() }
        }
    }
}

#[derive(Default)]
struct Stats {
    comp_ops: u64,
    ced_ops: u64,
    comp_valid: u64,
    comp_invalid: u64,
    ced_valid: u64,
    ced_invalid: u64,
    panics: u64,
    oracle_steps_c04: u64,
    oracle_steps_c05: u64,
    tainted_steps: u64,
    sel_overlapping: u64,
    sel_adjacent: u64,
    sel_at_edge: u64,
    sel_over_break: u64,
    insert_at_sel_boundary: u64,
    insert_inside_sel: u64,
    front_cuts_sel: u64,
    front_shifts_sel: u64,
    break_inside_sel: u64,
    remove_inside_sel: u64,
    survived_shifted: u64,
    survived_same: u64,
    dropped: u64,
    breaks_survived: u64,
    invalid_accepted_inv_broken: u64,
    max_len: u64,
    max_sels: u64,
    pop_clamped: u64,
    cursor_at_end: u64,
    cursor_inside: u64,
}

fn rand_gap(rng: &mut Rng) -> Gap {
    match rng.below(5) {
        0 | 1 => Gap::Break,
        2 | 3 => Gap::Glue,
        _ => Gap::Normal,
    }
}

fn gen_comp_op(rng: &mut Rng, c: &CState, invalid: bool, stats: &mut Stats) -> Op {
    let len = c.len();
    if invalid {
        return match rng.below(8) {
            0 => Op::Insert(len + 1 + rng.below(3) as usize, rand_sym(rng)),
            1 => Op::Remove(len + rng.below(3) as usize),
            2 => Op::RemoveFront(len + 1 + rng.below(3) as usize),
            3 => Op::Replace(len + rng.below(3) as usize, rand_sym(rng)),
            4 => Op::SetGap(len + rng.below(3) as usize, rand_gap(rng)),
            5 => Op::SetGap(rng.below(len as u64 + 1) as usize, Gap::Begin),
            _ => Op::PushSel(rand_invalid_sel(rng, c)),
        };
    }
    if len == 0 {
        return if rng.chance(1, 2) { Op::Push(rand_sym(rng)) } else { Op::Insert(0, rand_sym(rng)) };
    }
    // keep the buffer around 4..14 symbols
    let grow = if len < 5 { 30 } else if len > 14 { 6 } else { 16 };
    let shrink = if len > 12 { 16 } else { 8 };
    match rng.weighted(&[grow, 6, shrink, shrink / 2 + 3, 5, 14, 26, 1]) {
        0 => Op::Insert(rand_index(rng, c, len), rand_sym(rng)),
        1 => Op::Push(rand_sym(rng)),
        2 => Op::Remove(rand_index(rng, c, len - 1)),
        3 => {
            let n = if rng.chance(1, 3) { rng.below(3) as usize } else { rand_index(rng, c, len) };
            Op::RemoveFront(n.min(len))
        }
        4 => Op::Replace(rand_index(rng, c, len - 1), rand_sym(rng)),
        5 => Op::SetGap(rand_index(rng, c, len - 1), rand_gap(rng)),
        6 => Op::PushSel(rand_valid_sel(rng, c, stats)),
        _ => Op::Clear,
    }
}

fn collision_stats(op: &Op, c: &CState, stats: &mut Stats) {
    let len = c.len();
    for s in &c.sels {
        match op {
            Op::Insert(i, _) => {
                if *i == s.start || *i == s.stop {
                    stats.insert_at_sel_boundary += 1;
                } else if s.start < *i && *i < s.stop {
                    stats.insert_inside_sel += 1;
                }
            }
            Op::RemoveFront(n) if *n > 0 => {
                if s.start < *n {
                    stats.front_cuts_sel += 1;
                } else {
                    stats.front_shifts_sel += 1;
                }
            }
            Op::SetGap(i, Gap::Break) if s.start < *i && *i < s.stop => stats.break_inside_sel += 1,
            Op::Remove(i) if s.start <= *i && *i < s.stop => stats.remove_inside_sel += 1,
            _ => {}
        }
        match spec_sel(op, s, len) {
            Some(t) if t == *s => stats.survived_same += 1,
            Some(_) => stats.survived_shifted += 1,
            None => stats.dropped += 1,
        }
    }
    for (j, g) in c.gaps.iter().enumerate() {
        if *g == Gap::Break && spec_break(op, j, len).is_some() {
            stats.breaks_survived += 1;
        }
    }
}

fn comp_session(k: u64, rng: &mut Rng, out: &mut Out, stats: &mut Stats, steps: usize, with_invalid: bool) {
    let mut c = Composition::new();
    let mut tainted = false; // a call violating the preconditions was accepted: oracle off
    let mut hist: Vec<String> = vec![];
    for step in 0..steps {
        let pre = snap(&c);
        stats.max_len = stats.max_len.max(pre.len() as u64);
        stats.max_sels = stats.max_sels.max(pre.sels.len() as u64);
        // accessors now and then
        if rng.chance(1, 8) {
            let i = rng.below(pre.len() as u64 + 2) as usize;
            out.rec(&format!(
                "comp get {} {} => {} {} {} {} {}",
                pre.toks(false),
                i,
                c.len(),
                c.is_empty() as u8,
                c.symbol(i).map(|s| sym_tok(&s)).unwrap_or("-".into()),
                c.gap(i).map(gap_tok).unwrap_or("-"),
                c.gap_after(i).map(gap_tok).unwrap_or("-")
            ));
        }
        let inv = with_invalid && rng.chance(1, 4);
        let op = gen_comp_op(rng, &pre, inv, stats);
        let valid = op.valid(pre.len());
        stats.comp_ops += 1;
        if valid {
            stats.comp_valid += 1;
        } else {
            stats.comp_invalid += 1;
        }
        hist.push(op.show());
        let res = catch_unwind(AssertUnwindSafe(|| op.run(&mut c)));
        let lhs = format!("comp {} {} {}", op.name(), pre.toks(false), op.args());
        match res {
            Ok(()) => {
                let post = snap(&c);
                out.rec(&format!("{} => ok {}", lhs.trim_end(), post.toks(true)));
                if valid && !tainted {
                    stats.oracle_steps_c04 += 1;
                    collision_stats(&op, &pre, stats);
                    for b in check_c04(&pre, Some(&op), &post) {
                        out.oracle_fail("C04", "new", &format!(
                            "comp session={} step={} {} :: op={} pre=[{}] post=[{}] history={}",
                            k, step, b, op.show(), pre.toks(false), post.toks(true), hist.join(";")));
                    }
                    let want = spec_syms(&op, &pre.syms);
                    if want != post.syms {
                        out.oracle_fail("C05", "new", &format!(
                            "comp session={} step={} symbols changed other than at the edited index :: op={} pre=[{}] post=[{}] history={}",
                            k, step, op.show(), pre.toks(false), post.toks(true), hist.join(";")));
                    }
                } else {
                    stats.tainted_steps += 1;
                    if !valid {
                        if !tainted && !check_inv(&post).is_empty() {
                            stats.invalid_accepted_inv_broken += 1;
                        }
                        tainted = true;
                    }
                }
            }
            Err(p) => {
                stats.panics += 1;
                let site = panic_site(p);
                out.rec(&format!("{} => panic:{}", lhs.trim_end(), site));
                if valid && !tainted {
                    out.oracle_fail("C04", "new", &format!(
                        "comp session={} step={} panic ({}) on a call whose preconditions hold :: op={} pre=[{}] history={}",
                        k, step, site, op.show(), pre.toks(false), hist.join(";")));
                }
                if site == "sub-overflow" || site == "other" {
                    // a panic in the middle of the selection loop leaves a half-updated object
                    tainted = true;
                }
            }
        }
    }
}

fn gen_ced_op(rng: &mut Rng, e: &EState, invalid: bool, stats: &mut Stats) -> EOp {
    let len = e.c.len();
    if invalid {
        return match rng.below(5) {
            0 => EOp::RemoveFront(len + 1 + rng.below(2) as usize),
            1 => EOp::Select(rand_invalid_sel(rng, &e.c)),
            // at the end of the buffer these two hit `assert!(index < self.len())`
            2 => EOp::RemoveAfter,
            3 => EOp::Replace(rand_sym(rng)),
            _ => EOp::Select(rand_invalid_sel(rng, &e.c)),
        };
    }
    if len == 0 {
        return match rng.below(8) {
            0..=4 => EOp::Insert(rand_sym(rng)),
            5 => EOp::RemoveBefore,
            6 => EOp::PopCursor,
            _ => EOp::Right,
        };
    }
    let grow = if len < 5 { 30 } else if len > 14 { 6 } else { 16 };
    let w = [grow, 8, 8, 5, 6, 6, 3, 3, 6, 6, 5, 5, 4, 4, 18, 4, 1];
    loop {
        let op = match rng.weighted(&w) {
            0 => EOp::Insert(rand_sym(rng)),
            1 => EOp::RemoveBefore,
            2 => EOp::RemoveAfter,
            3 => {
                let n = if rng.chance(1, 3) { rng.below(3) as usize } else { rand_index(rng, &e.c, len) };
                EOp::RemoveFront(n.min(len))
            }
            4 => EOp::Left,
            5 => EOp::Right,
            6 => EOp::Home,
            7 => EOp::End,
            8 => EOp::MoveCursor(if rng.chance(1, 4) { len + rng.below(3) as usize } else { rand_index(rng, &e.c, len) }),
            9 => EOp::PushCursor,
            10 => EOp::PopCursor,
            11 => EOp::Clamp,
            12 => EOp::Glue,
            13 => EOp::Break,
            14 => EOp::Select(rand_valid_sel(rng, &e.c, stats)),
            15 => EOp::Replace(rand_sym(rng)),
            _ => EOp::Clear,
        };
        if op.valid(e.cursor, len) {
            return op;
        }
    }
}

fn ced_session(k: u64, rng: &mut Rng, out: &mut Out, stats: &mut Stats, steps: usize, with_invalid: bool) {
    let mut e = CompositionEditorProbe::new();
    let mut tainted = false;
    let mut hist: Vec<String> = vec![];
    for step in 0..steps {
        let pre = esnap(&e);
        let len = pre.c.len();
        stats.max_len = stats.max_len.max(len as u64);
        stats.max_sels = stats.max_sels.max(pre.c.sels.len() as u64);
        if pre.cursor == len {
            stats.cursor_at_end += 1;
        } else {
            stats.cursor_inside += 1;
        }
        if rng.chance(1, 8) {
            out.rec(&format!(
                "cedc get {} => {} {} {} {} {} {}",
                pre.toks(false),
                e.len(),
                e.is_empty() as u8,
                e.is_beginning_of_buffer() as u8,
                e.is_end_of_buffer() as u8,
                e.symbol().map(|s| sym_tok(&s)).unwrap_or("-".into()),
                e.symbol_for_select().map(|s| sym_tok(&s)).unwrap_or("-".into())
            ));
            if snap(&e.to_composition()) != pre.c || e.symbols() != pre.c.syms.as_slice() {
                out.oracle_fail("C05", "new", &format!("ced session={} step={} to_composition()/symbols() differ from the inner composition", k, step));
            }
        }
        let inv = with_invalid && rng.chance(1, 5);
        let op = gen_ced_op(rng, &pre, inv, stats);
        let valid = op.valid(pre.cursor, len);
        stats.ced_ops += 1;
        if valid {
            stats.ced_valid += 1;
        } else {
            stats.ced_invalid += 1;
        }
        hist.push(op.show());
        let res = catch_unwind(AssertUnwindSafe(|| op.run(&mut e)));
        let lhs = format!("{} {} {}", op.name(), pre.toks(false), op.args());
        let lhs = lhs.trim_end();
        match res {
            Ok(()) => {
                let post = esnap(&e);
                out.rec(&format!("cedi {} => ok {}", lhs, post.c.toks(true)));
                out.rec(&format!("cedc {} => ok {}", lhs, post.cursor_toks()));
                if valid && !tainted {
                    stats.oracle_steps_c05 += 1;
                    stats.oracle_steps_c04 += 1;
                    if matches!(op, EOp::PopCursor) && pre.stack.last().is_some_and(|c| *c > len) {
                        stats.pop_clamped += 1;
                    }
                    let ctx = |b: &str| format!(
                        "ced session={} step={} {} :: op={} pre=[{}] post=[{}] history={}",
                        k, step, b, op.show(), pre.toks(false), post.toks(true), hist.join(";"));
                    for b in check_c05(&pre, &op, &post) {
                        out.oracle_fail("C05", "new", &ctx(&b));
                    }
                    let cop = op.as_comp_op(pre.cursor, len);
                    if let Some(cop) = &cop {
                        collision_stats(cop, &pre.c, stats);
                    }
                    for b in check_c04(&pre.c, cop.as_ref(), &post.c) {
                        out.oracle_fail("C04", "new", &ctx(&b));
                    }
                } else {
                    stats.tainted_steps += 1;
                    if !valid {
                        tainted = true;
                    }
                }
            }
            Err(p) => {
                stats.panics += 1;
                let site = panic_site(p);
                out.rec(&format!("cedi {} => panic:{}", lhs, site));
                out.rec(&format!("cedc {} => panic:{}", lhs, site));
                let post = esnap(&e);
                if valid && !tainted {
                    out.oracle_fail("C05", "new", &format!(
                        "ced session={} step={} panic ({}) on a call whose preconditions hold :: op={} pre=[{}] history={}",
                        k, step, site, op.show(), pre.toks(false), hist.join(";")));
                }
                if post != pre {
                    tainted = true;
                }
            }
        }
    }
}

fn main() {
    std::panic::set_hook(Box::new(|_| {}));
    let mut out = Out::new();
    let thorough = tier_is_thorough();
    let mut rng = Rng::new(seed_from_env());
    let mut stats = Stats::default();
    let mul = if thorough { 20 } else { 1 };

    // a fixed prologue: the F31 witnesses of DESIGN §9 (invalid selections are accepted by the public API)
    {
        let mut c = Composition::new();
        let mut k = 0;
        for op in [
            Op::Push(Symbol::Syllable(Syllable::try_from(0x2A48).unwrap())),
            Op::Push(Symbol::Char('a')),
            Op::PushSel(Sel { start: 1, stop: 1, phrase: true, text: "冊".into() }),
            Op::PushSel(Sel { start: 2, stop: 1, phrase: true, text: "冊".into() }),
            Op::PushSel(Sel { start: 0, stop: 1, phrase: true, text: "冊冊冊".into() }),
            Op::Insert(1, Symbol::Char('b')),
            Op::Remove(0),
            Op::RemoveFront(1),
            Op::RemoveFront(1), // the reversed selection is now 1..0: `end -= 1` underflows
        ] {
            let pre = snap(&c);
            let res = catch_unwind(AssertUnwindSafe(|| op.run(&mut c)));
            let lhs = format!("comp {} {} {}", op.name(), pre.toks(false), op.args());
            match res {
                Ok(()) => out.rec(&format!("{} => ok {}", lhs.trim_end(), snap(&c).toks(true))),
                Err(p) => out.rec(&format!("{} => panic:{}", lhs.trim_end(), panic_site(p))),
            }
            k += 1;
        }
        out.stat("f31_prologue_steps", k);
    }

    let comp_sessions = 800 * mul;
    let ced_sessions = 800 * mul;
    for k in 0..comp_sessions {
        let steps = 30 + rng.below(60) as usize;
        comp_session(k, &mut rng, &mut out, &mut stats, steps, k % 5 == 4);
    }
    for k in 0..ced_sessions {
        let steps = 30 + rng.below(60) as usize;
        ced_session(k, &mut rng, &mut out, &mut stats, steps, k % 5 == 4);
    }

    out.stat("comp_sessions", comp_sessions);
    out.stat("ced_sessions", ced_sessions);
    out.stat("comp_ops", stats.comp_ops);
    out.stat("comp_ops_valid", stats.comp_valid);
    out.stat("comp_ops_invalid_precondition", stats.comp_invalid);
    out.stat("ced_ops", stats.ced_ops);
    out.stat("ced_ops_valid", stats.ced_valid);
    out.stat("ced_ops_invalid_precondition", stats.ced_invalid);
    out.stat("panics_observed", stats.panics);
    out.stat("oracle_steps_C04", stats.oracle_steps_c04);
    out.stat("oracle_steps_C05", stats.oracle_steps_c05);
    out.stat("steps_outside_oracle_precondition_violated_earlier", stats.tainted_steps);
    out.stat("invalid_selection_accepted_and_invariant_broken", stats.invalid_accepted_inv_broken);
    out.stat("sel_pushed_overlapping_existing", stats.sel_overlapping);
    out.stat("sel_pushed_adjacent_existing", stats.sel_adjacent);
    out.stat("sel_pushed_at_edge", stats.sel_at_edge);
    out.stat("sel_pushed_over_break", stats.sel_over_break);
    out.stat("insert_at_selection_boundary", stats.insert_at_sel_boundary);
    out.stat("insert_inside_selection", stats.insert_inside_sel);
    out.stat("remove_inside_selection", stats.remove_inside_sel);
    out.stat("remove_front_cuts_selection", stats.front_cuts_sel);
    out.stat("remove_front_shifts_selection", stats.front_shifts_sel);
    out.stat("break_inside_selection", stats.break_inside_sel);
    out.stat("choices_survived_shifted", stats.survived_shifted);
    out.stat("choices_survived_in_place", stats.survived_same);
    out.stat("choices_dropped_by_edit_inside", stats.dropped);
    out.stat("breaks_carried_over", stats.breaks_survived);
    out.stat("pop_cursor_clamped", stats.pop_clamped);
    out.stat("ced_steps_cursor_at_end", stats.cursor_at_end);
    out.stat("ced_steps_cursor_inside", stats.cursor_inside);
    out.stat("max_len", stats.max_len);
    out.stat("max_selections", stats.max_sels);
    out.flush();
}
