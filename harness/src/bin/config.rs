//! C16 correspondence + oracle: the configuration API of the C library.
//!
//! Sections (each runs in a worker child process, because a panic inside an `extern "C"` function aborts):
//!   int    exhaustive: every option name × value window × {named, legacy} entry point, several rounds from
//!          different pre-states; ALL getters are read before and after every call (pre-state in the record)
//!   str    the two string options: generated (name, value) stream incl. near-misses, non-ASCII, wrong length
//!   selkey chewing_set_selKey / chewing_get_selKey / chewing_Configure
//!   kb     17 layouts × 95 keys × {by number, by name} (one key from a fresh context), identification of the
//!          (keyboard, syllable editor) pair actually in effect against references built with the Rust API,
//!          unknown numbers / names, sequences of selections
//! Record formats: see lean/Chewing/Driver/Config.lean.  Oracle = the property evaluated on the
//! implementation alone (documented names / ranges / layout numbering are written out below by hand).
use chewing::conversion::ChewingEngine;
use chewing::dictionary::{Dictionary, Layered, Trie, UserDictionaryLoader};
use chewing::editor::keyboard::{AnyKeyboardLayout, KeyboardLayout};
use chewing::editor::zhuyin_layout::{DaiChien26, Et, Et26, GinYieh, Hsu, Ibm, Pinyin, Standard, SyllableEditor};
use chewing::editor::{AbbrevTable, BasicEditor, Editor, LanguageMode, LaxUserFreqEstimate, SymbolSelector};
use chewing_capi::candidates::*;
use chewing_capi::globals::*;
use chewing_capi::input::*;
use chewing_capi::layout::*;
use chewing_capi::modes::*;
use chewing_capi::output::*;
use chewing_capi::setup::*;
use std::collections::HashMap;
use std::ffi::{c_char, c_int, CStr, CString};
use std::io::{BufRead, BufReader, Write};
use std::process::{Command, Stdio};
use std::ptr::null_mut;
use vharness::*;

// ------------------------------------------------------------------------------------------------
// the documented interface (specification side of the oracle)

/// integer options in the order of the state vector, with their documented range
const INT_OPTS: [(&str, i32, i32); 13] = [
    ("chewing.user_phrase_add_direction", 0, 1),
    ("chewing.disable_auto_learn_phrase", 0, 1),
    ("chewing.auto_shift_cursor", 0, 1),
    ("chewing.candidates_per_page", 1, 10),
    ("chewing.language_mode", 0, 1),
    ("chewing.easy_symbol_input", 0, 1),
    ("chewing.esc_clear_all_buffer", 0, 1),
    ("chewing.auto_commit_threshold", 0, 39),
    ("chewing.phrase_choice_rearward", 0, 1),
    ("chewing.character_form", 0, 1),
    ("chewing.space_is_select_key", 0, 1),
    ("chewing.conversion_engine", 0, 2),
    ("chewing.enable_fullwidth_toggle_key", 0, 1),
];
const KB_OPT: &str = "chewing.keyboard_type";
const SEL_OPT: &str = "chewing.selection_keys";

/// documented layout names; index = documented number
const KB_NAMES: [&str; 17] = [
    "KB_DEFAULT", "KB_HSU", "KB_IBM", "KB_GIN_YIEH", "KB_ET", "KB_ET26", "KB_DVORAK", "KB_DVORAK_HSU",
    "KB_DACHEN_CP26", "KB_HANYU_PINYIN", "KB_THL_PINYIN", "KB_MPS2_PINYIN", "KB_CARPALX",
    "KB_COLEMAK_DH_ANSI", "KB_COLEMAK_DH_ORTH", "KB_WORKMAN", "KB_COLEMAK",
];

type Setter = unsafe extern "C" fn(*mut ChewingContext, c_int);
type Getter = unsafe extern "C" fn(*const ChewingContext) -> c_int;

/// legacy pairs and the option each stands for
fn legacy() -> Vec<(&'static str, Setter, &'static str, Getter, &'static str)> {
    vec![
        ("chewing_set_ChiEngMode", chewing_set_ChiEngMode as Setter, "chewing_get_ChiEngMode", chewing_get_ChiEngMode as Getter, "chewing.language_mode"),
        ("chewing_set_ShapeMode", chewing_set_ShapeMode, "chewing_get_ShapeMode", chewing_get_ShapeMode, "chewing.character_form"),
        ("chewing_set_candPerPage", chewing_set_candPerPage, "chewing_get_candPerPage", chewing_get_candPerPage, "chewing.candidates_per_page"),
        ("chewing_set_maxChiSymbolLen", chewing_set_maxChiSymbolLen, "chewing_get_maxChiSymbolLen", chewing_get_maxChiSymbolLen, "chewing.auto_commit_threshold"),
        ("chewing_set_addPhraseDirection", chewing_set_addPhraseDirection, "chewing_get_addPhraseDirection", chewing_get_addPhraseDirection, "chewing.user_phrase_add_direction"),
        ("chewing_set_spaceAsSelection", chewing_set_spaceAsSelection, "chewing_get_spaceAsSelection", chewing_get_spaceAsSelection, "chewing.space_is_select_key"),
        ("chewing_set_escCleanAllBuf", chewing_set_escCleanAllBuf, "chewing_get_escCleanAllBuf", chewing_get_escCleanAllBuf, "chewing.esc_clear_all_buffer"),
        ("chewing_set_autoShiftCur", chewing_set_autoShiftCur, "chewing_get_autoShiftCur", chewing_get_autoShiftCur, "chewing.auto_shift_cursor"),
        ("chewing_set_easySymbolInput", chewing_set_easySymbolInput, "chewing_get_easySymbolInput", chewing_get_easySymbolInput, "chewing.easy_symbol_input"),
        ("chewing_set_phraseChoiceRearward", chewing_set_phraseChoiceRearward, "chewing_get_phraseChoiceRearward", chewing_get_phraseChoiceRearward, "chewing.phrase_choice_rearward"),
        ("chewing_set_autoLearn", chewing_set_autoLearn, "chewing_get_autoLearn", chewing_get_autoLearn, "chewing.disable_auto_learn_phrase"),
    ]
}

fn valid_selkeys(b: &[u8]) -> bool {
    b.len() == 10 && b.iter().all(|c| (1..=127).contains(c))
}

// ------------------------------------------------------------------------------------------------
// C API wrapper

fn repo() -> String {
    std::env::var("VERIF_REPO").unwrap_or_else(|_| "/repo".into())
}

fn cs(b: &[u8]) -> CString {
    CString::new(b.to_vec()).expect("no interior NUL in generated input")
}

struct Ctx(*mut ChewingContext);

impl Ctx {
    /// `mini` = built-in dictionary (non-existent system path), otherwise tests/data
    fn new(mini: bool) -> Ctx {
        let sys = if mini { "/nonexistent-verif-c16".to_string() } else { format!("{}/tests/data", repo()) };
        let sys = cs(sys.as_bytes());
        let user = cs(b":memory:");
        let p = unsafe { chewing_new2(sys.as_ptr(), user.as_ptr(), None, null_mut()) };
        assert!(!p.is_null(), "chewing_new2 failed");
        Ctx(p)
    }
    fn get_int(&self, name: &[u8]) -> i32 {
        let n = cs(name);
        unsafe { chewing_config_get_int(self.0, n.as_ptr()) }
    }
    fn set_int(&self, name: &[u8], v: i32) -> i32 {
        let n = cs(name);
        unsafe { chewing_config_set_int(self.0, n.as_ptr(), v) }
    }
    fn has(&self, name: &[u8]) -> i32 {
        let n = cs(name);
        unsafe { chewing_config_has_option(self.0, n.as_ptr()) }
    }
    fn set_str(&self, name: &[u8], v: &[u8]) -> i32 {
        let n = cs(name);
        let v = cs(v);
        unsafe { chewing_config_set_str(self.0, n.as_ptr(), v.as_ptr()) }
    }
    fn get_str(&self, name: &[u8]) -> (i32, Option<Vec<u8>>) {
        let n = cs(name);
        let mut out: *mut c_char = null_mut();
        let r = unsafe { chewing_config_get_str(self.0, n.as_ptr(), &mut out) };
        if r == 0 && !out.is_null() {
            let s = unsafe { CStr::from_ptr(out) }.to_bytes().to_vec();
            unsafe { chewing_free(out.cast()) };
            (r, Some(s))
        } else {
            (r, None)
        }
    }
    fn kbtype(&self) -> i32 {
        unsafe { chewing_get_KBType(self.0) }
    }
    fn kbstring(&self) -> Vec<u8> {
        unsafe {
            let p = chewing_get_KBString(self.0);
            let s = CStr::from_ptr(p).to_bytes().to_vec();
            chewing_free(p.cast());
            s
        }
    }
    fn set_kb(&self, n: i32) -> i32 {
        unsafe { chewing_set_KBType(self.0, n) }
    }
    fn selkeys(&self) -> Vec<i32> {
        unsafe { std::slice::from_raw_parts(chewing_get_selKey(self.0), 10) }.to_vec()
    }
    fn set_selkeys(&self, keys: &[i32], len: i32) {
        unsafe { chewing_set_selKey(self.0, keys.as_ptr(), len) }
    }
    /// everything the getters report: 13 integers, layout number:name, 10 selection keys
    fn state(&self) -> String {
        let ints: Vec<String> = INT_OPTS.iter().map(|(n, _, _)| self.get_int(n.as_bytes()).to_string()).collect();
        let sel: Vec<String> = self.selkeys().iter().map(|k| k.to_string()).collect();
        format!("{} {}:{} {}", ints.join(","), self.kbtype(), hbytes(&self.kbstring()).replacen('b', "x", 1), sel.join(","))
    }
    fn owned(&self, f: unsafe extern "C" fn(*const ChewingContext) -> *mut c_char) -> String {
        unsafe {
            let p = f(self.0);
            let s = CStr::from_ptr(p).to_string_lossy().to_string();
            chewing_free(p.cast());
            s
        }
    }
    /// type the keys, return bopomofo buffer / pre-edit / commit
    fn type_keys(&self, keys: &[u8]) -> String {
        for k in keys {
            unsafe { chewing_handle_Default(self.0, *k as c_int) };
        }
        let commit = if unsafe { chewing_commit_Check(self.0) } == 1 { self.owned(chewing_commit_String) } else { String::new() };
        format!("{}|{}|{}", self.owned(chewing_bopomofo_String), self.owned(chewing_buffer_String), commit)
    }
    fn reset(&self) {
        unsafe { chewing_Reset(self.0) };
    }
}

impl Drop for Ctx {
    fn drop(&mut self) {
        unsafe { chewing_delete(self.0) }
    }
}

fn xh(b: &[u8]) -> String {
    hbytes(b).replacen('b', "x", 1)
}

// ------------------------------------------------------------------------------------------------
// worker output: records, plus `@pending <lhs>` before a call that may abort

struct W {
    out: Out,
    violations: u64,
}

impl W {
    fn pending(&mut self, lhs: &str) {
        self.out.rec(&format!("@pending {}", lhs));
        self.out.lines -= 1;
        self.out.flush();
    }
    fn rec(&mut self, lhs: &str, rhs: &str) {
        self.out.rec(&format!("{} => {}", lhs, rhs));
    }
    fn fail(&mut self, class: &str, detail: &str) {
        self.violations += 1;
        self.out.oracle_fail("C16", class, detail);
    }
}

// ------------------------------------------------------------------------------------------------
// section: integer options

fn window(thorough: bool) -> Vec<i32> {
    let mut v: Vec<i32> = (-3..=45).collect();
    v.extend([i32::MIN, i32::MIN + 1, -129, -128, 127, 128, 255, 256, 257, 65536, 65537, i32::MAX - 1, i32::MAX]);
    if thorough {
        v.extend(46..=300);
        v.extend(-300..-3);
    }
    v
}

/// parse the first token of a state string into the 13 integers
fn ints_of(state: &str) -> Vec<i32> {
    state.split(' ').next().unwrap().split(',').map(|x| x.parse().unwrap()).collect()
}

/// oracle for one set_int-like call on option `name` (documented or not)
fn check_set(w: &mut W, what: &str, name: &str, v: i32, ret: Option<i32>, pre: &str, post: &str) {
    let doc = INT_OPTS.iter().position(|(n, _, _)| *n == name);
    let in_range = doc.map(|i| INT_OPTS[i].1 <= v && v <= INT_OPTS[i].2).unwrap_or(false);
    if in_range {
        let i = doc.unwrap();
        let mut want = ints_of(pre);
        want[i] = v;
        let rest_pre: Vec<&str> = pre.split(' ').skip(1).collect();
        let rest_post: Vec<&str> = post.split(' ').skip(1).collect();
        if ret.map(|r| r != 0).unwrap_or(false) {
            w.fail("new", &format!("{what}: documented value {name}={v} rejected (ret {})", ret.unwrap()));
        } else if ints_of(post) != want {
            w.fail("new", &format!("{what}: after {name}={v} the getters report {} (before: {})", post, pre));
        } else if rest_pre != rest_post {
            w.fail("new", &format!("{what}: {name}={v} changed layout/selection keys: {} -> {}", pre, post));
        }
    } else {
        if ret.map(|r| r != -1).unwrap_or(false) {
            w.fail("new", &format!("{what}: out-of-range / unknown {name}={v} not rejected (ret {})", ret.unwrap()));
        }
        if pre != post {
            w.fail("new", &format!("{what}: rejected {name}={v} changed the configuration: {} -> {}", pre, post));
        }
    }
}

fn randomize(w: &mut W, rng: &mut Rng, a: &Ctx, b: &Ctx) {
    for (name, lo, hi) in INT_OPTS.iter() {
        let v = rng.range(*lo as i64, *hi as i64) as i32;
        for c in [a, b] {
            let pre = c.state();
            let lhs = format!("cfg setint {} {} {}", pre, hx(name), v);
            w.pending(&lhs);
            let r = c.set_int(name.as_bytes(), v);
            let post = c.state();
            w.rec(&lhs, &format!("{} {}", r, post));
            check_set(w, "set_int", name, v, Some(r), &pre, &post);
        }
    }
    let kb = rng.below(17) as i32;
    let keys: Vec<i32> = (0..10).map(|_| rng.range(33, 126) as i32).collect();
    for c in [a, b] {
        let pre = c.state();
        let lhs = format!("cfg setkb {} {}", pre, kb);
        w.pending(&lhs);
        let r = c.set_kb(kb);
        w.rec(&lhs, &format!("{} {}", r, c.state()));
        let pre = c.state();
        let ks: Vec<String> = keys.iter().map(|k| k.to_string()).collect();
        let lhs = format!("cfg setselkey {} 10 {}", pre, ks.join(","));
        w.pending(&lhs);
        c.set_selkeys(&keys, 10);
        w.rec(&lhs, &c.state());
    }
}

fn section_int(w: &mut W, rng: &mut Rng, thorough: bool) {
    let leg = legacy();
    let a = Ctx::new(false);
    let b = Ctx::new(false);
    let rounds = if thorough { 40 } else { 6 };
    let win = window(thorough);
    let mut names: Vec<&str> = INT_OPTS.iter().map(|(n, _, _)| *n).collect();
    names.push(KB_OPT);
    names.push(SEL_OPT);
    // has_option on the documented names
    for n in names.iter() {
        let r = a.has(n.as_bytes());
        w.rec(&format!("cfg hasopt {}", hx(n)), &r.to_string());
        if r != 1 {
            w.fail("new", &format!("has_option({n}) = {r} for a documented option"));
        }
    }
    w.rec("cfg init", &a.state());
    let (mut n_named, mut n_legacy, mut n_accept) = (0u64, 0u64, 0u64);
    for round in 0..rounds {
        if round > 0 {
            randomize(w, rng, &a, &b);
        }
        for name in names.iter() {
            let alias = leg.iter().find(|l| l.4 == *name);
            let mut vs = win.clone();
            // visit the values in a random order so that the option ends the sweep at a random valid value
            for i in (1..vs.len()).rev() {
                vs.swap(i, rng.below(i as u64 + 1) as usize);
            }
            for v in vs {
                // named entry point on A
                let pre = a.state();
                let lhs = format!("cfg setint {} {} {}", pre, hx(name), v);
                w.pending(&lhs);
                let r = a.set_int(name.as_bytes(), v);
                let post = a.state();
                w.rec(&lhs, &format!("{} {}", r, post));
                check_set(w, "set_int", name, v, Some(r), &pre, &post);
                n_named += 1;
                if r == 0 {
                    n_accept += 1;
                }
                // B: the legacy alias if there is one, else the same named call (keeps A and B in lockstep)
                let pre_b = b.state();
                if pre_b != pre {
                    w.fail("new", &format!("lockstep contexts diverged before {name}={v}: {} vs {}", pre, pre_b));
                }
                if let Some(l) = alias {
                    let lhs = format!("cfg legacyset {} {} {}", pre_b, l.0, v);
                    w.pending(&lhs);
                    unsafe { (l.1)(b.0, v) };
                    let post_b = b.state();
                    w.rec(&lhs, &post_b);
                    check_set(w, l.0, name, v, None, &pre_b, &post_b);
                    if post_b != post {
                        w.fail("new", &format!("{}({v}) is not equivalent to set_int({name},{v}): legacy {} / named {} (from {})", l.0, post_b, post, pre));
                    }
                    let g = unsafe { (l.3)(b.0) };
                    w.rec(&format!("cfg legacyget {} {}", post_b, l.2), &g.to_string());
                    let named = b.get_int(name.as_bytes());
                    if g != named {
                        w.fail("new", &format!("{}() = {g} but get_int({name}) = {named} (state {})", l.2, post_b));
                    }
                    n_legacy += 1;
                } else {
                    b.set_int(name.as_bytes(), v);
                }
                // the getter of this very name, as its own record
                w.rec(&format!("cfg getint {} {}", post, hx(name)), &a.get_int(name.as_bytes()).to_string());
            }
        }
    }
    w.out.stat("int.rounds", rounds);
    w.out.stat("int.values_per_option", win.len());
    w.out.stat("int.named_calls", n_named);
    w.out.stat("int.legacy_calls", n_legacy);
    w.out.stat("int.accepted", n_accept);
}

// ------------------------------------------------------------------------------------------------
// section: string options

fn near_names(rng: &mut Rng) -> Vec<Vec<u8>> {
    let mut v: Vec<Vec<u8>> = Vec::new();
    let base: Vec<&str> = INT_OPTS.iter().map(|x| x.0).chain([KB_OPT, SEL_OPT]).collect();
    for n in base.iter() {
        let n = n.as_bytes();
        v.push(n[..n.len() - 1].to_vec());
        v.push([n, b"s"].concat());
        v.push([n, b" "].concat());
        v.push([b" ".as_slice(), n].concat());
        v.push(n.to_ascii_uppercase());
        v.push(n["chewing.".len()..].to_vec());
        let mut m = n.to_vec();
        let i = rng.below(m.len() as u64) as usize;
        m[i] = if m[i] == b'_' { b'-' } else { b'_' };
        v.push(m);
    }
    v.push(b"".to_vec());
    v.push(b"chewing.".to_vec());
    v.push(b"chewing".to_vec());
    v.push("chewing.鍵盤".as_bytes().to_vec());
    v.push(b"chewing.keyboard_type\x80".to_vec());
    v.push(b"chewing.hsu_sel_key_type".to_vec());
    v
}

fn gen_selkey_value(rng: &mut Rng) -> Vec<u8> {
    match rng.below(14) {
        0 | 1 | 2 => (0..10).map(|_| rng.range(33, 126) as u8).collect(),
        3 => (0..10).map(|_| rng.range(1, 127) as u8).collect(),
        4 => "ééééé".as_bytes().to_vec(),
        5 => "ㄅㄆㄇa".as_bytes().to_vec(),
        6 => {
            // 8 ASCII + one 2-byte character somewhere
            let mut s: Vec<u8> = (0..8).map(|_| rng.range(97, 122) as u8).collect();
            let at = rng.below(9) as usize;
            let ch = ["é", "ß", "¡", "ÿ"][rng.below(4) as usize].as_bytes();
            s.splice(at..at, ch.iter().cloned());
            s
        }
        7 => "😀😀ab".as_bytes().to_vec(),
        8 => {
            let n = *rng.pick(&[0usize, 1, 5, 9, 11, 12, 20, 40]);
            (0..n).map(|_| rng.range(48, 122) as u8).collect()
        }
        9 => "éééééééééé".as_bytes().to_vec(),
        10 => {
            // 7 ASCII + a lone continuation byte: to_string_lossy makes it 10 bytes
            let mut s: Vec<u8> = (0..7).map(|_| rng.range(97, 122) as u8).collect();
            let at = rng.below(8) as usize;
            s.insert(at, 0x80 + rng.below(0x40) as u8);
            s
        }
        11 => {
            // 10 bytes, some of them lone continuation bytes
            (0..10).map(|_| if rng.chance(1, 4) { 0x80 + rng.below(0x40) as u8 } else { rng.range(33, 126) as u8 }).collect()
        }
        12 => b"1234567890".to_vec(),
        _ => {
            let n = rng.range(8, 12) as usize;
            (0..n).map(|_| if rng.chance(1, 6) { 0xC3 } else { rng.range(33, 126) as u8 }).collect::<Vec<u8>>()
                .iter().flat_map(|b| if *b == 0xC3 { vec![0xC3, 0xA9] } else { vec![*b] }).collect()
        }
    }
}

fn gen_kb_value(rng: &mut Rng) -> Vec<u8> {
    match rng.below(10) {
        0..=4 => KB_NAMES[rng.below(17) as usize].as_bytes().to_vec(),
        5 => KB_NAMES[rng.below(17) as usize].to_ascii_lowercase().into_bytes(),
        6 => {
            let mut s = KB_NAMES[rng.below(17) as usize].as_bytes().to_vec();
            match rng.below(4) {
                0 => {
                    s.pop();
                }
                1 => s.push(b'_'),
                2 => s.insert(0, b' '),
                _ => s.push(b' '),
            }
            s
        }
        7 => rng.pick(&["KB_DVORAK_CP26", "KB_UNKNOWN", "", "KB_", "DEFAULT", "KB_TYPE_NUM", "KB_DACHEN", "KB_COLEMAK_DH", "0", "6"]).as_bytes().to_vec(),
        8 => "KB_預設".as_bytes().to_vec(),
        _ => [KB_NAMES[rng.below(17) as usize].as_bytes(), &[0x80 + rng.below(0x40) as u8]].concat(),
    }
}

/// the lossy decoding the library applies, for the oracle (inputs only contain lone continuation bytes as errors)
fn lossy(b: &[u8]) -> String {
    String::from_utf8_lossy(b).to_string()
}

fn do_getstr(w: &mut W, c: &Ctx, name: &[u8]) {
    let pre = c.state();
    let lhs = format!("cfg getstr {} {}", pre, xh(name));
    w.pending(&lhs);
    let (r, s) = c.get_str(name);
    w.rec(&lhs, &format!("{} {}", r, s.as_ref().map(|s| xh(s)).unwrap_or("-".into())));
    let post = c.state();
    if post != pre {
        w.fail("new", &format!("get_str changed the configuration: {} -> {}", pre, post));
    }
    let nm = lossy(name);
    if nm == KB_OPT {
        let k = c.kbtype();
        let want = if (0..17).contains(&k) { Some(KB_NAMES[k as usize].as_bytes().to_vec()) } else { None };
        if r != 0 || s != want {
            w.fail("new", &format!("get_str(keyboard_type) = ({r}, {:?}) but the current layout number is {k}", s.map(|s| lossy(&s))));
        }
    } else if nm == SEL_OPT {
        let keys = c.selkeys();
        if keys.iter().all(|k| (1..=127).contains(k)) {
            let want: Vec<u8> = keys.iter().map(|k| *k as u8).collect();
            if r != 0 || s.as_deref() != Some(&want[..]) {
                w.fail("new", &format!("get_str(selection_keys) = ({r}, {:?}) but the keys are {:?}", s, keys));
            }
        }
    } else if r != -1 || s.is_some() {
        w.fail("new", &format!("get_str on unknown option {:?} returned {r}", nm));
    }
}

fn do_setstr(w: &mut W, c: &Ctx, name: &[u8], val: &[u8]) {
    let pre = c.state();
    let lhs = format!("cfg setstr {} {} {}", pre, xh(name), xh(val));
    w.pending(&lhs);
    let r = c.set_str(name, val);
    let post = c.state();
    w.rec(&lhs, &format!("{} {}", r, post));
    let nm = lossy(name);
    let toks_pre: Vec<&str> = pre.split(' ').collect();
    let toks_post: Vec<&str> = post.split(' ').collect();
    if nm == KB_OPT {
        match KB_NAMES.iter().position(|n| n.as_bytes() == val) {
            Some(i) => {
                let want = format!("{}:{}", i, hx(KB_NAMES[i]));
                if r != 0 || toks_post[1] != want || toks_post[0] != toks_pre[0] || toks_post[2] != toks_pre[2] {
                    w.fail("new", &format!("set_str(keyboard_type, {}) -> ret {r}, {} -> {}", KB_NAMES[i], pre, post));
                }
            }
            None => {
                if r != -1 || pre != post {
                    w.fail("new", &format!("set_str(keyboard_type, {:?}) with an unknown name -> ret {r}, {} -> {}", lossy(val), pre, post));
                }
            }
        }
    } else if nm == SEL_OPT {
        if valid_selkeys(val) {
            let want: Vec<String> = val.iter().map(|k| k.to_string()).collect();
            if r != 0 || toks_post[2] != want.join(",") || toks_post[0] != toks_pre[0] || toks_post[1] != toks_pre[1] {
                w.fail("new", &format!("set_str(selection_keys, {:?}) -> ret {r}, {} -> {}", lossy(val), pre, post));
            }
        } else if r != -1 || pre != post {
            w.fail("new", &format!("set_str(selection_keys, {}) is not 10 ASCII characters but -> ret {r}, {} -> {}", xh(val), pre, post));
        }
    } else if r != -1 || pre != post {
        w.fail("new", &format!("set_str on unknown option {:?} -> ret {r}, {} -> {}", nm, pre, post));
    }
}

fn section_str(w: &mut W, seed: u64, thorough: bool, from: u64) {
    let traces: u64 = if thorough { 6000 } else { 400 };
    let mut kinds: HashMap<&str, u64> = HashMap::new();
    for t in from..traces {
        let mut rng = Rng::new(seed.wrapping_mul(1_000_003).wrapping_add(t));
        let c = Ctx::new(false);
        // a varied pre-state
        if rng.chance(2, 3) {
            c.set_kb(rng.below(17) as i32);
            for _ in 0..3 {
                let (n, lo, hi) = INT_OPTS[rng.below(13) as usize];
                c.set_int(n.as_bytes(), rng.range(lo as i64, hi as i64) as i32);
            }
        }
        if t == 0 {
            // systematic part: every near-miss name through every entry point
            for n in near_names(&mut rng) {
                let r = c.has(&n);
                w.rec(&format!("cfg hasopt {}", xh(&n)), &r.to_string());
                if r != 0 {
                    w.fail("new", &format!("has_option({:?}) = {r} for an undocumented name", lossy(&n)));
                }
                let pre = c.state();
                let g = c.get_int(&n);
                w.rec(&format!("cfg getint {} {}", pre, xh(&n)), &g.to_string());
                if g != -1 {
                    w.fail("new", &format!("get_int({:?}) = {g} for an undocumented name", lossy(&n)));
                }
                let lhs = format!("cfg setint {} {} 1", pre, xh(&n));
                w.pending(&lhs);
                let r = c.set_int(&n, 1);
                let post = c.state();
                w.rec(&lhs, &format!("{} {}", r, post));
                if r != -1 || post != pre {
                    w.fail("new", &format!("set_int({:?}, 1) -> ret {r}, {} -> {}", lossy(&n), pre, post));
                }
                do_setstr(w, &c, &n, b"KB_HSU");
                do_setstr(w, &c, &n, b"abcdefghij");
                do_getstr(w, &c, &n);
            }
            // every documented layout name, and the integer option names through the string entry points
            for k in KB_NAMES.iter() {
                do_setstr(w, &c, KB_OPT.as_bytes(), k.as_bytes());
                do_getstr(w, &c, KB_OPT.as_bytes());
                let n = unsafe { chewing_KBStr2Num(cs(k.as_bytes()).as_ptr()) };
                w.rec(&format!("cfg kbstr2num {}", hx(k)), &n.to_string());
                if n != c.kbtype() {
                    w.fail("new", &format!("KBStr2Num({k}) = {n} but selecting that name reports layout {}", c.kbtype()));
                }
            }
            for (n, _, _) in INT_OPTS.iter() {
                do_setstr(w, &c, n.as_bytes(), b"1");
                do_getstr(w, &c, n.as_bytes());
            }
            *kinds.entry("systematic").or_default() += 1;
        } else {
            for _ in 0..6 {
                match rng.below(8) {
                    0 | 1 | 2 => {
                        let v = gen_selkey_value(&mut rng);
                        *kinds.entry(if valid_selkeys(&v) { "selkeys_valid" } else if v.len() == 10 { "selkeys_10bytes_invalid" } else { "selkeys_other_invalid" }).or_default() += 1;
                        do_setstr(w, &c, SEL_OPT.as_bytes(), &v);
                        do_getstr(w, &c, SEL_OPT.as_bytes());
                    }
                    3 | 4 => {
                        let v = gen_kb_value(&mut rng);
                        *kinds.entry(if KB_NAMES.iter().any(|n| n.as_bytes() == &v[..]) { "kbname_valid" } else { "kbname_invalid" }).or_default() += 1;
                        do_setstr(w, &c, KB_OPT.as_bytes(), &v);
                        do_getstr(w, &c, KB_OPT.as_bytes());
                        let n = unsafe { chewing_KBStr2Num(cs(&v).as_ptr()) };
                        w.rec(&format!("cfg kbstr2num {}", xh(&v)), &n.to_string());
                        let want = KB_NAMES.iter().position(|k| k.as_bytes() == &v[..]).unwrap_or(0) as i32;
                        if n != want {
                            w.fail("new", &format!("KBStr2Num({:?}) = {n}, documented {want}", lossy(&v)));
                        }
                    }
                    5 => {
                        // swapped: a layout name for the selection keys and vice versa
                        *kinds.entry("swapped").or_default() += 1;
                        do_setstr(w, &c, SEL_OPT.as_bytes(), KB_NAMES[rng.below(17) as usize].as_bytes());
                        do_setstr(w, &c, KB_OPT.as_bytes(), b"1234567890");
                    }
                    6 => {
                        *kinds.entry("getstr").or_default() += 1;
                        do_getstr(w, &c, KB_OPT.as_bytes());
                        do_getstr(w, &c, SEL_OPT.as_bytes());
                    }
                    _ => {
                        *kinds.entry("int_between").or_default() += 1;
                        let (n, lo, hi) = INT_OPTS[rng.below(13) as usize];
                        let v = rng.range(lo as i64 - 2, hi as i64 + 2) as i32;
                        let pre = c.state();
                        let lhs = format!("cfg setint {} {} {}", pre, hx(n), v);
                        w.pending(&lhs);
                        let r = c.set_int(n.as_bytes(), v);
                        let post = c.state();
                        w.rec(&lhs, &format!("{} {}", r, post));
                        check_set(w, "set_int", n, v, Some(r), &pre, &post);
                    }
                }
            }
        }
        drop(c);
        w.out.rec(&format!("@done {}", t));
        w.out.lines -= 1;
    }
    let mut ks: Vec<_> = kinds.into_iter().collect();
    ks.sort();
    for (k, n) in ks {
        w.out.stat(&format!("str.{}", k), n);
    }
    w.out.stat("str.traces", traces);
}

// ------------------------------------------------------------------------------------------------
// section: legacy selection keys and chewing_Configure

/// `ChewingConfigData` (capi/src/public.rs, `#[repr(C)]`; the type itself is not exported to Rust callers)
#[repr(C)]
struct ConfigData {
    cand_per_page: c_int,
    max_chi_symbol_len: c_int,
    sel_key: [c_int; 10],
    b_add_phrase_forward: c_int,
    b_space_as_selection: c_int,
    b_esc_clean_all_buf: c_int,
    b_auto_shift_cur: c_int,
    b_easy_symbol_input: c_int,
    b_phrase_choice_rearward: c_int,
    hsu_sel_key_type: c_int,
}

fn gen_keys(rng: &mut Rng) -> Vec<i32> {
    match rng.below(8) {
        0 | 1 | 2 => (0..10).map(|_| rng.range(33, 126) as i32).collect(),
        3 => (0..10).map(|_| rng.range(1, 127) as i32).collect(),
        4 => (0..10).map(|i| if i < 5 { rng.range(49, 57) as i32 } else { 0 }).collect(),
        5 => (0..10).map(|_| if rng.chance(1, 3) { rng.range(128, 300) as i32 } else { rng.range(33, 126) as i32 }).collect(),
        6 => (0..10).map(|_| *rng.pick(&[-1, 0, 256, 256 + 65, i32::MAX, i32::MIN, 97, 98])).collect(),
        _ => vec![200; 10],
    }
}

fn do_setselkey(w: &mut W, a: &Ctx, keys: &[i32], len: i32) {
    let pre = a.state();
    let ks: Vec<String> = keys.iter().map(|k| k.to_string()).collect();
    let lhs = format!("cfg setselkey {} {} {}", pre, len, ks.join(","));
    w.pending(&lhs);
    a.set_selkeys(keys, len);
    let post = a.state();
    w.rec(&lhs, &post);
    let in_doc = keys.iter().all(|k| (1..=127).contains(k));
    if len != 10 {
        if post != pre {
            w.fail("new", &format!("set_selKey with len {len} changed the configuration: {} -> {}", pre, post));
        }
    } else if in_doc {
        // equivalent to the named option: a second context from the same state, set by string
        let bytes: Vec<u8> = keys.iter().map(|k| *k as u8).collect();
        let b = Ctx::new(false);
        b.set_selkeys(&ints_sel(&pre), 10);
        let r = b.set_str(SEL_OPT.as_bytes(), &bytes);
        if r != 0 || b.selkeys() != a.selkeys() || a.selkeys() != keys {
            w.fail("new", &format!("set_selKey({:?}) is not equivalent to set_str(selection_keys): legacy {:?}, named ret {r} {:?}", keys, a.selkeys(), b.selkeys()));
        }
        let tp: Vec<&str> = pre.split(' ').collect();
        let tq: Vec<&str> = post.split(' ').collect();
        if tp[0] != tq[0] || tp[1] != tq[1] {
            w.fail("new", &format!("set_selKey changed other options: {} -> {}", pre, post));
        }
    } else if post != pre {
        // keys that are not ASCII codes are outside the documented domain but are stored (known finding F05b)
        w.fail("F05b-legacy-selkey-unvalidated", &format!("set_selKey({:?}, 10) is not rejected: {} -> {}", keys, pre, post));
    }
}

fn ints_sel(state: &str) -> Vec<i32> {
    state.split(' ').nth(2).unwrap().split(',').map(|x| x.parse().unwrap()).collect()
}

fn section_selkey(w: &mut W, seed: u64, thorough: bool, from: u64) {
    let traces: u64 = if thorough { 3000 } else { 250 };
    let leg = legacy();
    let (mut n_doc, mut n_undoc, mut n_len) = (0u64, 0u64, 0u64);
    for t in from..traces {
        let mut rng = Rng::new(seed.wrapping_mul(7_000_003).wrapping_add(t));
        let a = Ctx::new(false);
        if rng.chance(1, 2) {
            a.set_kb(rng.below(17) as i32);
        }
        for _ in 0..4 {
            match rng.below(6) {
                0..=2 => {
                    let keys = gen_keys(&mut rng);
                    if keys.iter().all(|k| (1..=127).contains(k)) { n_doc += 1 } else { n_undoc += 1 }
                    do_setselkey(w, &a, &keys, 10);
                    do_getstr(w, &a, SEL_OPT.as_bytes());
                }
                3 => {
                    let len = *rng.pick(&[0, 1, 9, 11, -1, 100, i32::MIN]);
                    n_len += 1;
                    // the array is not read for a wrong length; pass 10 valid keys anyway
                    let keys: Vec<i32> = (0..10).map(|_| rng.range(33, 126) as i32).collect();
                    do_setselkey(w, &a, &keys, len);
                }
                4 => {
                    let v = gen_selkey_value(&mut rng);
                    do_setstr(w, &a, SEL_OPT.as_bytes(), &v);
                    do_getstr(w, &a, SEL_OPT.as_bytes());
                }
                _ => {
                    // chewing_Configure = the listed legacy setters in order
                    let mut pcd = ConfigData {
                        cand_per_page: rng.range(-1, 12) as i32,
                        max_chi_symbol_len: rng.range(-2, 42) as i32,
                        sel_key: [0; 10],
                        b_add_phrase_forward: rng.range(-1, 2) as i32,
                        b_space_as_selection: rng.range(-1, 2) as i32,
                        b_esc_clean_all_buf: rng.range(-1, 2) as i32,
                        b_auto_shift_cur: rng.range(-1, 2) as i32,
                        b_easy_symbol_input: rng.range(-1, 2) as i32,
                        b_phrase_choice_rearward: rng.range(-1, 2) as i32,
                        hsu_sel_key_type: rng.range(0, 2) as i32,
                    };
                    let keys: Vec<i32> = (0..10).map(|_| rng.range(33, 126) as i32).collect();
                    pcd.sel_key.copy_from_slice(&keys);
                    let pre = a.state();
                    let ks: Vec<String> = keys.iter().map(|k| k.to_string()).collect();
                    let lhs = format!(
                        "cfg configure {} {} {} {} {},{},{},{},{},{} {}",
                        pre, pcd.cand_per_page, pcd.max_chi_symbol_len, ks.join(","), pcd.b_add_phrase_forward,
                        pcd.b_space_as_selection, pcd.b_esc_clean_all_buf, pcd.b_auto_shift_cur, pcd.b_easy_symbol_input,
                        pcd.b_phrase_choice_rearward, pcd.hsu_sel_key_type
                    );
                    w.pending(&lhs);
                    #[allow(deprecated)]
                    let r = unsafe { chewing_Configure(a.0, (&mut pcd as *mut ConfigData).cast()) };
                    let post = a.state();
                    w.rec(&lhs, &format!("{} {}", r, post));
                    // oracle: same as the named options one after the other on a second context
                    let b = Ctx::new(false);
                    replay_state(&b, &pre);
                    let calls: [(&str, i32); 8] = [
                        ("chewing.candidates_per_page", pcd.cand_per_page),
                        ("chewing.auto_commit_threshold", pcd.max_chi_symbol_len),
                        ("chewing.user_phrase_add_direction", pcd.b_add_phrase_forward),
                        ("chewing.space_is_select_key", pcd.b_space_as_selection),
                        ("chewing.esc_clear_all_buffer", pcd.b_esc_clean_all_buf),
                        ("chewing.auto_shift_cursor", pcd.b_auto_shift_cur),
                        ("chewing.easy_symbol_input", pcd.b_easy_symbol_input),
                        ("chewing.phrase_choice_rearward", pcd.b_phrase_choice_rearward),
                    ];
                    for (n, v) in calls {
                        b.set_int(n.as_bytes(), v);
                    }
                    let bytes: Vec<u8> = keys.iter().map(|k| *k as u8).collect();
                    b.set_str(SEL_OPT.as_bytes(), &bytes);
                    if b.state() != post {
                        w.fail("new", &format!("chewing_Configure is not equivalent to the named options: {} vs {} (from {})", post, b.state(), pre));
                    }
                }
            }
        }
        // the legacy getters agree with the named ones at the end of the trace
        let st = a.state();
        for l in leg.iter() {
            let g = unsafe { (l.3)(a.0) };
            w.rec(&format!("cfg legacyget {} {}", st, l.2), &g.to_string());
            if g != a.get_int(l.4.as_bytes()) {
                w.fail("new", &format!("{}() = {g} differs from get_int({})", l.2, l.4));
            }
        }
        drop(a);
        w.out.rec(&format!("@done {}", t));
        w.out.lines -= 1;
    }
    w.out.stat("selkey.traces", traces);
    w.out.stat("selkey.documented_arrays", n_doc);
    w.out.stat("selkey.undocumented_arrays", n_undoc);
    w.out.stat("selkey.wrong_len", n_len);
}

/// bring a fresh context to the state described by a state string (through the named / numeric API)
fn replay_state(c: &Ctx, state: &str) {
    let ints = ints_of(state);
    for (i, (n, _, _)) in INT_OPTS.iter().enumerate() {
        c.set_int(n.as_bytes(), ints[i]);
    }
    let kb: i32 = state.split(' ').nth(1).unwrap().split(':').next().unwrap().parse().unwrap();
    c.set_kb(kb);
    c.set_selkeys(&ints_sel(state), 10);
}

// ------------------------------------------------------------------------------------------------
// section: keyboard layouts

fn keyboards() -> Vec<(&'static str, fn() -> AnyKeyboardLayout)> {
    vec![
        ("Qwerty", AnyKeyboardLayout::qwerty as fn() -> AnyKeyboardLayout),
        ("Dvorak", AnyKeyboardLayout::dvorak),
        ("DvorakOnQwerty", AnyKeyboardLayout::dvorak_on_qwerty),
        ("Qgmlwy", AnyKeyboardLayout::qgmlwy),
        ("Colemak", AnyKeyboardLayout::colemak),
        ("ColemakDhAnsi", AnyKeyboardLayout::colemak_dh_ansi),
        ("ColemakDhOrth", AnyKeyboardLayout::colemak_dh_orth),
        ("Workman", AnyKeyboardLayout::workman),
    ]
}

fn syl_editors() -> Vec<(&'static str, fn() -> Box<dyn SyllableEditor>)> {
    vec![
        ("Standard::new()", (|| Box::new(Standard::new()) as Box<dyn SyllableEditor>) as fn() -> Box<dyn SyllableEditor>),
        ("Hsu::new()", || Box::new(Hsu::new())),
        ("Ibm::new()", || Box::new(Ibm::new())),
        ("GinYieh::new()", || Box::new(GinYieh::new())),
        ("Et::new()", || Box::new(Et::new())),
        ("Et26::new()", || Box::new(Et26::new())),
        ("DaiChien26::new()", || Box::new(DaiChien26::new())),
        ("Pinyin::hanyu()", || Box::new(Pinyin::hanyu())),
        ("Pinyin::thl()", || Box::new(Pinyin::thl())),
        ("Pinyin::mps2()", || Box::new(Pinyin::mps2())),
    ]
}

/// an Editor built like chewing_new2 does when the system path has no dictionary (built-in mini.dat)
fn reference_editor() -> Editor {
    let bytes = std::fs::read(format!("{}/capi/data/mini.dat", repo())).expect("capi/data/mini.dat");
    let builtin = Trie::new(&bytes[..]).expect("mini.dat");
    let user = UserDictionaryLoader::new().userphrase_path(":memory:").load().expect("in-memory user dictionary");
    let estimate = LaxUserFreqEstimate::max_from(user.as_ref());
    let dict = Layered::new(vec![Box::new(builtin) as Box<dyn Dictionary>], user);
    Editor::new(Box::new(ChewingEngine::new()), dict, estimate, AbbrevTable::new(), SymbolSelector::new(b"".as_slice()).unwrap())
}

struct Reference {
    kb: AnyKeyboardLayout,
    ed: Editor,
    kb_name: &'static str,
    syl_name: &'static str,
}

impl Reference {
    /// `english`: the probe is typed in English mode (shows the keyboard's own character map)
    fn probe(&mut self, english: bool, keys: &[u8]) -> String {
        let mut o = self.ed.editor_options();
        o.language_mode = if english { LanguageMode::English } else { LanguageMode::Chinese };
        self.ed.set_editor_options(o);
        self.ed.clear();
        self.ed.clear_syllable_editor();
        for k in keys {
            self.ed.process_keyevent(self.kb.map_ascii(*k));
        }
        format!("{}|{}|{}", self.ed.syllable_buffer_display(), self.ed.display(), self.ed.display_commit())
    }
}

fn c_probe(c: &Ctx, english: bool, keys: &[u8]) -> String {
    c.set_int(b"chewing.language_mode", if english { 0 } else { 1 });
    c.reset();
    unsafe { chewing_clean_bopomofo_buf(c.0) };
    c.type_keys(keys)
}

struct Identifier {
    refs: Vec<Reference>,
    /// 95-key fingerprints of the references
    base: Vec<Vec<String>>,
    /// extra probes that separate the references sharing one base fingerprint (by group = base fingerprint index)
    extra: HashMap<usize, Vec<Vec<u8>>>,
    probes_searched: u64,
}

fn printable() -> Vec<u8> {
    (32u8..=126).collect()
}

impl Identifier {
    fn new() -> Identifier {
        let mut refs = Vec::new();
        for (kn, kf) in keyboards() {
            for (sn, sf) in syl_editors() {
                let mut ed = reference_editor();
                ed.set_syllable_editor(sf());
                refs.push(Reference { kb: kf(), ed, kb_name: kn, syl_name: sn });
            }
        }
        let keys = printable();
        let mut base: Vec<Vec<String>> = Vec::new();
        for r in refs.iter_mut() {
            let mut fp: Vec<String> = keys.iter().map(|k| r.probe(false, &[*k])).collect();
            fp.extend(keys.iter().map(|k| r.probe(true, &[*k])));
            base.push(fp);
        }
        Identifier { refs, base, extra: HashMap::new(), probes_searched: 0 }
    }

    /// probes separating all members of the group (searched once): letters then an end key
    fn extra_for(&mut self, members: &[usize]) -> Vec<Vec<u8>> {
        let gid = members[0];
        if let Some(e) = self.extra.get(&gid) {
            return e.clone();
        }
        let mut probes: Vec<Vec<u8>> = Vec::new();
        let mut classes: Vec<Vec<usize>> = vec![members.to_vec()];
        let letters: Vec<u8> = (b'a'..=b'z').collect();
        let mut cands: Vec<Vec<u8>> = Vec::new();
        for a in letters.iter() {
            for end in [b' ', b'4'] {
                cands.push(vec![*a, end]);
            }
        }
        for a in letters.iter() {
            for b in letters.iter() {
                for end in [b' ', b'4'] {
                    cands.push(vec![*a, *b, end]);
                }
            }
        }
        for a in letters.iter() {
            for b in letters.iter() {
                for c in letters.iter() {
                    cands.push(vec![*a, *b, *c, b' ']);
                }
            }
        }
        for cand in cands {
            // keyboards that differ only in the physical key position are indistinguishable under a syllable editor
            // that does not look at it: stop once every class has one syllable editor
            if classes.iter().all(|c| c.iter().all(|m| self.refs[*m].syl_name == self.refs[c[0]].syl_name)) {
                break;
            }
            let mut next: Vec<Vec<usize>> = Vec::new();
            let mut split = false;
            for class in classes.iter() {
                if class.iter().all(|m| self.refs[*m].syl_name == self.refs[class[0]].syl_name) {
                    next.push(class.clone());
                    continue;
                }
                let mut by: Vec<(String, Vec<usize>)> = Vec::new();
                for m in class {
                    self.probes_searched += 1;
                    let r = self.refs[*m].probe(false, &cand);
                    match by.iter_mut().find(|(k, _)| *k == r) {
                        Some((_, v)) => v.push(*m),
                        None => by.push((r, vec![*m])),
                    }
                }
                if by.len() > 1 {
                    split = true;
                }
                next.extend(by.into_iter().map(|(_, v)| v));
            }
            if split {
                probes.push(cand);
                classes = next;
            }
        }
        self.extra.insert(gid, probes.clone());
        probes
    }

    /// which (keyboard, syllable editor) pairs behave like the context returned by `make`?  The answer is the
    /// class of reference pairs with the same behaviour on all probes, `a+b/c+d/…` in reference order, or `none`.
    fn identify(&mut self, make: &dyn Fn() -> Ctx) -> String {
        let c = make();
        let keys = printable();
        let fp: Vec<String> =
            keys.iter().map(|k| c_probe(&c, false, &[*k])).chain(keys.iter().map(|k| c_probe(&c, true, &[*k]))).collect();
        let mut members: Vec<usize> = (0..self.refs.len()).filter(|i| self.base[*i] == fp).collect();
        if members.len() > 1 {
            let probes = self.extra_for(&members);
            let obs: Vec<String> = probes.iter().map(|p| c_probe(&c, false, p)).collect();
            let mut keep = Vec::new();
            for i in members {
                let want: Vec<String> = probes.iter().map(|p| self.refs[i].probe(false, p)).collect();
                if want == obs {
                    keep.push(i);
                }
            }
            members = keep;
        }
        if members.is_empty() {
            return "none".into();
        }
        let names: Vec<String> = members.iter().map(|i| format!("{}+{}", self.refs[*i].kb_name, self.refs[*i].syl_name)).collect();
        names.join("/")
    }
}

#[derive(Clone, Debug)]
enum Sel {
    Num(i32),
    Name(Vec<u8>),
}

impl Sel {
    fn apply(&self, c: &Ctx) -> i32 {
        match self {
            Sel::Num(n) => c.set_kb(*n),
            Sel::Name(s) => c.set_str(KB_OPT.as_bytes(), s),
        }
    }
    fn text(&self) -> String {
        match self {
            Sel::Num(n) => format!("num {}", n),
            Sel::Name(s) => format!("name {}", xh(s)),
        }
    }
}

fn section_kb(w: &mut W, rng: &mut Rng, thorough: bool) {
    let mut id = Identifier::new();
    w.out.stat("kb.reference_pairs", id.refs.len());

    // --- fresh context
    {
        let cls = id.identify(&|| Ctx::new(true));
        let c = Ctx::new(true);
        w.rec(&format!("cfg kbinit {}", cls), &format!("{} {} ok", c.kbtype(), xh(&c.kbstring())));
        if cls == "none" {
            w.fail("new", "fresh context: the (keyboard, syllable editor) in effect matches no reference pair");
        }
    }
    // --- the enumeration API lists the documented names in number order
    {
        let c = Ctx::new(false);
        let total = unsafe { chewing_kbtype_Total(c.0) };
        unsafe { chewing_kbtype_Enumerate(c.0) };
        let mut names: Vec<String> = Vec::new();
        while unsafe { chewing_kbtype_hasNext(c.0) } == 1 && names.len() < 64 {
            let p = unsafe { chewing_kbtype_String(c.0) };
            names.push(unsafe { CStr::from_ptr(p) }.to_string_lossy().to_string());
            unsafe { chewing_free(p.cast()) };
        }
        w.rec("cfg kbenum", &format!("{} {}", total, hx(&names.join(","))));
        if total != 17 || names != KB_NAMES {
            w.fail("new", &format!("kbtype enumeration = {total} {:?}, documented {:?}", names, KB_NAMES));
        }
    }

    // --- one selection from a fresh context: numbers in a window, names valid and not
    let mut nums: Vec<i32> = (-3..=45).collect();
    nums.extend([i32::MIN, i32::MIN + 6, -256, -250, -129, -128, 127, 128, 255, 256, 257, 262, 272, 511, 512, 518, 65536, 65542, 1 << 24, i32::MAX - 1, i32::MAX]);
    let mut sels: Vec<Sel> = nums.iter().map(|n| Sel::Num(*n)).collect();
    for n in KB_NAMES.iter() {
        sels.push(Sel::Name(n.as_bytes().to_vec()));
    }
    for _ in 0..(if thorough { 200 } else { 30 }) {
        let v = gen_kb_value(rng);
        sels.push(Sel::Name(v));
    }
    let mut eff_by_num: HashMap<i32, String> = HashMap::new();
    let mut eff_by_name: HashMap<i32, String> = HashMap::new();
    for sel in sels.iter() {
        w.pending(&format!("cfg kbeff {} ?", sel.text()));
        let c = Ctx::new(true);
        let r = sel.apply(&c);
        let (kt, ks) = (c.kbtype(), c.kbstring());
        drop(c);
        let s2 = sel.clone();
        let cls = id.identify(&move || {
            let c = Ctx::new(true);
            s2.apply(&c);
            c
        });
        w.rec(&format!("cfg kbeff {} {}", sel.text(), cls), &format!("{} {} {} ok", r, kt, xh(&ks)));
        if cls == "none" {
            w.fail("new", &format!("{}: the (keyboard, syllable editor) in effect matches no reference pair", sel.text()));
        }
        match sel {
            Sel::Num(n) => {
                if (0..17).contains(n) {
                    if r != 0 || kt != *n || ks != KB_NAMES[*n as usize].as_bytes() {
                        w.fail("new", &format!("set_KBType({n}) -> ret {r}, reports {kt} {:?}", lossy(&ks)));
                    }
                    eff_by_num.insert(*n, cls);
                } else {
                    if r != -1 || kt != 0 {
                        w.fail("new", &format!("set_KBType({n}) with an unknown number -> ret {r}, layout {kt} (documented: -1, KB_DEFAULT)"));
                    }
                    if let Some(d) = eff_by_num.get(&0) {
                        if *d != cls {
                            w.fail("new", &format!("set_KBType({n}) reports KB_DEFAULT but {cls} is in effect"));
                        }
                    }
                }
            }
            Sel::Name(v) => match KB_NAMES.iter().position(|n| n.as_bytes() == &v[..]) {
                Some(i) => {
                    if r != 0 || kt != i as i32 || ks != *v {
                        w.fail("new", &format!("set_str(keyboard_type, {}) -> ret {r}, reports {kt} {:?}", KB_NAMES[i], lossy(&ks)));
                    }
                    eff_by_name.insert(i as i32, cls);
                }
                None => {
                    if r != -1 || kt != 0 {
                        w.fail("new", &format!("set_str(keyboard_type, {:?}) unknown name -> ret {r}, layout {kt}", lossy(v)));
                    }
                }
            },
        }
    }
    for i in 0..17 {
        if eff_by_num.get(&i) != eff_by_name.get(&i) {
            w.fail("new", &format!("{}: by number {:?} is in effect, by name {:?}", KB_NAMES[i as usize], eff_by_num.get(&i), eff_by_name.get(&i)));
        }
    }

    // --- two selections in a row; the reported layout must be the one in effect
    let pairs = if thorough { 1200 } else { 150 };
    for _ in 0..pairs {
        let pick = |rng: &mut Rng| -> Sel {
            match rng.below(6) {
                0 | 1 => Sel::Num(rng.below(17) as i32),
                2 | 3 => Sel::Name(KB_NAMES[rng.below(17) as usize].as_bytes().to_vec()),
                4 => Sel::Num(*rng.pick(&[-1, 17, 18, 255, 256, 262, 1000, i32::MAX, i32::MIN])),
                _ => Sel::Name(gen_kb_value(rng)),
            }
        };
        let (s1, s2) = (pick(rng), pick(rng));
        w.pending(&format!("cfg kbeff2 {} {} ?", s1.text(), s2.text()));
        let c = Ctx::new(true);
        let r1 = s1.apply(&c);
        let r2 = s2.apply(&c);
        let (kt, ks) = (c.kbtype(), c.kbstring());
        drop(c);
        let (a1, a2) = (s1.clone(), s2.clone());
        let cls = id.identify(&move || {
            let c = Ctx::new(true);
            a1.apply(&c);
            a2.apply(&c);
            c
        });
        w.rec(&format!("cfg kbeff2 {} {} {}", s1.text(), s2.text(), cls), &format!("{} {} {} {} ok", r1, r2, kt, xh(&ks)));
        // reported == in effect: the behaviour must be that of a fresh context given the reported number
        match eff_by_num.get(&kt) {
            Some(d) if *d == cls => {}
            other => w.fail("new", &format!("after {} then {}: layout {kt} is reported but {cls} is in effect (that layout selects {:?})", s1.text(), s2.text(), other)),
        }
        if (0..17).contains(&kt) && ks != KB_NAMES[kt as usize].as_bytes() {
            w.fail("new", &format!("KBString {:?} does not name layout {kt}", lossy(&ks)));
        }
    }

    // --- a layout selection survives every other configuration call
    for kb in 0..17 {
        let cls = id.identify(&move || {
            let c = Ctx::new(true);
            c.set_kb(kb);
            for (n, lo, hi) in INT_OPTS.iter() {
                c.set_int(n.as_bytes(), *hi);
                c.set_int(n.as_bytes(), *lo - 1);
                c.set_int(n.as_bytes(), *hi + 1);
            }
            // back to the defaults that key handling depends on
            let defaults = [0, 0, 0, 10, 1, 0, 0, 39, 0, 0, 0, 1, 1];
            for (i, (n, _, _)) in INT_OPTS.iter().enumerate() {
                c.set_int(n.as_bytes(), defaults[i]);
            }
            c.set_str(SEL_OPT.as_bytes(), b"asdfghjkl;");
            c.set_str(SEL_OPT.as_bytes(), b"1234567890");
            c.set_str(KB_OPT.as_bytes(), b"KB_NO_SUCH");
            let keys = [49, 50, 51, 52, 53, 54, 55, 56, 57, 48];
            c.set_selkeys(&keys, 10);
            c
        });
        w.rec(&format!("cfg kbkeep {} {}", kb, cls), "ok");
        if eff_by_num.get(&kb) != Some(&cls) {
            w.fail("new", &format!("layout {kb}: other configuration calls changed the pair in effect to {cls}"));
        }
    }

    // --- 17 layouts × 95 keys × both selection APIs: one key from a fresh context (tests/data dictionary)
    let keys = printable();
    let mut n_keyeq = 0u64;
    let mut distinct: std::collections::HashSet<String> = std::collections::HashSet::new();
    for kb in 0..17i32 {
        for key in keys.iter() {
            let a = Ctx::new(false);
            a.set_kb(kb);
            let ra = a.type_keys(&[*key]);
            let b = Ctx::new(false);
            b.set_str(KB_OPT.as_bytes(), KB_NAMES[kb as usize].as_bytes());
            let rb = b.type_keys(&[*key]);
            w.rec(&format!("cfg keyeq {} {} {} {}", kb, key, hx(&ra), hx(&rb)), if ra == rb { "1" } else { "0" });
            n_keyeq += 1;
            distinct.insert(format!("{kb}:{ra}"));
            if ra != rb {
                w.fail("new", &format!("{} key {:?}: selected by number -> {ra}, selected by name -> {rb}", KB_NAMES[kb as usize], *key as char));
            }
            if a.kbtype() != b.kbtype() || a.kbstring() != b.kbstring() {
                w.fail("new", &format!("{}: the two selection APIs report different layouts", KB_NAMES[kb as usize]));
            }
        }
    }
    // longer inputs (2 keys; 3 keys in the thorough tier) on the same pair of contexts, reset in between
    let mut n_seq = 0u64;
    for kb in 0..17i32 {
        let a = Ctx::new(true);
        a.set_kb(kb);
        let b = Ctx::new(true);
        b.set_str(KB_OPT.as_bytes(), KB_NAMES[kb as usize].as_bytes());
        let n = if thorough { 20000 } else { 600 };
        let fixed: [&[u8]; 6] = [b"hdk", b"su3cl3", b"ji3", b"zp ", b"cen ", b"a;4"];
        for i in 0..n + fixed.len() {
            let len = if thorough { rng.range(2, 4) } else { rng.range(2, 3) } as usize;
            let seq: Vec<u8> = if i < fixed.len() { fixed[i].to_vec() } else { (0..len).map(|_| *rng.pick(&keys)).collect() };
            for c in [&a, &b] {
                c.reset();
                unsafe { chewing_clean_bopomofo_buf(c.0) };
            }
            let (ra, rb) = (a.type_keys(&seq), b.type_keys(&seq));
            n_seq += 1;
            if ra != rb {
                w.fail("new", &format!("{} keys {:?}: by number -> {ra}, by name -> {rb}", KB_NAMES[kb as usize], lossy(&seq)));
                break;
            }
        }
    }
    w.out.stat("kb.single_selections", sels.len());
    w.out.stat("kb.double_selections", pairs);
    w.out.stat("kb.keyeq", n_keyeq);
    w.out.stat("kb.keyeq_distinct_outcomes", distinct.len());
    w.out.stat("kb.key_sequences_compared", n_seq);
    w.out.stat("kb.identification_groups_needing_extra_probes", id.extra.len());
    w.out.stat("kb.extra_probe_search", id.probes_searched);
    let s: Vec<String> = (0..17)
        .map(|i| format!("{}={}", KB_NAMES[i as usize], eff_by_num.get(&i).map(|c| c.split('/').next().unwrap().to_string() + if c.contains('/') { "(+equivalents)" } else { "" }).unwrap_or_default()))
        .collect();
    w.out.sample(&format!("pairs in effect: {}", s.join(" ")));
}

// ------------------------------------------------------------------------------------------------
// parent / worker plumbing

fn worker(section: &str, from: u64) {
    let mut w = W { out: Out::new(), violations: 0 };
    let seed = seed_from_env();
    let thorough = tier_is_thorough();
    let mut rng = Rng::new(seed ^ 0xC16);
    match section {
        "int" => section_int(&mut w, &mut rng, thorough),
        "str" => section_str(&mut w, seed, thorough, from),
        "selkey" => section_selkey(&mut w, seed, thorough, from),
        "kb" => section_kb(&mut w, &mut rng, thorough),
        _ => panic!("unknown section"),
    }
    w.out.flush();
}

fn main() {
    let args: Vec<String> = std::env::args().collect();
    if args.len() >= 3 && args[1] == "--worker" {
        let from = args.get(3).and_then(|s| s.parse().ok()).unwrap_or(0);
        worker(&args[2], from);
        return;
    }
    let exe = std::env::current_exe().unwrap();
    let stdout = std::io::stdout();
    let mut out = stdout.lock();
    let only: Option<&String> = args.get(1);
    for section in ["int", "str", "selkey", "kb"] {
        if let Some(o) = only {
            if o != section {
                continue;
            }
        }
        let mut from = 0u64;
        let mut aborts = 0u64;
        loop {
            let mut child = Command::new(&exe)
                .args(["--worker", section, &from.to_string()])
                .stdout(Stdio::piped())
                .stderr(Stdio::null())
                .spawn()
                .expect("spawn worker");
            let rd = BufReader::new(child.stdout.take().unwrap());
            let mut pending: Option<String> = None;
            let mut last_done: Option<u64> = None;
            for line in rd.split(b'\n') {
                let line = String::from_utf8_lossy(&line.unwrap()).to_string();
                if let Some(p) = line.strip_prefix("@pending ") {
                    pending = Some(p.to_string());
                } else if let Some(d) = line.strip_prefix("@done ") {
                    last_done = d.trim().parse().ok();
                    pending = None;
                } else {
                    if !line.starts_with('#') && !line.starts_with('!') {
                        pending = None;
                    }
                    writeln!(out, "{}", line).unwrap();
                }
            }
            let status = child.wait().unwrap();
            if status.success() {
                break;
            }
            // the worker died: a panic inside an extern "C" function (abort) or a harness assertion
            aborts += 1;
            let what = pending.clone().unwrap_or_else(|| "(between records)".into());
            if let Some(p) = pending {
                writeln!(out, "{} => abort", p).unwrap();
            }
            writeln!(out, "!oracle C16 new process aborted ({}) during: {}", status, what).unwrap();
            if section == "int" || section == "kb" || aborts > 50 {
                writeln!(out, "#stat {}.section_abandoned_after_abort 1", section).unwrap();
                break;
            }
            // the trace that died is skipped
            from = last_done.map(|d| d + 1).unwrap_or(from) + 1;
        }
        writeln!(out, "#stat {}.aborts {}", section, aborts).unwrap();
    }
    out.flush().unwrap();
}
