//! probe (temporary)
use chewing_capi::candidates::*;
use chewing_capi::globals::*;
use chewing_capi::input::*;
use chewing_capi::layout::*;
use chewing_capi::output::*;
use chewing_capi::setup::*;
use std::ffi::{c_int, CStr, CString};
use std::ptr::null_mut;

fn repo() -> String {
    std::env::var("VERIF_REPO").unwrap_or_else(|_| "/repo".into())
}

struct Ctx(*mut ChewingContext);
impl Ctx {
    fn new(sys: &str) -> Ctx {
        let sys = CString::new(sys).unwrap();
        let user = CString::new(":memory:").unwrap();
        let p = unsafe { chewing_new2(sys.as_ptr(), user.as_ptr(), None, null_mut()) };
        assert!(!p.is_null());
        Ctx(p)
    }
    fn bopomofo(&self) -> String {
        unsafe {
            let p = chewing_bopomofo_String(self.0);
            let s = CStr::from_ptr(p).to_string_lossy().to_string();
            chewing_free(p.cast());
            s
        }
    }
}
impl Drop for Ctx {
    fn drop(&mut self) {
        unsafe { chewing_delete(self.0) }
    }
}

fn main() {
    let sys = format!("{}/tests/data", repo());
    let arg = std::env::args().nth(1).unwrap_or_default();
    match arg.as_str() {
        "f24" => {
            for name in ["KB_DVORAK", "KB_DVORAK_HSU"] {
                let a = Ctx::new(&sys);
                let b = Ctx::new(&sys);
                let n = unsafe { chewing_KBStr2Num(CString::new(name).unwrap().as_ptr()) };
                unsafe { chewing_set_KBType(a.0, n) };
                let k = CString::new("chewing.keyboard_type").unwrap();
                let v = CString::new(name).unwrap();
                let r = unsafe { chewing_config_set_str(b.0, k.as_ptr(), v.as_ptr()) };
                for key in b"hdk" {
                    unsafe { chewing_handle_Default(a.0, *key as c_int) };
                    unsafe { chewing_handle_Default(b.0, *key as c_int) };
                }
                println!("{name} n={n} r={r} bynum={:?} byname={:?} kbtype {} {}", a.bopomofo(), b.bopomofo(),
                    unsafe { chewing_get_KBType(a.0) }, unsafe { chewing_get_KBType(b.0) });
            }
        }
        "trunc" => {
            for n in [262, 256, 257, 255, -250, 65542] {
                let a = Ctx::new(&sys);
                let r = unsafe { chewing_set_KBType(a.0, n) };
                println!("set_KBType({n}) = {r}, KBType = {}", unsafe { chewing_get_KBType(a.0) });
            }
        }
        "f05" => {
            let a = Ctx::new(&sys);
            let k = CString::new("chewing.selection_keys").unwrap();
            let v = CString::new("ééééé").unwrap();
            let r = unsafe { chewing_config_set_str(a.0, k.as_ptr(), v.as_ptr()) };
            println!("set = {r}");
            let sk = unsafe { std::slice::from_raw_parts(chewing_get_selKey(a.0), 10) };
            println!("selkeys = {:?}", sk);
            let mut out: *mut std::ffi::c_char = null_mut();
            let r = unsafe { chewing_config_get_str(a.0, k.as_ptr(), &mut out) };
            println!("get = {r}");
        }
        "selkey0" => {
            let a = Ctx::new(&sys);
            let k = CString::new("chewing.selection_keys").unwrap();
            let keys = [0 as c_int; 10];
            unsafe { chewing_set_selKey(a.0, keys.as_ptr(), 10) };
            let mut out: *mut std::ffi::c_char = null_mut();
            let r = unsafe { chewing_config_get_str(a.0, k.as_ptr(), &mut out) };
            println!("get = {r}");
        }
        _ => {}
    }
}
