//! C03 (+ the conversion half of C04) correspondence and oracle: the three conversion engines run
//! on generated dictionaries x compositions built through the public `Composition` operations.
//!
//! record:  conv <engine> <stream> <lookup table> <symbols> <gaps> <selections> <k-paths> => <result>
//!   lookup table  every non-empty dictionary answer for a key the engine can ask (recorded through a
//!                 transparent proxy + all syllable sub-ranges):  strat:key:phrases;...   (see `enc_table`)
//!   k-paths       ChewingEngine::verif_k_paths (hook): the picks of find_k_paths, `-` for the simple engine
//!   result        `ok <n> <alt> ...` (first CAP alternatives, in order) or `panic:<class>`
//! oracle: the C03 / C04 statements evaluated directly on the real output (streams `valid*`: everything;
//! stream `noword`: liveness, tiling, verbatim non-syllables and the exact text shape with the fallback spelling).
use chewing::conversion::{
    ChewingEngine, Composition, ConversionEngine, FuzzyChewingEngine, Gap, Interval, SimpleEngine,
    Symbol,
};
use chewing::dictionary::{
    Dictionary, DictionaryBuilder, DictionaryInfo, DictionaryMut, Entries, Layered, LookupStrategy,
    Phrase, TrieBuf, TrieBuilder, TrieOpenOptions,
};
use chewing::editor::keyboard::{KeyCode, KeyboardLayout, Qwerty};
use chewing::editor::{
    AbbrevTable, BasicEditor, ConversionEngineKind, Editor, LaxUserFreqEstimate, SymbolSelector,
};
use chewing::zhuyin::{Syllable, SyllableSlice};
use std::cell::RefCell;
use std::collections::{BTreeMap, BTreeSet};
use std::panic::{catch_unwind, AssertUnwindSafe};
use std::path::Path;
use vharness::*;

const CAP: usize = 20;

// ---------------------------------------------------------------- recording proxy

type Table = BTreeMap<(u8, Vec<u16>), Vec<Phrase>>;

#[derive(Debug)]
struct Rec<'a> {
    inner: &'a dyn Dictionary,
    log: RefCell<Table>,
}

fn strat_id(s: LookupStrategy) -> u8 {
    match s {
        LookupStrategy::Standard => 0,
        LookupStrategy::FuzzyPartialPrefix => 1,
    }
}

fn key_of(s: &dyn SyllableSlice) -> Vec<u16> {
    s.to_slice().iter().map(|s| s.to_u16()).collect()
}

impl Dictionary for Rec<'_> {
    fn lookup_first_n_phrases(&self, syllables: &dyn SyllableSlice, first: usize, strategy: LookupStrategy) -> Vec<Phrase> {
        let r = self.inner.lookup_first_n_phrases(syllables, first, strategy);
        self.log.borrow_mut().insert((strat_id(strategy), key_of(syllables)), r.clone());
        r
    }
    fn lookup_first_phrase(&self, syllables: &dyn SyllableSlice, strategy: LookupStrategy) -> Option<Phrase> {
        let r = self.inner.lookup_first_phrase(syllables, strategy);
        self.log.borrow_mut().insert((strat_id(strategy), key_of(syllables)), r.iter().cloned().collect());
        r
    }
    fn lookup_all_phrases(&self, syllables: &dyn SyllableSlice, strategy: LookupStrategy) -> Vec<Phrase> {
        let r = self.inner.lookup_all_phrases(syllables, strategy);
        self.log.borrow_mut().insert((strat_id(strategy), key_of(syllables)), r.clone());
        r
    }
    fn entries(&self) -> Entries<'_> {
        self.inner.entries()
    }
    fn about(&self) -> DictionaryInfo {
        self.inner.about()
    }
    fn path(&self) -> Option<&Path> {
        self.inner.path()
    }
    fn as_dict_mut(&mut self) -> Option<&mut dyn DictionaryMut> {
        None
    }
}

// ---------------------------------------------------------------- encodings

fn enc_phrase(p: &Phrase) -> String {
    format!("{},{},{}", &hx(p.as_str())[1..], p.freq(), opt(p.last_used()))
}

fn enc_table(t: &Table) -> String {
    let parts: Vec<String> = t
        .iter()
        .filter(|(_, v)| !v.is_empty())
        .map(|((s, k), v)| {
            format!(
                "{}:{}:{}",
                if *s == 0 { "s" } else { "f" },
                if k.is_empty() { "e".to_string() } else { k.iter().map(|c| c.to_string()).collect::<Vec<_>>().join(".") },
                v.iter().map(enc_phrase).collect::<Vec<_>>().join("/")
            )
        })
        .collect();
    if parts.is_empty() { "-".into() } else { parts.join(";") }
}

fn enc_interval(iv: &Interval) -> String {
    format!("{}.{}.{}.{}", iv.start, iv.end, if iv.is_phrase { 1 } else { 0 }, &hx(&iv.str)[1..])
}

fn enc_intervals(ivs: &[Interval]) -> String {
    if ivs.is_empty() { "-".into() } else { ivs.iter().map(enc_interval).collect::<Vec<_>>().join(";") }
}

fn enc_symbols(c: &Composition) -> String {
    if c.is_empty() {
        return "-".into();
    }
    c.symbols()
        .iter()
        .map(|s| match s {
            Symbol::Syllable(s) => format!("s{}", s.to_u16()),
            Symbol::Char(ch) => format!("c{}", *ch as u32),
        })
        .collect::<Vec<_>>()
        .join(",")
}

fn enc_gaps(c: &Composition) -> String {
    if c.is_empty() {
        return "-".into();
    }
    (0..c.len())
        .map(|i| match c.gap(i).unwrap() {
            Gap::Begin => 'b',
            Gap::Break => 'k',
            Gap::Glue => 'g',
            Gap::Normal => 'n',
        })
        .collect()
}

fn enc_kpaths(k: &[Vec<(usize, usize)>]) -> String {
    if k.is_empty() {
        return "-".into();
    }
    k.iter()
        .map(|p| if p.is_empty() { "e".to_string() } else { p.iter().map(|(s, e)| format!("{}-{}", s, e)).collect::<Vec<_>>().join(",") })
        .collect::<Vec<_>>()
        .join(";")
}

thread_local! { static LAST_PANIC: RefCell<String> = RefCell::new(String::new()); }
thread_local! { static LAST_PANIC_FILE: RefCell<String> = RefCell::new(String::new()); }

fn panic_class(msg: &str) -> &'static str {
    if msg.contains("on a `None` value") {
        "nopath"
    } else if msg.contains("subtract with overflow") {
        "sub"
    } else if msg.contains("out of bounds") || msg.contains("out of range") {
        "index"
    } else if msg.contains("assertion") {
        "assert"
    } else if msg.contains("overflow") || msg.contains("should fit") || msg.contains("should be small") {
        "score"
    } else {
        "other"
    }
}

// ---------------------------------------------------------------- generators

const SYL_POOL: [&str; 8] = ["ㄘㄜˋ", "ㄕˋ", "ㄧˊ", "ㄒㄧㄚˋ", "ㄏㄚ", "ㄍㄨㄛˊ", "ㄇㄧㄣˊ", "ㄒㄧㄣ"];
const HAN: [char; 14] = ['測', '冊', '策', '試', '是', '一', '下', '哈', '國', '民', '新', '心', '酷', '音'];
const CHARS: [char; 6] = ['a', 'Z', '1', '，', 'Ａ', '!'];
const FREQS: [u32; 12] = [0, 1, 1, 2, 5, 100, 100, 511, 512, 513, 1024, 9318];

fn syl(s: &str) -> Syllable {
    s.parse().unwrap()
}

/// prefixes of a full syllable that are themselves syllables (for the fuzzy engine)
fn partials(s: &str) -> Vec<Syllable> {
    let cs: Vec<char> = s.chars().collect();
    (1..cs.len()).map(|n| syl(&cs[..n].iter().collect::<String>())).collect()
}

struct GenDict {
    kind: &'static str,
    dict: Box<dyn Dictionary>,
    alphabet: Vec<&'static str>,
    /// keys that have entries (for picking selection texts)
    entries: Vec<(Vec<Syllable>, Phrase)>,
}

fn han_text(rng: &mut Rng, n: usize) -> String {
    (0..n).map(|_| *rng.pick(&HAN)).collect()
}

fn gen_entries(rng: &mut Rng, alphabet: &[&'static str], full: bool, big_freq: bool) -> Vec<(Vec<Syllable>, Phrase)> {
    let mut out: Vec<(Vec<Syllable>, Phrase)> = vec![];
    let freq = |rng: &mut Rng| -> u32 {
        if big_freq && rng.chance(1, 3) { *rng.pick(&[1_000_000_000u32, 2_147_483_647, 2_147_480_000, 4_000_000_000]) } else { *rng.pick(&FREQS) }
    };
    for s in alphabet {
        if !full && rng.chance(1, 3) {
            continue; // a syllable without a word (HasWord violated: stream `noword`)
        }
        for _ in 0..rng.range(1, 4) {
            out.push((vec![syl(s)], Phrase::new(han_text(rng, 1), freq(rng))));
        }
    }
    let mut keys: Vec<Vec<&'static str>> = vec![];
    let n_keys = if rng.chance(1, 2) { rng.range(0, 6) } else { rng.range(6, 16) };
    for _ in 0..n_keys {
        let key: Vec<&'static str> = if !keys.is_empty() && rng.chance(1, 3) {
            // extend an existing key: phrases that are prefixes of others
            let mut k = rng.pick(&keys).clone();
            if k.len() < 4 {
                k.push(*rng.pick(alphabet));
            }
            k
        } else {
            (0..rng.range(2, 4)).map(|_| *rng.pick(alphabet)).collect()
        };
        keys.push(key.clone());
        for _ in 0..rng.range(1, 3) {
            out.push((key.iter().map(|s| syl(s)).collect(), Phrase::new(han_text(rng, key.len()), freq(rng))));
        }
    }
    out
}

fn build_triebuf(entries: &[(Vec<Syllable>, Phrase)]) -> TrieBuf {
    let mut d = TrieBuf::new_in_memory();
    for (k, p) in entries {
        let _ = d.add_phrase(&k.as_slice(), p.clone());
    }
    d
}

fn build_trie(entries: &[(Vec<Syllable>, Phrase)]) -> Box<dyn Dictionary> {
    let mut b = TrieBuilder::new();
    for (k, p) in entries {
        b.insert(k, p.clone()).unwrap();
    }
    let mut bytes = vec![];
    b.write(&mut bytes).unwrap();
    Box::new(TrieOpenOptions::new().fuzzy_search(true).read_from(&bytes[..]).unwrap())
}

fn gen_dict(rng: &mut Rng, full: bool, big_freq: bool, dense: bool) -> GenDict {
    let mut pool: Vec<&'static str> = SYL_POOL.to_vec();
    let n = if dense { rng.range(1, 2) as usize } else { rng.weighted(&[0, 5, 35, 30, 20, 10]) };
    let mut alphabet = vec![];
    for _ in 0..n {
        alphabet.push(pool.swap_remove(rng.below(pool.len() as u64) as usize));
    }
    let mut entries = gen_entries(rng, &alphabet, full, big_freq);
    if dense {
        // every key of length 2 and most of length 3 over the tiny alphabet: up to 100 paths, long candidate lists
        let mut keys: Vec<Vec<&'static str>> = vec![];
        for a in &alphabet {
            for b in &alphabet {
                keys.push(vec![*a, *b]);
                for c in &alphabet {
                    if rng.chance(3, 4) {
                        keys.push(vec![*a, *b, *c]);
                    }
                }
            }
        }
        for k in keys {
            entries.push((k.iter().map(|s| syl(s)).collect(), Phrase::new(han_text(rng, k.len()), *rng.pick(&FREQS))));
        }
    }
    let (kind, dict): (&'static str, Box<dyn Dictionary>) = match rng.below(3) {
        0 => ("triebuf", Box::new(build_triebuf(&entries))),
        1 => ("trie", build_trie(&entries)),
        _ => {
            // system trie + user layer with a few extra / overriding entries
            let cut = entries.len() * 2 / 3;
            let mut user = build_triebuf(&entries[cut..]);
            if !entries.is_empty() && rng.chance(1, 2) {
                let (k, p) = rng.pick(&entries).clone();
                let _ = user.update_phrase(&k.as_slice(), p, *rng.pick(&FREQS), 7);
            }
            let sys = if full { build_trie(&entries) } else { build_trie(&entries[..cut]) };
            ("layered", Box::new(Layered::new(vec![sys], Box::new(user))))
        }
    };
    GenDict { kind, dict, alphabet, entries }
}

#[derive(Clone, Copy, PartialEq)]
enum Invalid {
    None,
    CoverChar,
    EmptyRange,
    Inverted,
    WrongLen,
}

struct GenComp {
    comp: Composition,
    ops: Vec<String>,
}

fn gen_comp(rng: &mut Rng, gd: &GenDict, max_len: usize, fuzzy_partials: bool, invalid: Invalid, dense: bool) -> GenComp {
    let mut comp = Composition::new();
    let mut ops = vec![];
    let n = match rng.below(10) {
        _ if dense => rng.range(8, max_len as i64) as usize,
        0 => rng.range(0, 1) as usize,
        1..=6 => rng.range(2, 7.min(max_len as i64)) as usize,
        _ => rng.range(5.min(max_len as i64), max_len as i64) as usize,
    };
    let gen_sym = |rng: &mut Rng| -> Symbol {
        if rng.chance(if dense { 1 } else { 3 }, 20) {
            Symbol::Char(*rng.pick(&CHARS))
        } else {
            let s = *rng.pick(&gd.alphabet);
            if fuzzy_partials && rng.chance(1, 3) {
                let ps = partials(s);
                if ps.is_empty() { Symbol::Syllable(syl(s)) } else { Symbol::Syllable(*rng.pick(&ps)) }
            } else {
                Symbol::Syllable(syl(s))
            }
        }
    };
    let multi: Vec<&Vec<Syllable>> = gd.entries.iter().map(|(k, _)| k).filter(|k| k.len() > 1).collect();
    if !multi.is_empty() && rng.chance(1, 2) {
        // concatenate dictionary keys (overlapping phrases -> several non-nested segmentations)
        while comp.len() < n {
            if rng.chance(1, 5) {
                let s = gen_sym(rng);
                comp.push(s);
            } else {
                let k = *rng.pick(&multi);
                let from = if rng.chance(1, 4) { rng.below(k.len() as u64) as usize } else { 0 };
                for s in &k[from..] {
                    if comp.len() < n {
                        comp.push(Symbol::Syllable(*s));
                    }
                }
            }
        }
    } else {
        for _ in 0..n {
            let s = gen_sym(rng);
            comp.push(s);
        }
    }
    if invalid == Invalid::CoverChar && !comp.symbols().iter().any(|s| s.is_char()) && n > 0 {
        let i = rng.below(n as u64) as usize;
        comp.replace(i, Symbol::Char('a'));
    }
    let n_ops = if dense { rng.range(0, 2) } else { rng.range(0, 6) };
    for _ in 0..n_ops {
        if comp.is_empty() {
            break;
        }
        let len = comp.len();
        match rng.weighted(&[30, 30, 5, 35, 4, 4, 3, 2]) {
            0 => {
                let i = rng.below(len as u64) as usize;
                comp.set_gap(i, Gap::Break);
                ops.push(format!("brk{}", i));
            }
            1 => {
                let i = rng.below(len as u64) as usize;
                comp.set_gap(i, Gap::Glue);
                ops.push(format!("glue{}", i));
            }
            2 => {
                let i = rng.below(len as u64) as usize;
                comp.set_gap(i, Gap::Normal);
                ops.push(format!("norm{}", i));
            }
            3 => {
                // a valid selection: a run of syllables, text of matching length
                let s = rng.below(len as u64) as usize;
                let mut e = s;
                let want = rng.weighted(&[40, 35, 15, 10]) + 1;
                while e < len && e - s < want && comp.symbol(e).unwrap().is_syllable() {
                    e += 1;
                }
                if e > s {
                    let key: Vec<Syllable> = (s..e).map(|i| comp.symbol(i).unwrap().to_syllable().unwrap()).collect();
                    let cands: Vec<&Phrase> = gd.entries.iter().filter(|(k, _)| *k == key).map(|(_, p)| p).collect();
                    let text = if !cands.is_empty() && rng.chance(7, 10) { rng.pick(&cands).as_str().to_string() } else { han_text(rng, e - s) };
                    ops.push(format!("sel{}-{}", s, e));
                    comp.push_selection(Interval { start: s, end: e, is_phrase: true, str: text.into() });
                }
            }
            4 => {
                let i = rng.below(len as u64 + 1) as usize;
                let s = gen_sym(rng);
                if comp.len() < max_len {
                    comp.insert(i, s);
                    ops.push(format!("ins{}", i));
                }
            }
            5 => {
                let i = rng.below(len as u64) as usize;
                comp.remove(i);
                ops.push(format!("rm{}", i));
            }
            6 => {
                let i = rng.below(len as u64) as usize;
                let s = gen_sym(rng);
                if invalid != Invalid::CoverChar {
                    comp.replace(i, s);
                    ops.push(format!("rep{}", i));
                }
            }
            _ => {
                let k = rng.below(len as u64 / 2 + 1) as usize;
                comp.remove_front(k);
                ops.push(format!("front{}", k));
            }
        }
    }
    // the invalid shapes the public `push_selection` accepts (F31), pushed last
    if !comp.is_empty() {
        let len = comp.len();
        match invalid {
            Invalid::None => {}
            Invalid::CoverChar => {
                if let Some(i) = comp.symbols().iter().position(|s| s.is_char()) {
                    let s = if i > 0 && rng.chance(1, 2) { i - 1 } else { i };
                    let e = (i + 1 + rng.below(2) as usize).min(len);
                    comp.push_selection(Interval { start: s, end: e, is_phrase: true, str: han_text(rng, e - s).into() });
                    ops.push(format!("BADsel-char{}-{}", s, e));
                }
            }
            Invalid::EmptyRange => {
                let s = rng.below(len as u64 + 1) as usize;
                let text = if rng.chance(1, 2) { String::new() } else { han_text(rng, 1) };
                comp.push_selection(Interval { start: s, end: s, is_phrase: true, str: text.into() });
                ops.push(format!("BADsel-empty{}", s));
            }
            Invalid::Inverted => {
                let e = rng.below(len as u64) as usize;
                let s = e + 1 + rng.below(2) as usize;
                comp.push_selection(Interval { start: s, end: e, is_phrase: true, str: han_text(rng, 1).into() });
                ops.push(format!("BADsel-inv{}-{}", s, e));
            }
            Invalid::WrongLen => {
                let s = rng.below(len as u64) as usize;
                let e = (s + 1 + rng.below(2) as usize).min(len);
                let k = if rng.chance(1, 2) { e - s + 1 + rng.below(2) as usize } else { (e - s).saturating_sub(1) };
                comp.push_selection(Interval { start: s, end: e, is_phrase: true, str: han_text(rng, k).into() });
                ops.push(format!("BADsel-len{}-{}:{}", s, e, k));
            }
        }
    }
    GenComp { comp, ops }
}

// ---------------------------------------------------------------- the property, evaluated on the real output

fn all_syllables(comp: &Composition, s: usize, e: usize) -> Option<Vec<Syllable>> {
    (s..e).map(|i| comp.symbol(i).and_then(|x| x.to_syllable())).collect()
}

/// can `text` for `[s, e)` be obtained from dictionary phrases for exactly the covered syllables and
/// exact-range selections, concatenated across Glue gaps only?
fn provenance_ok(dict: &dyn Dictionary, strat: LookupStrategy, comp: &Composition, s: usize, e: usize, text: &[char]) -> bool {
    if text.len() != e - s {
        return false;
    }
    let piece_ok = |a: usize, b: usize| -> bool {
        let t: String = text[a - s..b - s].iter().collect();
        if comp.selections().iter().any(|x| x.start == a && x.end == b && *x.str == *t) {
            return true;
        }
        match all_syllables(comp, a, b) {
            Some(key) => dict.lookup_all_phrases(&key.as_slice(), strat).iter().any(|p| p.as_str() == t),
            None => false,
        }
    };
    // reach[m] = [s, m) is explained
    let mut reach = vec![false; e - s + 1];
    reach[0] = true;
    for m in s + 1..=e {
        for a in s..m {
            if reach[a - s] && (a == s || comp.gap(a) == Some(Gap::Glue)) && piece_ok(a, m) {
                reach[m - s] = true;
                break;
            }
        }
    }
    reach[e - s]
}

struct Verdict {
    c03: Vec<String>,
    c04: Vec<String>,
}

fn check_alternative(dict: &dyn Dictionary, strat: LookupStrategy, comp: &Composition, alt: &[Interval], v: &mut Verdict, k: usize) {
    let len = comp.len();
    // tiling
    let mut pos = 0;
    let mut tiled = true;
    for iv in alt {
        if iv.start != pos || iv.end <= iv.start {
            tiled = false;
            break;
        }
        pos = iv.end;
    }
    if !tiled || pos != len {
        v.c03.push(format!("alt#{} does not tile 0..{}", k, len));
    }
    for iv in alt {
        let chars: Vec<char> = iv.str.chars().collect();
        if iv.end >= iv.start && chars.len() != iv.end - iv.start {
            v.c03.push(format!("alt#{} interval {}..{} has {} characters", k, iv.start, iv.end, chars.len()));
        }
        if iv.is_phrase {
            if iv.end > iv.start && iv.end <= len && !provenance_ok(dict, strat, comp, iv.start, iv.end, &chars) {
                v.c03.push(format!("alt#{} interval {}..{} text {} is neither a dictionary phrase for the covered syllables nor a selection", k, iv.start, iv.end, iv.str));
            }
        } else if !(iv.end == iv.start + 1 && comp.symbol(iv.start).and_then(|s| s.to_char()).map(|c| c.to_string()) == Some(iv.str.to_string())) {
            v.c03.push(format!("alt#{} non-phrase interval {}..{} is not the character symbol at its position", k, iv.start, iv.end));
        }
    }
    // display = concatenation; character symbols verbatim at their own position
    let display: Vec<char> = alt.iter().flat_map(|iv| iv.str.chars()).collect();
    if display.len() != len {
        v.c03.push(format!("alt#{} display has {} characters for {} symbols", k, display.len(), len));
    }
    for (i, s) in comp.symbols().iter().enumerate() {
        if let Symbol::Char(c) = s {
            if display.get(i) != Some(c) {
                v.c03.push(format!("alt#{} character symbol {:?} at {} is not shown verbatim", k, c, i));
            }
            if !alt.iter().any(|iv| iv.start == i && iv.end == i + 1 && !iv.is_phrase) {
                v.c03.push(format!("alt#{} character symbol at {} has no interval of its own", k, i));
            }
        }
    }
    // C04 (conversion half)
    for sel in comp.selections() {
        let shown: String = display.iter().skip(sel.start).take(sel.end.saturating_sub(sel.start)).collect();
        if *shown != *sel.str {
            v.c04.push(format!("alt#{} selection {}..{} {} is shown as {}", k, sel.start, sel.end, sel.str, shown));
        }
    }
    for i in 0..len {
        if comp.gap(i) == Some(Gap::Break) && alt.iter().any(|iv| iv.start < i && i < iv.end) {
            v.c04.push(format!("alt#{} an interval spans the break at {}", k, i));
        }
    }
}

/// the engine sees no word at all for this syllable (`HasWord` fails at it)
fn wordless(dict: &dyn Dictionary, eng: Eng, s: Syllable) -> bool {
    match eng {
        Eng::Simple => dict.lookup_first_phrase(&[s].as_slice(), LookupStrategy::Standard).is_none(),
        _ => dict.lookup_all_phrases(&[s].as_slice(), eng.strat()).is_empty(),
    }
}

/// the exact text shape for *every* dictionary (`ProvS` / `SpelledText` of Props/C03.lean): `text` over
/// `[s, e)` is a concatenation — across Glue gaps only, and never for the simple engine — of pieces, each an
/// exact-range selection, a dictionary phrase for exactly the covered syllables, or the fallback: one
/// word-less syllable that no selection covers, shown as exactly its spelling (`Syllable::to_string()`)
fn shape_ok(dict: &dyn Dictionary, eng: Eng, comp: &Composition, s: usize, e: usize, text: &[char]) -> bool {
    let candidates = |a: usize, b: usize| -> Vec<Vec<char>> {
        let mut c: Vec<Vec<char>> = comp.selections().iter().filter(|x| x.start == a && x.end == b).map(|x| x.str.chars().collect()).collect();
        if let Some(key) = all_syllables(comp, a, b) {
            match eng {
                Eng::Simple => {
                    if b == a + 1 {
                        if let Some(p) = dict.lookup_first_phrase(&key.as_slice(), LookupStrategy::Standard) {
                            c.push(p.as_str().chars().collect());
                        }
                    }
                }
                _ => c.extend(dict.lookup_all_phrases(&key.as_slice(), eng.strat()).iter().map(|p| p.as_str().chars().collect::<Vec<char>>())),
            }
            if b == a + 1 && wordless(dict, eng, key[0]) && !comp.selections().iter().any(|x| x.start < b && a < x.end) {
                c.push(key[0].to_string().chars().collect());
            }
        }
        c
    };
    // reach[m - s] = the text offsets at which `[s, m)` is explained
    let mut reach: Vec<BTreeSet<usize>> = vec![BTreeSet::new(); e - s + 1];
    reach[0].insert(0);
    for m in s + 1..=e {
        for a in s..m {
            if reach[a - s].is_empty() || !(a == s || (eng != Eng::Simple && comp.gap(a) == Some(Gap::Glue))) {
                continue;
            }
            let cands = candidates(a, m);
            let offs: Vec<usize> = reach[a - s].iter().copied().collect();
            for off in offs {
                for c in &cands {
                    if text[off..].starts_with(c) {
                        reach[m - s].insert(off + c.len());
                    }
                }
            }
        }
    }
    reach[e - s].contains(&text.len())
}

/// what C03 / C04 claim for every dictionary (`Holds.live` / `Holds.tiling` of Props/C03.lean), evaluated on
/// a composition with a word-less syllable: tiling, verbatim non-syllables, the exact text shape, selections
/// kept whole, breaks not spanned
fn check_alternative_any_dict(dict: &dyn Dictionary, eng: Eng, comp: &Composition, alt: &[Interval], v: &mut Verdict, k: usize) {
    let len = comp.len();
    let mut pos = 0;
    let mut tiled = true;
    for iv in alt {
        if iv.start != pos || iv.end <= iv.start {
            tiled = false;
            break;
        }
        pos = iv.end;
    }
    if !tiled || pos != len {
        v.c03.push(format!("alt#{} does not tile 0..{}", k, len));
    }
    for iv in alt {
        let chars: Vec<char> = iv.str.chars().collect();
        if iv.is_phrase {
            if iv.end > iv.start && iv.end <= len && !shape_ok(dict, eng, comp, iv.start, iv.end, &chars) {
                v.c03.push(format!("alt#{} interval {}..{} text {} is not made of dictionary phrases for the covered syllables, selections and spellings of word-less unselected syllables", k, iv.start, iv.end, iv.str));
            }
        } else if !(iv.end == iv.start + 1 && comp.symbol(iv.start).and_then(|s| s.to_char()).map(|c| c.to_string()) == Some(iv.str.to_string())) {
            v.c03.push(format!("alt#{} non-phrase interval {}..{} is not the character symbol at its position", k, iv.start, iv.end));
        }
    }
    for (i, s) in comp.symbols().iter().enumerate() {
        if let Symbol::Char(c) = s {
            if !alt.iter().any(|iv| iv.start == i && iv.end == i + 1 && !iv.is_phrase && iv.str.chars().eq(std::iter::once(*c))) {
                v.c03.push(format!("alt#{} character symbol {:?} at {} has no verbatim interval of its own", k, c, i));
            }
        }
    }
    for sel in comp.selections() {
        if !alt.iter().any(|iv| iv.start <= sel.start && sel.end <= iv.end) {
            v.c04.push(format!("alt#{} selection {}..{} {} is split over several intervals", k, sel.start, sel.end, sel.str));
        }
    }
    for i in 0..len {
        if comp.gap(i) == Some(Gap::Break) && alt.iter().any(|iv| iv.start < i && i < iv.end) {
            v.c04.push(format!("alt#{} an interval spans the break at {}", k, i));
        }
    }
}

// ---------------------------------------------------------------- driver

#[derive(Clone, Copy, PartialEq)]
enum Eng {
    Chewing,
    Simple,
    Fuzzy,
}

impl Eng {
    fn name(self) -> &'static str {
        match self {
            Eng::Chewing => "chewing",
            Eng::Simple => "simple",
            Eng::Fuzzy => "fuzzy",
        }
    }
    fn strat(self) -> LookupStrategy {
        match self {
            Eng::Fuzzy => LookupStrategy::FuzzyPartialPrefix,
            _ => LookupStrategy::Standard,
        }
    }
}

struct Stats {
    m: BTreeMap<String, u64>,
    /// oracle verdicts, emitted at the end smallest input first (so a replay file opens with a small witness)
    verdicts: Vec<(&'static str, String, String)>,
}
impl Stats {
    fn inc(&mut self, k: &str) {
        *self.m.entry(k.to_string()).or_insert(0) += 1;
    }
    fn add(&mut self, k: &str, n: u64) {
        *self.m.entry(k.to_string()).or_insert(0) += n;
    }
}

fn describe(eng: Eng, gd: &GenDict, gc: &GenComp) -> String {
    let dict: Vec<String> = gd
        .dict
        .entries()
        .map(|(k, p)| format!("{}={}:{}", k.iter().map(|s| s.to_string()).collect::<Vec<_>>().join("+"), p.as_str(), p.freq()))
        .collect();
    format!(
        "engine={} dict({})=[{}] symbols={:?} gaps={} selections={:?} built-by={}",
        eng.name(),
        gd.kind,
        dict.join(" "),
        gc.comp.symbols(),
        enc_gaps(&gc.comp),
        gc.comp.selections(),
        gc.ops.join(",")
    )
    .replace('\n', " ")
}

fn has_word(dict: &dyn Dictionary, eng: Eng, comp: &Composition) -> bool {
    comp.symbols().iter().all(|s| match s {
        Symbol::Syllable(s) => match eng {
            Eng::Simple => dict.lookup_first_phrase(&[*s].as_slice(), LookupStrategy::Standard).is_some(),
            _ => !dict.lookup_all_phrases(&[*s].as_slice(), eng.strat()).is_empty(),
        },
        Symbol::Char(_) => true,
    })
}

/// the precondition `CompValid` of the theorems, evaluated on the composition *state*
fn comp_valid(comp: &Composition) -> bool {
    let len = comp.len();
    let sels = comp.selections();
    for s in sels {
        if !(s.start < s.end && s.end <= len) {
            return false;
        }
        if s.str.chars().count() != s.end - s.start {
            return false;
        }
        if !(s.start..s.end).all(|i| comp.symbol(i).unwrap().is_syllable()) {
            return false;
        }
        if (s.start + 1..s.end).any(|i| comp.gap(i) == Some(Gap::Break)) {
            return false;
        }
    }
    for (i, a) in sels.iter().enumerate() {
        for b in &sels[i + 1..] {
            if a.intersect(b) {
                return false;
            }
        }
    }
    true
}

fn well_formed_on(dict: &dyn Dictionary, strat: LookupStrategy, comp: &Composition) -> bool {
    let len = comp.len();
    for s in 0..len {
        for e in s + 1..=len {
            if let Some(key) = all_syllables(comp, s, e) {
                if dict.lookup_all_phrases(&key.as_slice(), strat).iter().any(|p| p.as_str().chars().count() != e - s) {
                    return false;
                }
            }
        }
    }
    true
}

fn run_case(out: &mut Out, st: &mut Stats, stream: &str, eng: Eng, gd: &GenDict, gc: &GenComp, oracle_class: Option<&str>) {
    let comp = &gc.comp;
    let rec = Rec { inner: gd.dict.as_ref(), log: RefCell::new(Table::new()) };
    // every key the engine can ask, so the model never sees a hole in the table
    let len = comp.len();
    for s in 0..len {
        for e in s + 1..=len {
            if let Some(key) = all_syllables(comp, s, e) {
                if eng != Eng::Simple {
                    rec.lookup_all_phrases(&key.as_slice(), eng.strat());
                }
            }
        }
    }
    if eng != Eng::Simple {
        rec.lookup_all_phrases(&(&[] as &[Syllable]), eng.strat());
    }
    let kpaths = match eng {
        Eng::Simple => Ok(vec![]),
        _ => catch_unwind(AssertUnwindSafe(|| ChewingEngine::verif_with_strategy(eng.strat()).verif_k_paths(&rec, comp))),
    };
    let result = catch_unwind(AssertUnwindSafe(|| -> Vec<Vec<Interval>> {
        match eng {
            Eng::Chewing => ConversionEngine::convert(&ChewingEngine::new(), &rec, comp).collect(),
            Eng::Simple => ConversionEngine::convert(&SimpleEngine::new(), &rec, comp).collect(),
            Eng::Fuzzy => ConversionEngine::convert(&FuzzyChewingEngine::new(), &rec, comp).collect(),
        }
    }));
    let table = enc_table(&rec.log.borrow());
    let sels = enc_intervals(comp.selections());
    let kp = match &kpaths {
        Ok(k) => enc_kpaths(k),
        Err(_) => "-".into(),
    };
    let rhs = match &result {
        Ok(alts) => {
            let mut s = format!("ok {}", alts.len());
            for a in alts.iter().take(CAP) {
                s.push(' ');
                s.push_str(&enc_intervals(a));
            }
            s
        }
        Err(_) => format!("panic:{}", panic_class(&LAST_PANIC.with(|m| m.borrow().clone()))),
    };
    // records of invalid compositions (F31) carry the component tag `convx`: the model is expected to
    // predict them too, but they are outside the theorems' hypotheses and hence outside the scope of C03
    let tag = if stream == "invalidsel" { "convx" } else { "conv" };
    out.rec(&format!("{} {} {} {} {} {} {} {} => {}", tag, eng.name(), stream, table, enc_symbols(comp), enc_gaps(comp), sels, kp, rhs));
    st.inc(&format!("{}.{}", stream, eng.name()));
    st.inc(&format!("dict.{}", gd.kind));
    match &result {
        Ok(alts) => {
            st.inc(&format!("{}.ok", stream));
            st.add("alternatives", alts.len() as u64);
            if alts.len() > 1 {
                st.inc("multi_alternative");
            }
            if alts.len() >= 100 {
                st.inc("alternatives_100");
            }
            if alts.iter().any(|a| a.iter().any(|iv| iv.is_phrase && (iv.start + 1..iv.end).any(|i| comp.gap(i) == Some(Gap::Glue)))) {
                st.inc("with_glue_inside_interval");
            }
        }
        Err(_) => st.inc(&format!("{}.panic", stream)),
    }
    if eng == Eng::Fuzzy && stream == "valid" && comp.symbols().iter().any(|s| match s {
        Symbol::Syllable(s) => gd.dict.lookup_all_phrases(&[*s].as_slice(), LookupStrategy::Standard).is_empty(),
        _ => false,
    }) {
        st.inc("valid.fuzzy_with_partial_syllable"); // a word exists only through the fuzzy (prefix) lookup
    }
    if !comp.selections().is_empty() {
        st.inc("with_selection");
    }
    if (0..len).any(|i| comp.gap(i) == Some(Gap::Break)) {
        st.inc("with_break");
    }
    if comp.symbols().iter().any(|s| s.is_char()) {
        st.inc("with_char");
    }
    if let Ok(k) = &kpaths {
        if k.len() > 1 {
            st.inc("kpaths_gt1");
        }
        if k.len() >= 100 {
            st.inc("kpaths_100");
        }
        st.add("kpaths_total", k.len() as u64);
    }
    let class = match oracle_class {
        Some(c) => c,
        None => return,
    };
    // ---- the oracle.  Stream `valid`: inside the quantifier of the one-character clause (valid composition,
    //      a word per syllable, a well-formed dictionary): everything.  Stream `noword` (a syllable without a
    //      word, or an ill-formed phrase): what C03 claims for *every* dictionary — a result (no panic), the
    //      tiling, verbatim non-syllables, the exact text shape (one character per symbol except fallback
    //      intervals = exactly the spelling), selections kept whole, breaks not spanned.
    let any_dict = stream == "noword";
    let mut v = Verdict { c03: vec![], c04: vec![] };
    match &result {
        Err(_) => v.c03.push(format!("conversion panics ({})", LAST_PANIC.with(|m| m.borrow().clone()))),
        Ok(alts) => {
            if alts.is_empty() {
                v.c03.push("no alternative returned".into());
            }
            for (k, a) in alts.iter().enumerate() {
                if any_dict {
                    check_alternative_any_dict(gd.dict.as_ref(), eng, comp, a, &mut v, k);
                } else {
                    check_alternative(gd.dict.as_ref(), eng.strat(), comp, a, &mut v, k);
                }
            }
            if any_dict {
                st.inc("noword.oracle_evaluated");
                if alts.iter().any(|a| a.iter().any(|iv| iv.str.chars().count() != iv.end - iv.start)) {
                    st.inc(&format!("noword.spelling_shown.{}", eng.name()));
                }
                if alts.iter().any(|a| a.iter().any(|iv| iv.end > iv.start + 1 && iv.str.chars().count() != iv.end - iv.start)) {
                    st.inc("noword.spelling_glued");
                }
            }
        }
    }
    st.inc("oracle_evaluated");
    if let Some(first) = v.c03.first() {
        st.verdicts.push(("C03", class.to_string(), format!("{} ({} failures) :: {}", first, v.c03.len(), describe(eng, gd, gc))));
    }
    if let Some(first) = v.c04.first() {
        st.verdicts.push(("C04", class.to_string(), format!("{} ({} failures) :: {}", first, v.c04.len(), describe(eng, gd, gc))));
        // C03 discharges these obligations of C04: report under C03 as well so that its check fails
        st.verdicts.push(("C03", class.to_string(), format!("[C04 half] {} :: {}", first, describe(eng, gd, gc))));
    }
}

// ---------------------------------------------------------------- editor histories (oracle only)

/// key sequence of the default (Standard / DaChen) layout for a syllable of SYL_POOL
fn keys_of(s: &str) -> &'static [u8] {
    match s {
        "ㄘㄜˋ" => b"hk4",
        "ㄕˋ" => b"g4",
        "ㄧˊ" => b"u6",
        "ㄒㄧㄚˋ" => b"vu84",
        "ㄏㄚ" => b"c8 ",
        "ㄍㄨㄛˊ" => b"eji6",
        "ㄇㄧㄣˊ" => b"aup6",
        "ㄒㄧㄣ" => b"vup ",
        _ => b"",
    }
}

/// C03 on what the editor reports after a key: `Editor::intervals` tile `0..Editor::len`, one character
/// per symbol, non-syllable symbols verbatim at their own position, `Editor::display` = concatenation
fn check_editor(ed: &Editor) -> Vec<String> {
    let mut v = vec![];
    let len = ed.len();
    let ivs: Vec<Interval> = ed.intervals().collect();
    let mut pos = 0;
    let mut tiled = true;
    for iv in &ivs {
        if iv.start != pos || iv.end <= iv.start {
            tiled = false;
            break;
        }
        pos = iv.end;
    }
    if !tiled || pos != len {
        v.push(format!("intervals {:?} do not tile 0..{}", ivs, len));
    }
    for iv in &ivs {
        if iv.end >= iv.start && iv.str.chars().count() != iv.end - iv.start {
            v.push(format!("interval {:?} has {} characters", iv, iv.str.chars().count()));
        }
    }
    let concat: String = ivs.iter().map(|iv| iv.str.to_string()).collect();
    let display = ed.display();
    if display != concat {
        v.push(format!("display {} is not the concatenation {}", display, concat));
    }
    let dchars: Vec<char> = display.chars().collect();
    for (i, s) in ed.symbols().iter().enumerate() {
        if let Symbol::Char(c) = s {
            if dchars.get(i) != Some(c) {
                v.push(format!("character symbol {:?} at {} is not shown verbatim in {}", c, i, display));
            }
        }
    }
    v
}

fn editor_stream(_out: &mut Out, rng: &mut Rng, st: &mut Stats, n_hist: usize, max_keys: usize) {
    let kb = Qwerty;
    for _ in 0..n_hist {
        let dense = rng.chance(1, 8);
        let gd = gen_dict(rng, true, false, dense);
        // the same entries again for the editor (it owns its dictionary)
        let sys: Box<dyn Dictionary> = if rng.chance(1, 2) { build_trie(&gd.entries) } else { Box::new(build_triebuf(&gd.entries)) };
        let dict = Layered::new(vec![sys], Box::new(TrieBuf::new_in_memory()));
        let eng = *rng.pick(&[Eng::Chewing, Eng::Chewing, Eng::Simple, Eng::Fuzzy]);
        let mut ed = Editor::new(Box::new(ChewingEngine::new()), dict, LaxUserFreqEstimate::new(0), AbbrevTable::new(), SymbolSelector::default());
        let mut opts = ed.editor_options();
        match eng {
            Eng::Chewing => {}
            Eng::Simple => {
                ed.set_conversion_engine(Box::new(SimpleEngine::new()));
                opts.conversion_engine = ConversionEngineKind::SimpleEngine;
            }
            Eng::Fuzzy => {
                ed.set_conversion_engine(Box::new(FuzzyChewingEngine::new()));
                opts.lookup_strategy = LookupStrategy::FuzzyPartialPrefix;
                opts.conversion_engine = ConversionEngineKind::FuzzyChewingEngine;
            }
        }
        opts.auto_shift_cursor = rng.chance(1, 2);
        opts.phrase_choice_rearward = rng.chance(1, 2);
        opts.space_is_select_key = rng.chance(1, 4);
        opts.auto_commit_threshold = *rng.pick(&[39usize, 39, 8, 4]);
        ed.set_editor_options(opts);
        st.inc(&format!("ed.histories.{}", eng.name()));
        let mut hist: Vec<String> = vec![];
        let n_keys = rng.range(4, max_keys as i64);
        let mut keys_done = 0;
        while keys_done < n_keys {
            // one grammar step = a few key events
            let mut evs: Vec<(String, chewing::editor::keyboard::KeyEvent)> = vec![];
            match rng.weighted(&[50, 6, 14, 6, 9, 10, 2, 3]) {
                0 => {
                    let s = *rng.pick(&gd.alphabet);
                    for k in keys_of(s) {
                        evs.push((format!("{}", *k as char), kb.map_ascii(*k)));
                    }
                }
                1 => {
                    let k = *rng.pick(&[b'!', b'?', b':', b'<', b'>', b'"']);
                    evs.push((format!("{}", k as char), kb.map_ascii(k)));
                }
                2 => {
                    let (n, k) = *rng.pick(&[("Left", KeyCode::Left), ("Right", KeyCode::Right), ("Home", KeyCode::Home), ("End", KeyCode::End)]);
                    evs.push((n.into(), kb.map(k)));
                }
                3 => {
                    let (n, k) = *rng.pick(&[("Bksp", KeyCode::Backspace), ("Del", KeyCode::Del)]);
                    evs.push((n.into(), kb.map(k)));
                }
                4 => evs.push(("Tab".into(), kb.map(KeyCode::Tab))),
                5 => {
                    evs.push(("Down".into(), kb.map(KeyCode::Down)));
                    for _ in 0..rng.below(3) {
                        evs.push(("Down".into(), kb.map(KeyCode::Down)));
                    }
                    let (n, k) = *rng.pick(&[("1", KeyCode::N1), ("2", KeyCode::N2), ("3", KeyCode::N3), ("1", KeyCode::N1), ("Esc", KeyCode::Esc)]);
                    evs.push((n.into(), kb.map(k)));
                }
                6 => evs.push(("Esc".into(), kb.map(KeyCode::Esc))),
                _ => evs.push(("Enter".into(), kb.map(KeyCode::Enter))),
            }
            for (name, ev) in evs {
                hist.push(name);
                keys_done += 1;
                let r = catch_unwind(AssertUnwindSafe(|| {
                    ed.process_keyevent(ev);
                    check_editor(&ed)
                }));
                st.inc("ed.keys");
                match r {
                    Ok(fails) => {
                        if ed.is_selecting() {
                            st.inc("ed.keys_in_selecting");
                        }
                        if ed.len() >= 4 {
                            st.inc("ed.states_len_ge4");
                        }
                        let strat = eng.strat();
                        let hw = ed.symbols().iter().all(|s| match s {
                            Symbol::Syllable(s) => !gd.dict.lookup_all_phrases(&[*s].as_slice(), strat).is_empty(),
                            Symbol::Char(_) => true,
                        });
                        if !hw {
                            st.inc("ed.states_noword");
                        } else if let Some(f) = fails.first() {
                            st.verdicts.push(("C03", "new".to_string(), format!("editor: {} ({} failures) :: engine={} dict=[{}] keys={}", f, fails.len(), eng.name(),
                                gd.dict.entries().map(|(k, p)| format!("{}={}:{}", k.iter().map(|s| s.to_string()).collect::<Vec<_>>().join("+"), p.as_str(), p.freq())).collect::<Vec<_>>().join(" "),
                                hist.join(" "))));
                            keys_done = n_keys;
                            break;
                        }
                    }
                    Err(_) => {
                        let file = LAST_PANIC_FILE.with(|m| m.borrow().clone());
                        let msg = LAST_PANIC.with(|m| m.borrow().clone());
                        if file.contains("conversion") {
                            st.verdicts.push(("C03", "new".to_string(), format!("editor: conversion panics ({} at {}) :: engine={} keys={}", msg, file, eng.name(), hist.join(" "))));
                        } else {
                            st.inc("ed.other_panic"); // not a conversion panic: belongs to C01
                        }
                        keys_done = n_keys;
                        break;
                    }
                }
            }
        }
    }
}

fn main() {
    std::panic::set_hook(Box::new(|info| {
        let msg = if let Some(s) = info.payload().downcast_ref::<&str>() {
            s.to_string()
        } else if let Some(s) = info.payload().downcast_ref::<String>() {
            s.clone()
        } else {
            "?".to_string()
        };
        LAST_PANIC.with(|m| *m.borrow_mut() = msg);
        LAST_PANIC_FILE.with(|m| *m.borrow_mut() = info.location().map(|l| l.file().to_string()).unwrap_or_default());
    }));
    let mut out = Out::new();
    let mut rng = Rng::new(seed_from_env());
    let thorough = tier_is_thorough();
    let n_dicts: usize = if thorough { 80000 } else { 5000 };
    let comps_per_dict = 4;
    let max_len = if thorough { 24 } else { 12 };
    let mut st = Stats { m: BTreeMap::new(), verdicts: vec![] };
    let engines = [Eng::Chewing, Eng::Simple, Eng::Fuzzy];
    let mut samples = 0;
    for di in 0..n_dicts {
        // stream selection per dictionary
        let kind = rng.weighted(&[66, 12, 12, 6, 4]);
        let (full, big) = match kind {
            0 | 4 => (true, false),
            1 => (false, false),
            2 => (true, false),
            _ => (true, true),
        };
        let dense = kind == 4;
        let gd = gen_dict(&mut rng, full, big, dense);
        for ci in 0..comps_per_dict {
            let invalid = if kind == 2 {
                *rng.pick(&[Invalid::CoverChar, Invalid::EmptyRange, Invalid::Inverted, Invalid::WrongLen])
            } else {
                Invalid::None
            };
            let fuzzy_partials = rng.chance(1, 3);
            let gc = gen_comp(&mut rng, &gd, if dense { max_len + 8 } else { max_len }, fuzzy_partials && !dense, invalid, dense);
            for eng in engines {
                if fuzzy_partials && eng != Eng::Fuzzy && kind == 0 && rng.chance(1, 2) {
                    // partial syllables have no word under the standard strategy: keep some for `noword`
                    continue;
                }
                let hw = has_word(gd.dict.as_ref(), eng, &gc.comp);
                let wf = well_formed_on(gd.dict.as_ref(), eng.strat(), &gc.comp);
                let cv = comp_valid(&gc.comp);
                // classification by *state*, not by generator intent:
                //  valid      inside the quantifier and the theorems' hypotheses: any failure is new
                //  invalidsel the composition holds a selection no engine can honour (F31: push_selection
                //             accepts it, replace() keeps one over a replaced symbol): failures are known
                //  noword     a syllable without a word (outside the quantifier of the one-character clause only:
                //             every engine shows its spelling, F30) or an ill-formed phrase: the oracle evaluates
                //             what C03 claims for every dictionary; any failure (a panic included) is new
                //  bigfreq    frequencies near i32::MAX (score arithmetic may overflow: outside FreqBound)
                let (stream, class) = match (cv, hw && wf, kind == 3) {
                    (false, _, _) => ("invalidsel", Some("F31-invalid-selection")),
                    (true, false, true) => ("noword", None), // … with frequencies outside ScoreBound
                    (true, false, false) => ("noword", Some("new")),
                    (true, true, true) => ("bigfreq", None),
                    (true, true, false) => ("valid", Some("new")),
                };
                run_case(&mut out, &mut st, stream, eng, &gd, &gc, class);
                if samples < 4 && ci == 0 && di % 50 == 0 {
                    out.sample(&describe(eng, &gd, &gc));
                    samples += 1;
                }
            }
        }
    }
    editor_stream(&mut out, &mut rng, &mut st, if thorough { 20000 } else { 1500 }, if thorough { 80 } else { 40 });
    st.verdicts.sort_by_key(|(_, class, detail)| (class != "new", detail.len()));
    for (prop, class, detail) in &st.verdicts {
        out.oracle_fail(prop, class, detail);
    }
    for (k, v) in &st.m {
        out.stat(k, v);
    }
    out.flush();
}
