//! C12: corrupt trie files never crash or hang the host.
//!
//! Every single-byte overwrite (a few values), truncation and extension of a family of small valid
//! trie files, structured index corruptions, arbitrary bytes and the known-finding witnesses are
//! opened with the real `Trie::new`; on success a few lookups (both strategies) and a full
//! `entries()` walk run — each step in a child process with a watchdog and a memory limit.
//!
//!   walk entries <index> <dataLen> <leaf table>                   => ok <n> <syls>/<phrase>… | panic | hang
//!   walk lookup  <index> <dataLen> <leaf table> <s|f> <first> <q> => ok <n> <phrase>…        | panic | hang
//!
//!   walk open b<file>                                            => ok b<index> <dataLen> | err
//!   walk validate b<index> <dataLen>                             => ok | err
//!
//! are the correspondence records for `Model/TrieWalk.lean` (`walk entries` / `walk lookup` only for files
//! `Trie::new` accepts; the decoded index table and the phrases the real `PhrasesIter` decodes per leaf are
//! exported in the record).  `walk open` is recorded for EVERY case: the byte-level model of `Trie::new`
//! (`TrieCodec.openTrie`: the DER shapes, then `validate_index`) has to predict acceptance and the decoded
//! sections; `walk validate` for every case whose index / phrase bytes the harness knows by construction
//! (`trie_doc`): `validate_index` alone.  A second phase creates input contexts (`chewing_new2`) over corrupted files placed as
//! user dictionary, system dictionary and drop-in dictionary and types a few keys.
//!
//! ORACLE: any panic / abort / watchdog timeout / allocation failure, or a lookup / enumeration
//! returning more phrases than the file holds, or `Trie::new` ACCEPTING an index that is not a tree laid
//! out parent-before-child / has a zero syllable inside a child range (the former findings F16 / F17,
//! repaired by `validate_index`) / has a node whose syllable field is not a syllable code (C13's F47: `entries()`
//! would panic at `Syllable::try_from(..).unwrap()`) -> `!oracle C12 new …`.  No known class is left: F39 (dictionary-file form:
//! a VALID file holding an entry under the empty key made every conversion abort) is repaired at the engine
//! (find_best_phrase returns None for an empty range); its witness file stays in the corpus, a context
//! over it must be created, convert and commit like over any other file, and `empty_key_entry` is a statistic
//! (`ctx_runs_over_empty_key_file`, `ctx_ok_over_empty_key_file`).
#[path = "../c12_common.rs"]
mod common;
use chewing::dictionary::{Dictionary, DictionaryBuilder, DictionaryInfo, LookupStrategy, Phrase, Trie, TrieBuilder};
use chewing::zhuyin::Syllable;
use common::*;
use std::ffi::CString;
use std::io::Write;
use std::panic::{catch_unwind, AssertUnwindSafe};
use std::path::{Path, PathBuf};
use std::time::Duration;
use vharness::*;

const CE4: u16 = 10268; // ㄘㄜˋ  (keys h k 4)
const SHI4: u16 = 8708; // ㄕˋ    (keys g 4)

fn syl(c: u16) -> Syllable {
    Syllable::try_from(c).unwrap()
}

fn build(entries: &[(&[u16], &str, u32, Option<u64>)], info: bool) -> Vec<u8> {
    let mut b = TrieBuilder::new();
    if info {
        b.set_info(DictionaryInfo {
            name: "我的詞庫".into(),
            copyright: "Unknown".into(),
            license: "Unknown".into(),
            version: "0.0.0".into(),
            software: "verif".into(),
        })
        .unwrap();
    }
    for (k, p, f, t) in entries {
        let syls: Vec<Syllable> = k.iter().map(|s| syl(*s)).collect();
        let ph = match t {
            Some(t) => Phrase::new(*p, *f).with_time(*t),
            None => Phrase::new(*p, *f),
        };
        b.insert(&syls, ph).unwrap();
    }
    let mut v = vec![];
    b.write(&mut v).unwrap();
    v
}

fn family(rng: &mut Rng, thorough: bool) -> Vec<(String, Vec<u8>)> {
    let mut v = vec![];
    v.push((
        "A".to_string(),
        build(&[(&[CE4], "測", 1, None), (&[CE4], "策", 3, None), (&[CE4, SHI4], "測試", 2, None), (&[SHI4], "試", 3, None)], false),
    ));
    v.push((
        "B".to_string(),
        build(
            &[
                (&[CE4], "策", 7, Some(300)),
                (&[CE4, SHI4], "策試", 9, Some(70000)),
                (&[CE4, SHI4, CE4], "策試策", 1, Some(5)),
                (&[CE4, 0x2208], "冊x", 0, Some(0)),
                (&[SHI4], "試", 4294967295, Some(1)),
                (&[1], "一", 2, None),
            ],
            true,
        ),
    ));
    let n = if thorough { 4 } else { 1 };
    for i in 0..n {
        let pool = [CE4, SHI4, 0x2208, 0x0208, 0x2200, 513, 0x2bed];
        let mut es: Vec<(Vec<u16>, String, u32, Option<u64>)> = vec![];
        for _ in 0..(3 + rng.below(5)) {
            let len = rng.below(4) as usize + if rng.chance(1, 8) { 0 } else { 1 };
            let k: Vec<u16> = (0..len).map(|_| *rng.pick(&pool)).collect();
            let p: String = (0..len.max(1)).map(|_| *rng.pick(&["測", "試", "a", "𠀀"])).collect();
            es.push((k, p, rng.below(1000) as u32, if rng.chance(1, 2) { Some(rng.below(100000)) } else { None }));
        }
        let refs: Vec<(&[u16], &str, u32, Option<u64>)> = es.iter().map(|e| (&e.0[..], e.1.as_str(), e.2, e.3)).collect();
        v.push((format!("R{}", i), build(&refs, rng.chance(1, 2))));
    }
    v
}

#[derive(Clone)]
struct Case {
    what: String,
    bytes: Vec<u8>,
    /// (index bytes, phrase bytes) when the file was assembled from them by `trie_doc`
    parts: Option<(Vec<u8>, Vec<u8>)>,
    /// the corruption is known to put a non-zero value that is not a syllable code into the syllable field of a
    /// record other than the root (`validate_index` must reject the file: "invalid syllable")
    bad_syl: bool,
}

fn doc_case(what: String, idx: &[u8], data: &[u8]) -> Case {
    let bad_syl = invalid_syllable_node(&parse_index(idx));
    Case { what, bytes: trie_doc(idx, data), parts: Some((idx.to_vec(), data.to_vec())), bad_syl }
}

/// offset and length of the index OCTET STRING contents in a file built by `TrieBuilder`
fn index_span(file: &[u8]) -> (usize, usize) {
    let t = Trie::new(file).unwrap();
    let (idx, _) = trie_parts(&t).unwrap();
    let pos = file.windows(idx.len()).position(|w| w == &idx[..]).unwrap();
    (pos, idx.len())
}

fn phrase_rec(text: &[u8], freq: u8) -> Vec<u8> {
    let mut c = tlv(0x0c, text);
    c.extend([2u8, 1, freq]);
    tlv(0x30, &c)
}

fn witnesses() -> Vec<Case> {
    let mut v = vec![];
    // F16 (cycle): a node whose child range is itself
    let data = phrase_rec("測".as_bytes(), 1);
    let mut idx = vec![];
    idx.extend(rec8(1, 1, 0));
    idx.extend(rec8(1, 1, CE4));
    v.push(doc_case("witness-F16-self-loop".into(), &idx, &data));
    // F16 (thread blow-up, cyclic): N records, every one with child range [0, N); record 0 doubles as
    // the leaf of every node.  `lookup([s; k])` returns (N-1)^k copies of the single phrase.
    let n = 16u16;
    let data = phrase_rec("測測測".as_bytes(), 1);
    assert_eq!(data.len(), 16);
    let mut idx = vec![];
    idx.extend(rec8(0, n, 0));
    for _ in 1..n {
        idx.extend(rec8(0, n, CE4));
    }
    v.push(doc_case("witness-F16-blowup-cyclic".into(), &idx, &data));
    // F16 (thread blow-up, no cycle): 3 layers of 6 nodes, every node of a layer pointing at the
    // whole next layer; 6^3 threads / enumeration paths for one stored phrase.
    let (w, layers) = (6u32, 3u32);
    let mut idx = vec![];
    idx.extend(rec8(1, w as u16, 0));
    for l in 0..layers {
        for _ in 0..w {
            if l + 1 < layers {
                idx.extend(rec8(1 + (l + 1) * w, w as u16, CE4));
            } else {
                idx.extend(rec8(1 + layers * w, 1, CE4));
            }
        }
    }
    idx.extend(rec8(0, data.len() as u16, 0));
    v.push(doc_case("witness-F16-blowup-layered".into(), &idx, &data));
    // F17: zero syllable at a non-first child position — second child (descend path) …
    let d1 = phrase_rec("測".as_bytes(), 1);
    let mut idx = vec![];
    idx.extend(rec8(1, 1, 0)); // 0 root -> [1,2)
    idx.extend(rec8(2, 2, CE4)); // 1 -> [2,4)
    idx.extend(rec8(0, d1.len() as u16, 0)); // 2 leaf
    idx.extend(rec8(4, 1, 0)); // 3 zero-syllable "node" -> [4,5)
    idx.extend(rec8(0, d1.len() as u16, 0)); // 4 leaf
    v.push(doc_case("witness-F17-second-child".into(), &idx, &d1));
    // … and a later sibling (ascend path, `debug_assert_ne!`)
    let mut idx = vec![];
    idx.extend(rec8(1, 2, 0)); // 0 root -> [1,3)
    idx.extend(rec8(3, 1, CE4)); // 1 -> [3,4)
    idx.extend(rec8(3, 1, 0)); // 2 zero-syllable sibling
    idx.extend(rec8(0, d1.len() as u16, 0)); // 3 leaf
    v.push(doc_case("witness-F17-later-sibling".into(), &idx, &d1));
    // one file per clause of `validate_index` that no other clause rejects
    // (a) child range not after the node, on a record no node points at (the order clause holds: 2 >= next = 2)
    let mut idx = vec![];
    idx.extend(rec8(1, 1, 0)); // 0 root -> [1,2)
    idx.extend(rec8(0, d1.len() as u16, 0)); // 1 leaf
    idx.extend(rec8(2, 1, CE4)); // 2 -> [2,3): itself
    v.push(doc_case("clause-child-range-not-after-node".into(), &idx, &d1));
    // (b) child range beyond the index
    let mut idx = vec![];
    idx.extend(rec8(1, 2, 0)); // 0 root -> [1,3) of 2 records
    idx.extend(rec8(0, d1.len() as u16, 0));
    v.push(doc_case("clause-child-range-beyond-index".into(), &idx, &d1));
    // (c) child ranges out of order (the second node points in front of the first node's children)
    let mut idx = vec![];
    idx.extend(rec8(1, 2, 0)); // 0 root -> [1,3)
    idx.extend(rec8(4, 1, CE4)); // 1 -> [4,5)
    idx.extend(rec8(3, 1, SHI4)); // 2 -> [3,4)
    idx.extend(rec8(0, d1.len() as u16, 0));
    idx.extend(rec8(0, d1.len() as u16, 0));
    v.push(doc_case("clause-child-ranges-out-of-order".into(), &idx, &d1));
    // (d) leaf data beyond the phrase bytes
    let mut idx = vec![];
    idx.extend(rec8(1, 1, 0));
    idx.extend(rec8(1, d1.len() as u16, 0));
    v.push(doc_case("clause-leaf-data-beyond-phrases".into(), &idx, &d1));
    // (e) accepted: gaps between child ranges, an unused record, an empty child range
    let mut idx = vec![];
    idx.extend(rec8(2, 1, 0)); // 0 root -> [2,3)
    idx.extend(rec8(0, 0, 0)); // 1 unused leaf-shaped record
    idx.extend(rec8(4, 1, CE4)); // 2 -> [4,5)
    idx.extend(rec8(5, 0, SHI4)); // 3 unused node with an empty range
    idx.extend(rec8(0, d1.len() as u16, 0)); // 4 leaf
    v.push(doc_case("clause-gaps-accepted".into(), &idx, &d1));
    // C13's F47 in a dictionary file: flawless trees but for the syllable field of one node — a value `Syllable::try_from`
    // rejects since the repair; `validate_index` must refuse the file (otherwise `entries()` panics at its `unwrap()`):
    // as the only node, as first / second child next to valid siblings, below a valid node
    for (k, &code) in INVALID_CODES.iter().enumerate() {
        let mut idx = vec![];
        idx.extend(rec8(1, 1, 0)); // 0 root -> [1,2)
        idx.extend(rec8(2, 1, code)); // 1 -> [2,3)
        idx.extend(rec8(0, d1.len() as u16, 0)); // 2 leaf
        v.push(doc_case(format!("witness-F47-invalid-syllable-{:#06x}", code), &idx, &d1));
        let mut idx = vec![];
        idx.extend(rec8(1, 2, 0)); // 0 root -> [1,3)
        idx.extend(rec8(3, 1, if k % 2 == 0 { code } else { CE4 })); // 1 -> [3,4)
        idx.extend(rec8(4, 2, if k % 2 == 0 { SHI4 } else { code })); // 2 -> [4,6)
        idx.extend(rec8(0, d1.len() as u16, 0)); // 3 leaf
        idx.extend(rec8(0, d1.len() as u16, 0)); // 4 leaf
        idx.extend(rec8(6, 1, if k % 3 == 0 { code } else { CE4 })); // 5 -> [6,7)
        idx.extend(rec8(0, d1.len() as u16, 0)); // 6 leaf
        v.push(doc_case(format!("witness-F47-invalid-syllable-sibling-{:#06x}", code), &idx, &d1));
    }
    // accepted: the boundary codes (largest code, the empty pattern, a lone tone), and ANY value in the root's
    // syllable field (the root is never converted to a `Syllable`)
    for code in [0x2bedu16, 0x8000, 5, 1, 0x2a00] {
        let mut idx = vec![];
        idx.extend(rec8(1, 1, 0));
        idx.extend(rec8(2, 1, code));
        idx.extend(rec8(0, d1.len() as u16, 0));
        v.push(doc_case(format!("clause-edge-syllable-accepted-{:#06x}", code), &idx, &d1));
    }
    for code in [0xffffu16, 0x6a07, 0x8208] {
        let mut idx = vec![];
        idx.extend(rec8(1, 1, code));
        idx.extend(rec8(2, 1, CE4));
        idx.extend(rec8(0, d1.len() as u16, 0));
        v.push(doc_case(format!("clause-root-syllable-field-unchecked-{:#06x}", code), &idx, &d1));
    }
    // F39 (dictionary-file form; repaired at the engine by 870202b): a *valid* file, written by `TrieBuilder`, with an
    // entry under the empty key; the traversals are fine and every conversion of a context over it used to abort
    // (`attempt to subtract with overflow` in shortest_path).  No oracle class any more: a recurrence is `new`.
    v.push(Case {
        what: "witness-F39-empty-key-entry".into(),
        bytes: build(&[(&[], "空", 1, None), (&[CE4], "測", 1, None), (&[SHI4], "試", 3, None)], false),
        parts: None,
        bad_syl: false,
    });
    // F40 (repaired by a `fix:` commit: `saturating_add` in `estimate`): a valid file storing a frequency next to
    // u32::MAX; the context is created and committing the phrase (learning) must clamp to MAX_USER_FREQ.  Before
    // the repair the commit aborted in `estimate` (add with overflow); there is no oracle class for it any more,
    // so a recurrence is reported as `new` with this file.
    v.push(Case {
        what: "witness-F40-max-frequency".into(),
        bytes: build(&[(&[CE4], "測", u32::MAX, None), (&[SHI4], "試", 3, None)], false),
        parts: None,
        bad_syl: false,
    });
    v
}

fn cases(seed: u64, thorough: bool) -> Vec<Case> {
    let mut rng = Rng::new(seed ^ 0xC12);
    let mut v = witnesses();
    let fam = family(&mut rng, thorough);
    for (name, f) in &fam {
        v.push(Case { what: format!("{}-valid", name), bytes: f.clone(), parts: None, bad_syl: false });
        let (ipos, ilen) = index_span(f);
        for pos in 0..f.len() {
            let in_index = pos >= ipos && pos < ipos + ilen;
            let o = f[pos];
            let mut vals: Vec<u8> = if in_index || thorough {
                vec![0, 1, 2, o ^ 1, o ^ 0x80, o.wrapping_add(1), o.wrapping_sub(1), 0xff]
            } else {
                vec![0, o ^ 1, o ^ 0x80, 0xff]
            };
            if in_index && (pos - ipos) % 8 >= 6 {
                // syllable field: values that leave the code space in one byte (high byte: initial 22 / 53, marker bit;
                // low byte: tone 6 / 7, rime 14 / 15)
                vals.extend(if (pos - ipos) % 8 == 6 { [0x2c, 0x6a, 0x80, 0x82] } else { [0x06, 0x07, 0x70, 0x7e] });
            }
            if in_index && thorough {
                vals.extend([3, 4, 5, 6, 7, 8, 0x7f, 0x80]);
            }
            vals.sort();
            vals.dedup();
            for x in vals {
                if x != o {
                    let mut g = f.clone();
                    g[pos] = x;
                    // a byte of the syllable field of a record other than the root, giving a non-zero non-code
                    let bad_syl = in_index && (pos - ipos) >= 8 && (pos - ipos) % 8 >= 6 && {
                        let r0 = ipos + (pos - ipos) / 8 * 8;
                        let code = u16::from_be_bytes([g[r0 + 6], g[r0 + 7]]);
                        code != 0 && !is_syllable_code(code)
                    };
                    v.push(Case { what: format!("{}-overwrite@{}={}{}", name, pos, x, if in_index { "-index" } else { "" }), bytes: g, parts: None, bad_syl });
                }
            }
        }
        for cut in 0..f.len() {
            v.push(Case { what: format!("{}-truncated@{}", name, cut), bytes: f[..cut].to_vec(), parts: None, bad_syl: false });
        }
        for _ in 0..(if thorough { 60 } else { 12 }) {
            let mut g = f.clone();
            let extra = 1 + rng.below(40);
            for _ in 0..extra {
                g.push(rng.below(256) as u8);
            }
            v.push(Case { what: format!("{}-extended+{}", name, extra), bytes: g, parts: None, bad_syl: false });
        }
        // structured: rewrite one index record field with an interesting value
        let (idx, data) = trie_parts(&Trie::new(&f[..]).unwrap()).unwrap();
        let nrec = idx.len() / 8;
        for r in 0..nrec {
            for (field, vals) in [(0usize, vec![0u32, 1, r as u32, r as u32 + 1, nrec as u32 - 1, nrec as u32, 0xffff_ffff]), (1, vec![0, 1, 2, nrec as u32, 0xffff]), (2, vec![0, 1, CE4 as u32, SHI4 as u32, 0x6a07, 0x8208, 0x020e, 0xffff, 0x2bee, 0x2c00, 0x8000, 0x2bed])] {
                for val in vals {
                    let mut i2 = idx.clone();
                    match field {
                        0 => i2[r * 8..r * 8 + 4].copy_from_slice(&val.to_be_bytes()),
                        1 => i2[r * 8 + 4..r * 8 + 6].copy_from_slice(&(val as u16).to_be_bytes()),
                        _ => i2[r * 8 + 6..r * 8 + 8].copy_from_slice(&(val as u16).to_be_bytes()),
                    }
                    if i2 != idx {
                        v.push(doc_case(format!("{}-record{}-field{}={}", name, r, field, val), &i2, &data));
                    }
                }
            }
        }
        // index with a trailing partial record / odd sizes
        for extra in [1usize, 7] {
            let mut i2 = idx.clone();
            i2.extend(std::iter::repeat(0xAB).take(extra));
            v.push(doc_case(format!("{}-index+{}bytes", name, extra), &i2, &data));
        }
        v.push(doc_case(format!("{}-index-cut", name), &idx[..idx.len() - 3], &data));
        v.push(doc_case(format!("{}-index-7bytes", name), &idx[..7], &data));
        v.push(doc_case(format!("{}-index-empty", name), &[], &data));
        v.push(doc_case(format!("{}-data-empty", name), &idx, &[]));
        // random index tables over the same data
        for _ in 0..(if thorough { 400 } else { 60 }) {
            let n = 1 + rng.below(10) as usize;
            let mut i2 = vec![];
            for r in 0..n {
                let leafish = r > 0 && rng.chance(1, 3);
                let a = if leafish { rng.below(data.len() as u64 + 2) as u32 } else if rng.chance(3, 4) { (r as u64 + 1 + rng.below(3)) as u32 } else { rng.below(n as u64 + 2) as u32 };
                let b = if leafish { rng.below(data.len() as u64 + 2) as u16 } else { rng.below(4) as u16 };
                let s = if r == 0 || leafish { 0 } else if rng.chance(1, 10) { *rng.pick(INVALID_CODES) } else { *rng.pick(&[CE4, SHI4, CE4, 0]) };
                i2.extend(rec8(a, b, s));
            }
            v.push(doc_case(format!("{}-random-index", name), &i2, &data));
        }
    }
    // arbitrary bytes, and arbitrary bytes behind a valid prefix
    let a = &fam[0].1;
    for _ in 0..(if thorough { 3000 } else { 300 }) {
        let len = rng.below(200) as usize;
        let mut b: Vec<u8> = (0..len).map(|_| if rng.chance(1, 3) { *rng.pick(&[0x30u8, 0x0c, 0x04, 0x02, 0x80, 0x81, 0x82, 0x84, 0xff, 0]) } else { rng.below(256) as u8 }).collect();
        if rng.chance(1, 2) {
            let keep = rng.below(a.len() as u64) as usize;
            let mut h = a[..keep].to_vec();
            h.append(&mut b);
            b = h;
        }
        v.push(Case { what: "arbitrary-bytes".into(), bytes: b, parts: None, bad_syl: false });
    }
    v
}

// ------------------------------------------------------------------ worker: trie level
fn queries(recs: &[IRec]) -> Vec<(Vec<u16>, char, Option<usize>)> {
    let mut q: Vec<(Vec<u16>, char, Option<usize>)> = vec![
        (vec![CE4], 's', None),
        (vec![CE4, SHI4], 's', None),
        (vec![SHI4], 's', Some(1)),
        (vec![CE4, SHI4, CE4], 's', None),
        (vec![], 's', None),
        (vec![CE4], 'f', None),
        (vec![0x2800], 'f', None),         // ㄘ only: a fuzzy prefix of ㄘㄜˋ
        (vec![0x2800, 0x2200], 'f', Some(1)), // ㄘ ㄕ
        (vec![CE4, SHI4], 'f', Some(0)),
        (vec![CE4, CE4], 's', None),
        (vec![CE4, CE4, CE4], 's', None),
    ];
    let mut seen: Vec<u16> = vec![];
    for r in recs {
        // (the root's syllable field is not checked by `validate_index`: it may hold any value)
        if r.s != 0 && r.s != CE4 && r.s != SHI4 && Syllable::try_from(r.s).is_ok() && !seen.contains(&r.s) && seen.len() < 2 {
            seen.push(r.s);
        }
    }
    for s in seen {
        q.push((vec![s], 's', None));
        q.push((vec![s, s], 's', None));
        q.push((vec![CE4, s], 'f', None));
    }
    q
}

fn panic_msg(e: Box<dyn std::any::Any + Send>) -> String {
    e.downcast_ref::<String>().cloned().or(e.downcast_ref::<&str>().map(|s| s.to_string())).unwrap_or_default()
}

/// no known panic classes are left on the trie side (F17 was repaired by `validate_index`)
fn classify_panic(_recs: &[IRec], _msg: &str) -> &'static str {
    "new"
}

fn worker(seed: u64, thorough: bool, lo: usize, hi: usize, start_case: usize, start_op: usize) {
    limit_memory(3 << 30);
    std::panic::set_hook(Box::new(|_| {}));
    let cs = cases(seed, thorough);
    let so = std::io::stdout();
    let say = |s: String| {
        let mut l = so.lock();
        writeln!(l, "{}", s).unwrap();
        l.flush().unwrap();
    };
    for ci in start_case.max(lo)..hi.min(cs.len()) {
        let c = &cs[ci];
        let first_op = if ci == start_case { start_op } else { 0 };
        say(format!("@begin {}.0 open {} b{}", ci, c.what, hex(&c.bytes)));
        let opened = catch_unwind(AssertUnwindSafe(|| Trie::new(&c.bytes[..])));
        if first_op == 0 {
            if let (Some((idx, data)), Ok(r)) = (&c.parts, &opened) {
                say(format!("walk validate b{} {} => {}", hex(idx), data.len(), if r.is_ok() { "ok" } else { "err" }));
            }
        }
        let t = match opened {
            Ok(Ok(t)) => t,
            Ok(Err(_)) => {
                if first_op == 0 {
                    say(format!("walk open b{} => err", hex(&c.bytes)));
                    // rejected by the syllable check ALONE? (the same index with every invalid node syllable replaced
                    // by a valid one is accepted)
                    let mut syl_only = false;
                    if let Some((idx, data)) = &c.parts {
                        let recs = parse_index(idx);
                        if invalid_syllable_node(&recs) {
                            let mut i2 = idx.clone();
                            for (i, r) in recs.iter().enumerate() {
                                if i != 0 && r.s != 0 && !is_syllable_code(r.s) {
                                    i2[i * 8 + 6..i * 8 + 8].copy_from_slice(&CE4.to_be_bytes());
                                }
                            }
                            syl_only = matches!(catch_unwind(AssertUnwindSafe(|| Trie::new(&trie_doc(&i2, data)[..]).is_ok())), Ok(true));
                        }
                    }
                    say(format!("#open {} err bad_syl={} syl_only={}", ci, c.bad_syl as u8, syl_only as u8));
                }
                continue;
            }
            Err(e) => {
                if first_op == 0 {
                    say(format!("#open {} panic", ci));
                    say(format!("!oracle C12 new open-panics {} msg={} file=b{}", c.what, panic_msg(e).replace(' ', "_"), hex(&c.bytes)));
                }
                continue;
            }
        };
        let Some((idx, data)) = trie_parts(&t) else {
            say(format!("!oracle C12 new harness-cannot-read-trie-parts {} file=b{}", c.what, hex(&c.bytes)));
            continue;
        };
        let recs = parse_index(&idx);
        let (tab, total_phrases) = leaf_table(&recs, &data);
        if first_op == 0 {
            say(format!("walk open b{} => ok b{} {}", hex(&c.bytes), hex(&idx), data.len()));
            say(format!("#open {} ok records={} non_tree={} zero_child={} invalid_syl={}", ci, recs.len(), non_tree_index(&recs) as u8,
                zero_syllable_child(&recs) as u8, invalid_syllable_node(&recs) as u8));
            // the former findings F16 / F17: `validate_index` has to reject such an index
            if non_tree_index(&recs) || zero_syllable_child(&recs) {
                say(format!("!oracle C12 new Trie::new-accepts-an-index-that-is-not-a-breadth-first-tree non_tree={} zero_child={} {} file=b{}",
                    non_tree_index(&recs) as u8, zero_syllable_child(&recs) as u8, c.what, hex(&c.bytes)));
            }
            // C13's F47 on the file side: a node syllable that is not a syllable code must not get past `Trie::new`
            if invalid_syllable_node(&recs) || c.bad_syl {
                say(format!("!oracle C12 new Trie::new-accepts-an-index-with-a-node-syllable-that-is-not-a-syllable {} file=b{}", c.what, hex(&c.bytes)));
            }
        }
        let pre = format!("b{} {} {}", hex(&idx), data.len(), tab);
        let qs = queries(&recs);
        for (oi, (q, st, first)) in qs.iter().enumerate() {
            let op = oi + 1;
            if op < first_op {
                continue;
            }
            let lhs = format!("walk lookup {} {} {} {}", pre, st, first.map(|f| f.to_string()).unwrap_or("max".into()), syls_tok(q));
            say(format!("@begin {}.{} {}", ci, op, lhs));
            let syls: Vec<Syllable> = q.iter().map(|s| syl(*s)).collect();
            let strat = if *st == 's' { LookupStrategy::Standard } else { LookupStrategy::FuzzyPartialPrefix };
            let r = catch_unwind(AssertUnwindSafe(|| match first {
                None => t.lookup_all_phrases(&syls, strat),
                Some(f) => t.lookup_first_n_phrases(&syls, *f, strat),
            }));
            match r {
                Ok(ps) => {
                    say(format!("{} => ok {}{}", lhs, ps.len(), ps.iter().map(|p| format!(" {}", phrase_tok(p))).collect::<String>()));
                    if ps.len() > total_phrases {
                        let class = "new";
                        say(format!("!oracle C12 {} lookup-returns-{}-phrases-from-a-file-holding-{} {} query={} file=b{}", class, ps.len(), total_phrases, c.what, syls_tok(q), hex(&c.bytes)));
                    }
                }
                Err(e) => {
                    let m = panic_msg(e);
                    say(format!("{} => panic", lhs));
                    say(format!("!oracle C12 {} lookup-panics {} msg={} query={} file=b{}", classify_panic(&recs, &m), c.what, m.replace(' ', "_"), syls_tok(q), hex(&c.bytes)));
                }
            }
        }
        let op = qs.len() + 1;
        if op >= first_op {
            let lhs = format!("walk entries {}", pre);
            say(format!("@begin {}.{} {}", ci, op, lhs));
            let r = catch_unwind(AssertUnwindSafe(|| t.entries().collect::<Vec<_>>()));
            match r {
                Ok(es) => {
                    say(format!(
                        "{} => ok {}{}",
                        lhs,
                        es.len(),
                        es.iter().map(|e| format!(" {}/{}", syls_tok(&e.0.iter().map(|s| s.to_u16()).collect::<Vec<_>>()), phrase_tok(&e.1))).collect::<String>()
                    ));
                    if es.len() > total_phrases {
                        let class = "new";
                        say(format!("!oracle C12 {} entries-yields-{}-phrases-from-a-file-holding-{} {} file=b{}", class, es.len(), total_phrases, c.what, hex(&c.bytes)));
                    }
                }
                Err(e) => {
                    let m = panic_msg(e);
                    say(format!("{} => panic", lhs));
                    say(format!("!oracle C12 {} entries-panics {} msg={} file=b{}", classify_panic(&recs, &m), c.what, m.replace(' ', "_"), hex(&c.bytes)));
                }
            }
        }
    }
    say("@done".into());
}

// ------------------------------------------------------------------ worker: context level
fn repo() -> PathBuf {
    PathBuf::from(std::env::var("VERIF_REPO").unwrap_or_else(|_| "/repo".to_string()))
}

fn scratch() -> tempfile::TempDir {
    if Path::new("/dev/shm").is_dir() {
        tempfile::tempdir_in("/dev/shm").unwrap()
    } else {
        tempfile::tempdir().unwrap()
    }
}

/// (case index, placement) list of the context phase
fn ctx_plan(cs: &[Case], thorough: bool) -> Vec<(usize, u8)> {
    let mut v = vec![];
    let mut k = 0;
    for (i, c) in cs.iter().enumerate() {
        let pick = c.what.starts_with("witness") || c.what.ends_with("-valid")
            || (c.what.starts_with("A-overwrite") && c.what.ends_with("-index"))
            || (thorough && (c.what.contains("-record") || c.what.starts_with("B-overwrite")))
            || (c.what.starts_with("A-truncated") && i % 9 == 0)
            || (c.what == "arbitrary-bytes" && i % 10 == 0);
        if pick {
            k += 1;
            if thorough || c.what.starts_with("witness") || k % 2 == 0 {
                v.push((i, 0));
            }
            if thorough || c.what.starts_with("witness") || k % 6 == 0 {
                v.push((i, 1));
            }
            if thorough || c.what.starts_with("witness") || k % 6 == 3 {
                v.push((i, 2));
            }
        }
    }
    v
}

const PLACES: [&str; 3] = ["user-dictionary", "system-tsi.dat", "drop-in"];

fn ctx_worker(seed: u64, thorough: bool, lo: usize, hi: usize) {
    use chewing_capi::{input::*, output::*, setup::*};
    limit_memory(3 << 30);
    let cs = cases(seed, thorough);
    let plan = ctx_plan(&cs, thorough);
    let so = std::io::stdout();
    let say = |s: String| {
        let mut l = so.lock();
        writeln!(l, "{}", s).unwrap();
        l.flush().unwrap();
    };
    for pi in lo..hi.min(plan.len()) {
        let (ci, place) = plan[pi];
        let c = &cs[ci];
        let dir = scratch();
        let sysdir = dir.path().join("sys");
        let userdir = dir.path().join("user");
        std::fs::create_dir_all(sysdir.join("dictionary.d")).unwrap();
        std::fs::create_dir_all(&userdir).unwrap();
        for f in ["word.dat", "tsi.dat", "swkb.dat", "symbols.dat"] {
            std::fs::copy(repo().join("tests/data").join(f), sysdir.join(f)).unwrap();
        }
        match place {
            0 => std::fs::write(userdir.join("chewing.dat"), &c.bytes).unwrap(),
            1 => std::fs::write(sysdir.join("tsi.dat"), &c.bytes).unwrap(),
            _ => std::fs::write(sysdir.join("dictionary.d").join("zz.dat"), &c.bytes).unwrap(),
        }
        say(format!("@begin {} ctx {} {} file=b{}", pi, PLACES[place as usize], c.what, hex(&c.bytes)));
        let sys = CString::new(sysdir.display().to_string()).unwrap();
        let user = CString::new(userdir.join("chewing.dat").display().to_string()).unwrap();
        let ctx = unsafe { chewing_new2(sys.as_ptr(), user.as_ptr(), None, std::ptr::null_mut()) };
        if ctx.is_null() {
            say(format!("#ctx {} null", pi));
            continue;
        }
        unsafe {
            for k in "hk4g4".bytes() {
                chewing_handle_Default(ctx, k as i32);
            }
            let s = chewing_buffer_String(ctx);
            chewing_free(s.cast());
            chewing_handle_Down(ctx);
            chewing_handle_Default(ctx, '1' as i32);
            chewing_handle_Enter(ctx);
            for k in "hk4".bytes() {
                chewing_handle_Default(ctx, k as i32);
            }
            chewing_handle_Enter(ctx);
            chewing_delete(ctx);
        }
        say(format!("#ctx {} ok", pi));
    }
    say("@done".into());
}

// ------------------------------------------------------------------ parent
fn main() {
    let args: Vec<String> = std::env::args().collect();
    let seed = seed_from_env();
    let thorough = tier_is_thorough();
    if args.len() >= 6 && args[1] == "--worker" {
        let p: Vec<usize> = args[2..6].iter().map(|a| a.parse().unwrap()).collect();
        worker(seed, thorough, p[0], p[1], p[2], p[3]);
        return;
    }
    if args.len() >= 4 && args[1] == "--ctxworker" {
        ctx_worker(seed, thorough, args[2].parse().unwrap(), args[3].parse().unwrap());
        return;
    }
    let mut out = Out::new();
    let cs = cases(seed, thorough);
    let shards: usize = std::env::var("VERIF_SHARDS").ok().and_then(|s| s.parse().ok()).unwrap_or(6);
    let watchdog = Duration::from_millis(6000); // per output line of a worker; generous because the machine may be loaded

    // ---- phase 1: trie level
    let per = cs.len().div_ceil(shards);
    let handles: Vec<_> = (0..shards)
        .map(|s| {
            let (lo, hi) = (s * per, ((s + 1) * per).min(cs.len()));
            std::thread::spawn(move || {
                let mut lines: Vec<String> = vec![];
                let (mut sc, mut sop) = (lo, 0usize);
                while sc < hi {
                    let (evs, done) = run_worker(
                        &["--worker".into(), lo.to_string(), hi.to_string(), sc.to_string(), sop.to_string()],
                        watchdog,
                    );
                    for ev in evs {
                        match ev {
                            Ev::Line(l) => lines.push(l),
                            Ev::Died { step, timeout, stderr } => {
                                let Some((id, text)) = step else {
                                    lines.push(format!("!oracle C12 new worker-died-outside-a-step stderr={}", stderr_gist(&stderr)));
                                    sc = hi;
                                    break;
                                };
                                let (c, o) = id.split_once('.').unwrap();
                                let (c, o): (usize, usize) = (c.parse().unwrap(), o.parse().unwrap());
                                let oom = stderr.contains("memory allocation of");
                                if text.starts_with("walk ") {
                                    let kind = if timeout { "watchdog-timeout" } else if oom { "allocation-failure" } else { "abort" };
                                    lines.push(format!("{} => {}", text, if timeout || oom { "hang" } else { "abort" }));
                                    lines.push(format!("!oracle C12 new {}-in-{} case={} {}", kind,
                                        text.split(' ').take(2).collect::<Vec<_>>().join("-"), c, text.chars().take(700).collect::<String>().replace(' ', "_")));
                                } else {
                                    lines.push(format!("#open {} {}", c, if timeout { "hang" } else { "abort" }));
                                    lines.push(format!("!oracle C12 new open-{} {} stderr={}", if timeout { "hangs" } else { "aborts" },
                                        text.chars().take(700).collect::<String>().replace(' ', "_"), stderr_gist(&stderr)));
                                }
                                sc = c;
                                sop = o + 1;
                            }
                        }
                    }
                    if done {
                        break;
                    }
                }
                lines
            })
        })
        .collect();
    let mut st = std::collections::BTreeMap::<String, u64>::new();
    for k in ["opened_non_tree", "opened_zero_child", "opened_invalid_node_syllable"] {
        st.insert(k.into(), 0);
    }
    for h in handles {
        for l in h.join().unwrap() {
            if let Some(rest) = l.strip_prefix("#open ") {
                let mut it = rest.split(' ');
                it.next();
                let res = it.next().unwrap_or("?");
                *st.entry(format!("files_open_{}", res)).or_default() += 1;
                for kv in it {
                    if kv == "non_tree=1" {
                        *st.entry("opened_non_tree".into()).or_default() += 1;
                    }
                    if kv == "zero_child=1" {
                        *st.entry("opened_zero_child".into()).or_default() += 1;
                    }
                    if kv == "invalid_syl=1" {
                        *st.entry("opened_invalid_node_syllable".into()).or_default() += 1;
                    }
                    if kv == "bad_syl=1" {
                        *st.entry("rejected_with_invalid_node_syllable_by_construction".into()).or_default() += 1;
                    }
                    if kv == "syl_only=1" {
                        *st.entry("rejected_by_the_syllable_check_alone".into()).or_default() += 1;
                    }
                }
            } else if let Some(rest) = l.strip_prefix("!oracle ") {
                let mut it = rest.splitn(3, ' ');
                let (p, c, d) = (it.next().unwrap_or(""), it.next().unwrap_or(""), it.next().unwrap_or(""));
                out.oracle_fail(p, c, d);
            } else if l.starts_with("walk ") {
                let res = l.split(" => ").nth(1).and_then(|r| r.split(' ').next()).unwrap_or("?").to_string();
                let f = l.split(' ').nth(1).unwrap_or("?").to_string();
                *st.entry(format!("{}_{}", f, res)).or_default() += 1;
                out.rec(&l);
            }
        }
    }
    out.stat("cases", cs.len());
    out.stat("cases_invalid_node_syllable_by_construction", cs.iter().filter(|c| c.bad_syl).count());
    for (k, v) in &st {
        out.stat(k, v);
    }

    // ---- phase 2: contexts over corrupted files
    let plan = ctx_plan(&cs, thorough);
    let per = plan.len().div_ceil(shards);
    let handles: Vec<_> = (0..shards)
        .map(|s| {
            let (lo, hi) = (s * per, ((s + 1) * per).min(plan.len()));
            std::thread::spawn(move || {
                let mut lines: Vec<String> = vec![];
                let mut from = lo;
                while from < hi {
                    let (evs, done) = run_worker(&["--ctxworker".into(), from.to_string(), hi.to_string()], Duration::from_millis(10000));
                    for ev in evs {
                        match ev {
                            Ev::Line(l) => lines.push(l),
                            Ev::Died { step, timeout, stderr } => {
                                let Some((id, text)) = step else {
                                    lines.push(format!("!oracle C12 new ctx-worker-died-outside-a-step stderr={}", stderr_gist(&stderr)));
                                    from = hi;
                                    break;
                                };
                                let pi: usize = id.parse().unwrap();
                                let oom = stderr.contains("memory allocation of");
                                lines.push(format!("#ctx {} {}", pi, if timeout || oom { "hang" } else { "abort" }));
                                lines.push(format!("!oracle C12 new context-{} {} stderr={}", if timeout { "hangs" } else if oom { "exhausts-memory" } else { "aborts" },
                                    text.chars().take(700).collect::<String>().replace(' ', "_"), stderr_gist(&stderr)));
                                from = pi + 1;
                            }
                        }
                    }
                    if done {
                        break;
                    }
                }
                lines
            })
        })
        .collect();
    let mut st = std::collections::BTreeMap::<String, u64>::new();
    for h in handles {
        for l in h.join().unwrap() {
            if let Some(rest) = l.strip_prefix("#ctx ") {
                let res = rest.split(' ').nth(1).unwrap_or("?");
                *st.entry(format!("ctx_{}", res)).or_default() += 1;
                // statistic (the former class predicate of F39): contexts over a VALID file with an entry under the empty key
                if let Some(c) = rest.split(' ').next().and_then(|pi| pi.parse::<usize>().ok()).and_then(|pi| plan.get(pi)).map(|p| &cs[p.0]) {
                    let parts = catch_unwind(AssertUnwindSafe(|| Trie::new(&c.bytes[..]).ok().and_then(|t| trie_parts(&t)))).ok().flatten();
                    if parts.as_ref().is_some_and(|p| empty_key_entry(&parse_index(&p.0))) {
                        *st.entry("ctx_runs_over_empty_key_file".into()).or_default() += 1;
                        if res == "ok" {
                            *st.entry("ctx_ok_over_empty_key_file".into()).or_default() += 1;
                        }
                    }
                }
            } else if let Some(rest) = l.strip_prefix("!oracle ") {
                let mut it = rest.splitn(3, ' ');
                let (p, c, d) = (it.next().unwrap_or(""), it.next().unwrap_or(""), it.next().unwrap_or(""));
                out.oracle_fail(p, c, d);
            }
        }
    }
    out.stat("ctx_runs", plan.len());
    for (k, v) in &st {
        out.stat(k, v);
    }
    out.flush();
}
