//! C09 correspondence + oracle: mutable dictionaries behave as a map under any update history.
//!
//! Runs random operation histories on the real `TrieBuf` (in-memory and file-backed), on a read-only
//! `Trie` and on `Layered`, prints one transcript record per step (the whole history so far plus the
//! queries asked and their answers; the Lean model replays the history) and evaluates the property
//! itself against a reference map (`Ref`) — the ORACLE.  No known finding is left: F10 `UpdatePersisted`,
//! `MaxCodePointPhrase` and F36 `FuzzyOverTombstoneOrPending` (prefix lookups over pending / tombstoned
//! entries, fixed by c3d9fb2) are repaired, so every failing exact lookup, prefix lookup or enumeration is
//! reported as `new`.  `Tracker` follows the layering of the real structure for COVERAGE statistics only
//! (how often the generated histories visit the states the fixed findings lived in).
use chewing::dictionary::{
    Dictionary, DictionaryBuilder, DictionaryMut, Layered, LookupStrategy, Phrase, Trie, TrieBuf,
    TrieBuilder,
};
use chewing::zhuyin::Syllable;
use std::collections::{BTreeMap, BTreeSet};
use std::io::{Cursor, Seek};
use std::panic::{catch_unwind, AssertUnwindSafe};
use std::path::Path;
use vharness::*;

type Key = Vec<u16>;
type PK = (Key, String);
type Val = (u32, u64);
/// an observed phrase: text, freq, last_used
type Obs = (String, u32, Option<u64>);

#[derive(Clone, Debug)]
enum Op {
    Add(Key, String, u32, Option<u64>),
    Update(Key, String, u32, u64),
    Remove(Key, String),
    Flush,
    Reopen,
    CloseOpen,
}

fn syls(k: &[u16]) -> Vec<Syllable> {
    k.iter().map(|c| Syllable::try_from(*c).unwrap()).collect()
}

fn key_s(k: &[u16]) -> String {
    if k.is_empty() {
        "-".into()
    } else {
        k.iter().map(|c| c.to_string()).collect::<Vec<_>>().join(".")
    }
}

fn op_s(op: &Op) -> String {
    match op {
        Op::Add(k, t, f, tm) => format!("a,{},{},{},{}", key_s(k), hx(t), f, opt(*tm)),
        Op::Update(k, t, f, tm) => format!("u,{},{},{},{}", key_s(k), hx(t), f, tm),
        Op::Remove(k, t) => format!("r,{},{}", key_s(k), hx(t)),
        Op::Flush => "f".into(),
        Op::Reopen => "o".into(),
        Op::CloseOpen => "c".into(),
    }
}

fn entry_s(e: &(Key, String, u32, Option<u64>)) -> String {
    format!("{},{},{},{}", key_s(&e.0), hx(&e.1), e.2, opt(e.3))
}

fn obs(p: &Phrase) -> Obs {
    (p.as_str().to_string(), p.freq(), p.last_used())
}

fn obs_s(l: &[Obs]) -> String {
    if l.is_empty() {
        "-".into()
    } else {
        l.iter().map(|(t, f, tm)| format!("{}/{}/{}", hx(t), f, opt(*tm))).collect::<Vec<_>>().join(";")
    }
}

fn ents_s(l: &[(Key, Obs)]) -> String {
    let mut l = l.to_vec();
    l.sort_by(|a, b| a.0.cmp(&b.0)); // stable: keeps the implementation's order inside a key
    if l.is_empty() {
        "-".into()
    } else {
        l.iter()
            .map(|(k, (t, f, tm))| format!("{}/{}/{}/{}", key_s(k), hx(t), f, opt(*tm)))
            .collect::<Vec<_>>()
            .join(";")
    }
}

fn strat(f: bool) -> LookupStrategy {
    if f {
        LookupStrategy::FuzzyPartialPrefix
    } else {
        LookupStrategy::Standard
    }
}

fn lookup(d: &dyn Dictionary, k: &[u16], n: usize, fuzzy: bool) -> Vec<Obs> {
    d.lookup_first_n_phrases(&syls(k), n, strat(fuzzy)).iter().map(obs).collect()
}

/// the provided trait methods `lookup_first_phrase` / `lookup_all_phrases` (`dictionary/mod.rs`)
fn first_phrase(d: &dyn Dictionary, k: &[u16], fuzzy: bool) -> Vec<Obs> {
    d.lookup_first_phrase(&syls(k), strat(fuzzy)).iter().map(obs).collect()
}

fn all_phrases(d: &dyn Dictionary, k: &[u16], fuzzy: bool) -> Vec<Obs> {
    d.lookup_all_phrases(&syls(k), strat(fuzzy)).iter().map(obs).collect()
}

/// ORACLE: "the first phrase" is the head of the full answer, "all phrases" is the full answer
fn provided_methods_fail(d: &dyn Dictionary, k: &[u16], fz: bool, full: &[Obs]) -> Option<String> {
    let fp = first_phrase(d, k, fz);
    if fp[..] != full[..1.min(full.len())] {
        return Some(format!("lookup_first_phrase {} fuzzy={}: got {} but the full answer is {}", key_s(k), fz, obs_s(&fp), obs_s(full)));
    }
    let ap = all_phrases(d, k, fz);
    if ap[..] != full[..] {
        return Some(format!("lookup_all_phrases {} fuzzy={}: got {} but lookup_first_n_phrases(usize::MAX) is {}", key_s(k), fz, obs_s(&ap), obs_s(full)));
    }
    None
}

fn entries(d: &dyn Dictionary) -> Vec<(Key, Obs)> {
    d.entries().map(|(k, p)| (k.iter().map(|s| s.to_u16()).collect(), obs(&p))).collect()
}

/// `FuzzyPartialPrefix` match of a stored key against a query, with the real `starts_with`
fn fuzzy_match(key: &[u16], q: &[u16]) -> bool {
    key.len() == q.len()
        && key.iter().zip(q).all(|(a, b)| {
            *a != 0 && Syllable::try_from(*a).unwrap().starts_with(Syllable::try_from(*b).unwrap())
        })
}

/// The property's reference: a plain map.  `add` is rejected on a live key (as `TrieBuf` does).
#[derive(Clone, Default)]
struct Ref {
    m: BTreeMap<PK, Val>,
}

impl Ref {
    /// returns whether the operation must be accepted
    fn apply(&mut self, op: &Op) -> bool {
        match op {
            Op::Add(k, t, f, tm) => {
                let pk = (k.clone(), t.clone());
                if self.m.contains_key(&pk) {
                    return false;
                }
                self.m.insert(pk, (*f, tm.unwrap_or(0)));
                true
            }
            Op::Update(k, t, f, tm) => {
                self.m.insert((k.clone(), t.clone()), (*f, *tm));
                true
            }
            Op::Remove(k, t) => {
                self.m.remove(&(k.clone(), t.clone()));
                true
            }
            _ => true,
        }
    }
    fn of_key(&self, k: &[u16]) -> BTreeMap<String, Val> {
        self.m.iter().filter(|((key, _), _)| key == k).map(|((_, t), v)| (t.clone(), *v)).collect()
    }
    /// prefix lookup: text -> values of the matching live keys that carry the highest frequency
    fn fuzzy(&self, q: &[u16]) -> BTreeMap<String, Vec<Val>> {
        let mut r: BTreeMap<String, Vec<Val>> = BTreeMap::new();
        for ((key, t), v) in &self.m {
            if fuzzy_match(key, q) {
                r.entry(t.clone()).or_default().push(*v);
            }
        }
        for vs in r.values_mut() {
            let mx = vs.iter().map(|v| v.0).max().unwrap();
            vs.retain(|v| v.0 == mx);
        }
        r
    }
}

/// The layering of the real structure — persisted snapshot, pending entries, tombstones — tracked at
/// the level of sets; used for coverage statistics only (no verdict depends on it).
#[derive(Clone, Default)]
struct Tracker {
    file_backed: bool,
    snap: BTreeMap<PK, Val>,
    file: BTreeMap<PK, Val>,
    inflight: Option<BTreeMap<PK, Val>>,
    pending: BTreeMap<PK, Val>,
    grave: BTreeSet<PK>,
    dirty: bool,
}

impl Tracker {
    fn live_map(&self) -> BTreeMap<PK, Val> {
        let mut m = self.snap.clone();
        for (k, v) in &self.pending {
            m.insert(k.clone(), *v);
        }
        m.retain(|k, _| !self.grave.contains(k));
        m
    }
    fn apply(&mut self, op: &Op, accepted: bool) {
        match op {
            Op::Add(k, t, f, tm) => {
                if accepted {
                    let pk = (k.clone(), t.clone());
                    self.grave.remove(&pk);
                    self.pending.insert(pk, (*f, tm.unwrap_or(0)));
                    self.dirty = true;
                }
            }
            Op::Update(k, t, f, tm) => {
                let pk = (k.clone(), t.clone());
                self.grave.remove(&pk);
                self.pending.insert(pk, (*f, *tm));
                self.dirty = true;
            }
            Op::Remove(k, t) => {
                let pk = (k.clone(), t.clone());
                self.pending.remove(&pk);
                self.grave.insert(pk);
                self.dirty = true;
            }
            Op::Flush => {
                if self.inflight.is_none() && self.file_backed && self.dirty {
                    self.inflight = Some(self.live_map());
                    self.dirty = false;
                }
            }
            Op::Reopen => self.sync(),
            Op::CloseOpen => {
                self.sync();
                self.apply(&Op::Flush, true);
                if let Some(t) = self.inflight.take() {
                    self.file = t;
                }
                self.snap = self.file.clone();
                self.pending.clear();
                self.grave.clear();
                self.dirty = false;
            }
        }
    }
    fn sync(&mut self) {
        if let Some(t) = self.inflight.take() {
            self.file = t.clone();
            if !self.dirty {
                self.snap = t;
                self.pending.clear();
                self.grave.clear();
            }
        } else if self.file_backed {
            self.snap = self.file.clone();
        }
    }
    /// coverage only (the states of the fixed finding F10): a live key that is both persisted and pending
    fn any_shadowed(&self) -> bool {
        self.pending.keys().any(|pk| self.snap.contains_key(pk) && !self.grave.contains(pk))
    }
    /// coverage only (the states of the fixed finding F36, former class `FuzzyOverTombstoneOrPending`):
    /// the pending tree or the graveyard holds a key other than the query that matches it, or a
    /// tombstone / a pending entry of the query would hide a persisted phrase of another matching key
    fn in_former_fuzzy_class(&self, q: &[u16]) -> bool {
        let other = |key: &Key| key != q && fuzzy_match(key, q);
        let hides = |k: &Key, t: &String| k == q && self.snap.keys().any(|(k2, t2)| other(k2) && t2 == t);
        self.pending.keys().any(|(k, _)| other(k))
            || self.grave.iter().any(|(k, _)| other(k))
            || self.grave.iter().any(|(k, t)| hides(k, t))
            || self.pending.keys().any(|(k, t)| hides(k, t))
    }
}

fn to_map(l: &[Obs]) -> Option<BTreeMap<String, Val>> {
    let mut m = BTreeMap::new();
    for (t, f, tm) in l {
        if m.insert(t.clone(), (*f, (*tm)?)).is_some() {
            return None; // a text twice
        }
    }
    Some(m)
}

struct Ctx {
    out: Out,
    stats: BTreeMap<String, u64>,
    known_hits: BTreeMap<String, u64>,
    /// failures outside every known class, printed shortest input first at the end of the run
    new_fails: Vec<String>,
}

impl Ctx {
    fn bump(&mut self, k: &str) {
        *self.stats.entry(k.to_string()).or_insert(0) += 1;
    }
    fn fail(&mut self, class: &str, detail: String) {
        let n = self.known_hits.entry(class.to_string()).or_insert(0);
        *n += 1;
        if class == "new" {
            self.new_fails.push(detail);
        } else if *n <= 40 {
            // known classes are reported a bounded number of times per run
            self.out.oracle_fail("C09", class, &detail);
        }
    }
    /// the smallest failing inputs first (poor man's shrinking: histories are generated step by
    /// step, so the first failing step of a history is its shortest failing prefix)
    fn flush_new(&mut self) {
        let mut v = std::mem::take(&mut self.new_fails);
        v.sort_by_key(|d| d.len());
        for d in v.iter().take(400) {
            self.out.oracle_fail("C09", "new", d);
        }
        self.out.flush();
    }
}

impl Drop for Ctx {
    fn drop(&mut self) {
        self.flush_new();
    }
}

/// ORACLE for one TrieBuf after one step.  `hist` is only used to print the failing input.
fn check_triebuf(cx: &mut Ctx, kind: &str, d: &dyn Dictionary, r: &Ref, tr: &Tracker, keys: &[Key], hist: &str) {
    for k in keys {
        // exact lookup = the live phrases of k, each once, with the stored value
        let all = lookup(d, k, usize::MAX, false);
        let spec = r.of_key(k);
        let got = to_map(&all);
        if got.as_ref() != Some(&spec) {
            cx.fail("new", format!("{kind} [{hist}] lookup {} standard: got {} expected(map) {:?}", key_s(k), obs_s(&all), spec));
        }
        // prefix lookup = union over the live keys matching the prefix
        let fall = lookup(d, k, usize::MAX, true);
        let fspec = r.fuzzy(k);
        let fgot = to_map(&fall);
        let ok = match &fgot {
            Some(g) => g.len() == fspec.len() && g.iter().all(|(t, v)| fspec.get(t).map_or(false, |vs| vs.contains(v))),
            None => false,
        };
        if tr.in_former_fuzzy_class(k) {
            cx.bump("prefix_lookups_over_pending_or_tombstone");
        }
        if !ok {
            cx.fail("new", format!("{kind} [{hist}] lookup {} fuzzy: got {} expected(map) {:?}", key_s(k), obs_s(&fall), fspec));
        }
        // first n = prefix of the full answer; asking twice gives the same answer
        for (fz, full) in [(false, &all), (true, &fall)] {
            for n in [0usize, 1, 2, 3] {
                let part = lookup(d, k, n, fz);
                if part[..] != full[..n.min(full.len())] {
                    cx.fail("new", format!("{kind} [{hist}] lookup {} n={} fuzzy={}: got {} but full answer is {}", key_s(k), n, fz, obs_s(&part), obs_s(full)));
                }
            }
            if &lookup(d, k, usize::MAX, fz) != full {
                cx.fail("new", format!("{kind} [{hist}] lookup {} fuzzy={} is not stable", key_s(k), fz));
            }
            if let Some(m) = provided_methods_fail(d, k, fz, full) {
                cx.fail("new", format!("{kind} [{hist}] {m}"));
            }
        }
    }
    // enumeration = exactly the live entries
    let ents = entries(d);
    let mut got: Vec<(PK, Val)> = vec![];
    let mut timed = true;
    for (k, (t, f, tm)) in &ents {
        timed &= tm.is_some();
        got.push(((k.clone(), t.clone()), (*f, tm.unwrap_or(0))));
    }
    got.sort();
    let spec: Vec<(PK, Val)> = r.m.iter().map(|(k, v)| (k.clone(), *v)).collect();
    if got != spec || !timed {
        cx.fail("new", format!("{kind} [{hist}] entries: got {} expected(map) {:?}", ents_s(&ents), spec));
    }
}

/// single spaces between tokens (empty counted blocks leave none behind)
fn squash(s: &str) -> String {
    s.split_whitespace().collect::<Vec<_>>().join(" ")
}

const NS: [&str; 4] = ["0", "1", "2", "max"];

fn n_of(s: &str) -> usize {
    if s == "max" {
        usize::MAX
    } else {
        s.parse().unwrap()
    }
}

/// the queries printed in a record and their observed answers
fn ask(d: &dyn Dictionary, res: &str, qkeys: &[Key], rng: &mut Rng) -> (Vec<String>, Vec<String>) {
    let mut qs = vec!["R".to_string()];
    let mut ans = vec![res.to_string()];
    for k in qkeys {
        for fz in [false, true] {
            for n in NS {
                // keep the record short: n = 0 and n = 2 only now and then
                if (n == "0" || n == "2") && !rng.chance(1, 3) {
                    continue;
                }
                qs.push(format!("L,{},{},{}", key_s(k), n, if fz { "f" } else { "s" }));
                ans.push(obs_s(&lookup(d, k, n_of(n), fz)));
            }
            // the provided trait methods, now and then
            if rng.chance(1, 4) {
                qs.push(format!("P,{},{}", key_s(k), if fz { "f" } else { "s" }));
                ans.push(obs_s(&first_phrase(d, k, fz)));
            }
            if rng.chance(1, 4) {
                qs.push(format!("A,{},{}", key_s(k), if fz { "f" } else { "s" }));
                ans.push(obs_s(&all_phrases(d, k, fz)));
            }
        }
    }
    qs.push("E".into());
    ans.push(ents_s(&entries(d)));
    (qs, ans)
}

struct Pools {
    keys: Vec<Key>,
    texts1: Vec<&'static str>,
    texts2: Vec<&'static str>,
}

fn pools() -> Pools {
    let s = |x: &str| x.parse::<Syllable>().unwrap().to_u16();
    let (ce4, ce, c, ce2, shi4, shi, sh) = (s("ㄘㄜˋ"), s("ㄘㄜ"), s("ㄘ"), s("ㄘㄜˊ"), s("ㄕˋ"), s("ㄕ"), s("ㄙ"));
    Pools {
        keys: vec![
            vec![ce4], vec![ce], vec![c], vec![ce2], vec![shi4], vec![shi], vec![], vec![ce4, shi4, ce], vec![c, shi, c],
            vec![ce4, shi4], vec![ce, shi], vec![c, shi], vec![ce4, shi], vec![ce2, shi4], vec![c, sh],
        ],
        texts1: vec!["測", "冊", "a", "é", "𠀀", "\u{10FFFF}"],
        texts2: vec!["測試", "冊試", "ab", "測a", "𠀀é", "\u{10FFFF}é"],
    }
}

impl Pools {
    /// 4 keys of one history: a key, keys related to it by prefix, and a random one
    fn pick_keys(&self, rng: &mut Rng) -> Vec<Key> {
        let mut ks: Vec<Key> = vec![];
        let two = rng.chance(1, 2);
        let cand: Vec<&Key> = self.keys.iter().filter(|k| (k.len() == 2) == two).collect();
        while ks.len() < 3 {
            let k = (*rng.pick(&cand)).clone();
            if !ks.contains(&k) {
                ks.push(k);
            }
        }
        loop {
            let k = rng.pick(&self.keys).clone();
            if !ks.contains(&k) {
                ks.push(k);
                break;
            }
        }
        ks
    }
    fn text(&self, k: &Key, rng: &mut Rng) -> String {
        (if k.len() == 1 { *rng.pick(&self.texts1) } else { *rng.pick(&self.texts2) }).to_string()
    }
}

const FREQS: [u32; 6] = [0, 1, 2, 3, 100, 4_000_000_000];

fn gen_op(p: &Pools, keys: &[Key], r: &Ref, rng: &mut Rng, file: bool) -> Op {
    let k = rng.pick(keys).clone();
    let t = p.text(&k, rng);
    let f = *rng.pick(&FREQS);
    let tm = rng.below(6);
    let w: &[u32] = if file { &[30, 22, 20, 10, 10, 4, 4] } else { &[34, 26, 26, 2, 2, 0, 10] };
    match rng.weighted(w) {
        0 => Op::Add(k, t, f, if rng.chance(1, 4) { None } else { Some(tm) }),
        1 => Op::Update(k, t, f, tm),
        2 => Op::Remove(k, t),
        3 => Op::Flush,
        4 => Op::Reopen,
        5 => Op::CloseOpen,
        _ => {
            // an operation aimed at a live entry (remove / update / re-add of something present)
            if r.m.is_empty() {
                return Op::Add(k, t, f, Some(tm));
            }
            let ix = rng.below(r.m.len() as u64) as usize;
            let (lk, lt) = r.m.keys().nth(ix).unwrap().clone();
            match rng.below(3) {
                0 => Op::Remove(lk, lt),
                1 => Op::Update(lk, lt, f, tm),
                _ => Op::Add(lk, lt, f, Some(tm)),
            }
        }
    }
}

fn writer_pending(d: &TrieBuf) -> bool {
    !format!("{:?}", d).contains("join_handle: None")
}

/// how many sequential `reopen()`s gave up waiting (after a few, nobody waits any more: a run against a
/// broken implementation must still finish quickly and report)
static STUCK: std::sync::atomic::AtomicU32 = std::sync::atomic::AtomicU32::new(0);

/// calls `reopen` until `pending` is false; gives up after 2 s (`false` = the writer registered by
/// `flush()` is still registered: `reopen()` never joins / adopts it)
fn reopen_until(mut reopen: impl FnMut(), mut pending: impl FnMut() -> bool) -> bool {
    use std::sync::atomic::Ordering::Relaxed;
    let patience = if STUCK.load(Relaxed) >= 3 { 20 } else { 2000 };
    let t0 = std::time::Instant::now();
    loop {
        reopen();
        if !pending() {
            return true;
        }
        if t0.elapsed().as_millis() > patience {
            STUCK.fetch_add(1, Relaxed);
            return false;
        }
        std::thread::sleep(std::time::Duration::from_micros(50));
    }
}

/// `reopen()` in the sequential schedule: if a snapshot writer is in flight, wait until it has
/// finished, so that exactly one `sync()` takes effect
fn reopen_seq(d: &mut TrieBuf) -> bool {
    let d = std::cell::RefCell::new(d);
    reopen_until(|| d.borrow_mut().reopen().unwrap(), || writer_pending(&d.borrow()))
}

/// applies one operation to the real dictionary; returns whether it was accepted
fn apply_real(d: &mut TrieBuf, op: &Op, path: Option<&Path>) -> bool {
    match op {
        Op::Add(k, t, f, tm) => {
            let mut p = Phrase::new(t.as_str(), *f);
            if let Some(tm) = tm {
                p = p.with_time(*tm);
            }
            d.add_phrase(&syls(k), p).is_ok()
        }
        Op::Update(k, t, f, tm) => d.update_phrase(&syls(k), Phrase::new(t.as_str(), 0), *f, *tm).is_ok(),
        Op::Remove(k, t) => d.remove_phrase(&syls(k), t).is_ok(),
        Op::Flush => d.flush().is_ok(),
        Op::Reopen => {
            if !reopen_seq(d) {
                panic!("STUCK");
            }
            true
        }
        Op::CloseOpen => {
            let path = path.expect("closeOpen needs a file");
            // the caller has just performed a sequential reopen, no writer is in flight
            let old = std::mem::replace(d, TrieBuf::new_in_memory());
            drop(old);
            *d = TrieBuf::open(path).unwrap();
            true
        }
    }
}

/// one history on a TrieBuf (in-memory or file-backed)
fn run_triebuf(cx: &mut Ctx, p: &Pools, rng: &mut Rng, file: bool, script: Option<(Vec<Key>, Vec<Op>)>, len: usize) {
    let kind = if file { "file" } else { "mem" };
    let tmp = tempfile::tempdir().unwrap();
    let path = tmp.path().join("user.dat");
    let mut d = if file { TrieBuf::open(&path).unwrap() } else { TrieBuf::new_in_memory() };
    let mut r = Ref::default();
    let mut tr = Tracker { file_backed: file, ..Default::default() };
    let (keys, scripted) = match script {
        Some((k, o)) => (k, Some(o)),
        None => (p.pick_keys(rng), None),
    };
    let mut hist: Vec<String> = vec![];
    let n = scripted.as_ref().map_or(len, |s| s.len());
    for i in 0..n {
        let op = match &scripted {
            Some(s) => s[i].clone(),
            None => gen_op(p, &keys, &r, rng, file),
        };
        // the model's closeOpen is Drop + open in the sequential schedule: wait for the writer first
        let ops: Vec<Op> = if matches!(op, Op::CloseOpen) { vec![Op::Reopen, Op::CloseOpen] } else { vec![op] };
        for op in ops {
            let expect_ok = r.clone().apply(&op);
            let ok = match catch_unwind(AssertUnwindSafe(|| apply_real(&mut d, &op, if file { Some(&path) } else { None }))) {
                Ok(ok) => ok,
                Err(e) => {
                    let stuck = e.downcast_ref::<&str>().map_or(false, |m| *m == "STUCK");
                    let what = if stuck {
                        "reopen() was called for 2 s and the snapshot writer registered by flush() is still registered (never joined / adopted)".to_string()
                    } else {
                        "the implementation panicked".to_string()
                    };
                    hist.push(op_s(&op));
                    cx.fail("new", format!("{kind} [{}] {what}", hist.join(" ")));
                    return;
                }
            };
            hist.push(op_s(&op));
            let hs = hist.join(" ");
            if ok != expect_ok {
                cx.fail("new", format!("{kind} [{hs}] the last operation returned {} but the map says {}", ok, expect_ok));
            }
            r.apply(&op);
            tr.apply(&op, ok);
            cx.bump(match &op {
                Op::Add(..) => if ok { "op_add_ok" } else { "op_add_rejected" },
                Op::Update(k, t, ..) => if tr.snap.contains_key(&(k.clone(), t.clone())) { "op_update_persisted" } else { "op_update" },
                Op::Remove(..) => "op_remove",
                Op::Flush => "op_flush",
                Op::Reopen => "op_reopen",
                Op::CloseOpen => "op_close_open",
            });
            if tr.any_shadowed() {
                cx.bump("steps_with_shadowed_key");
            }
            check_triebuf(cx, kind, &d, &r, &tr, &keys, &hs);
            // transcript: queries about the key just touched and one other key
            let mut qkeys: Vec<Key> = vec![];
            match &op {
                Op::Add(k, ..) | Op::Update(k, ..) | Op::Remove(k, ..) => qkeys.push(k.clone()),
                _ => {}
            }
            let other = rng.pick(&keys).clone();
            if !qkeys.contains(&other) {
                qkeys.push(other);
            }
            let (qs, ans) = ask(&d, if ok { "ok" } else { "err" }, &qkeys, rng);
            cx.out.rec(&squash(&format!("dict {} {} {} {} {} => {}", kind, hist.len(), hs, qs.len(), qs.join(" "), ans.join(" "))));
        }
    }
    cx.bump(if file { "histories_file" } else { "histories_mem" });
}

type E = (Key, String, u32, Option<u64>);

fn gen_entries(p: &Pools, keys: &[Key], rng: &mut Rng, n: usize) -> Vec<E> {
    (0..n)
        .map(|_| {
            let k = rng.pick(keys).clone();
            let t = p.text(&k, rng);
            (k, t, *rng.pick(&FREQS), if rng.chance(1, 3) { None } else { Some(rng.below(6)) })
        })
        .collect()
}

fn build_trie(es: &[E]) -> Trie {
    let mut b = TrieBuilder::new();
    for (k, t, f, tm) in es {
        let mut ph = Phrase::new(t.as_str(), *f);
        if let Some(tm) = tm {
            ph = ph.with_time(*tm);
        }
        b.insert(&syls(k), ph).unwrap();
    }
    let mut cur = Cursor::new(vec![]);
    b.write(&mut cur).unwrap();
    cur.rewind().unwrap();
    Trie::new(&mut cur).unwrap()
}

/// reference for a read-only trie: the last insert of a (key, text) wins
fn trie_ref(es: &[E]) -> BTreeMap<PK, (u32, Option<u64>)> {
    es.iter().map(|(k, t, f, tm)| ((k.clone(), t.clone()), (*f, *tm))).collect()
}

fn run_trie(cx: &mut Ctx, p: &Pools, rng: &mut Rng, script: Option<(Vec<Key>, Vec<E>)>) {
    let (keys, es) = match script {
        Some(x) => x,
        None => {
            let keys = p.pick_keys(rng);
            let n = rng.below(14) as usize;
            let es = gen_entries(p, &keys, rng, n);
            (keys, es)
        }
    };
    let t = build_trie(&es);
    let rf = trie_ref(&es);
    let es_s = es.iter().map(entry_s).collect::<Vec<_>>().join(" ");
    let mut qs = vec![];
    let mut ans = vec![];
    for k in &keys {
        for fz in [false, true] {
            let full = lookup(&t, k, usize::MAX, fz);
            // exactly the phrases of the (matching) keys
            let mut want: Vec<(String, u32, Option<u64>)> = rf
                .iter()
                .filter(|((key, _), _)| if fz { fuzzy_match(key, k) } else { key == k })
                .map(|((_, t), v)| (t.clone(), v.0, v.1))
                .collect();
            want.sort();
            let mut got = full.clone();
            got.sort();
            if got != want {
                cx.fail("new", format!("trie [{es_s}] lookup {} fuzzy={}: got {} expected {}", key_s(k), fz, obs_s(&full), obs_s(&want)));
            }
            if let Some(m) = provided_methods_fail(&t, k, fz, &full) {
                cx.fail("new", format!("trie [{es_s}] {m}"));
            }
            for n in NS {
                let part = lookup(&t, k, n_of(n), fz);
                let nn = n_of(n).min(full.len());
                if part[..] != full[..nn] {
                    cx.fail("new", format!("trie [{es_s}] lookup {} n={} fuzzy={}: got {} but the full answer is {} (first n is not a prefix)", key_s(k), n, fz, obs_s(&part), obs_s(&full)));
                }
                qs.push(format!("L,{},{},{}", key_s(k), n, if fz { "f" } else { "s" }));
                ans.push(obs_s(&part));
            }
        }
    }
    let ents = entries(&t);
    let mut got: Vec<(PK, (u32, Option<u64>))> = ents.iter().map(|(k, (t, f, tm))| ((k.clone(), t.clone()), (*f, *tm))).collect();
    got.sort();
    let want: Vec<(PK, (u32, Option<u64>))> = rf.iter().map(|(k, v)| (k.clone(), *v)).collect();
    if got != want {
        cx.fail("new", format!("trie [{es_s}] entries: got {}", ents_s(&ents)));
    }
    qs.push("E".into());
    ans.push(ents_s(&ents));
    cx.out.rec(&squash(&format!("dict trie {} {} {} {} => {}", es.len(), es_s, qs.len(), qs.join(" "), ans.join(" "))));
    cx.bump("tries");
}

/// does the user layer of a `Layered` (the only `TrieBuf` that can have one) have a snapshot writer
/// registered?  (`Layered` hides its layers; `Debug` shows them: `n_triebufs` layers print `join_handle`)
fn layered_writer_pending(l: &Layered, n_triebufs: usize) -> bool {
    format!("{:?}", l).matches("join_handle: None").count() < n_triebufs
}

/// Layered[ TrieBuf(in-memory, filled by adds), Trie ; user = TrieBuf ] under a history applied through
/// `Layered`'s own `DictionaryMut` methods; the user layer is in-memory or (`file`) file-backed, in
/// which case `flush` / `reopen` / close-and-open go through `Layered` as well
fn run_layered(cx: &mut Ctx, p: &Pools, rng: &mut Rng, len: usize, file: bool) {
    let kind = if file { "layf" } else { "lay" };
    let keys = p.pick_keys(rng);
    let na = rng.below(7) as usize;
    let nb = rng.below(7) as usize;
    let a_es = gen_entries(p, &keys, rng, na);
    let b_es = gen_entries(p, &keys, rng, nb);
    let a_ops: Vec<Op> = a_es.iter().map(|(k, t, f, tm)| Op::Add(k.clone(), t.clone(), *f, *tm)).collect();
    // two directories: `TrieBuilder::build` writes `<dir>/chewing-<microseconds of the clock>.dat` and renames
    // it, so two snapshot writers started in the same microsecond in one directory overwrite each other
    // (observed: lost snapshots when `lay` and `twin` shared a directory; concurrency is C10's subject)
    let tmp = tempfile::tempdir().unwrap();
    let tmp_twin = tempfile::tempdir().unwrap();
    let path = tmp.path().join("user.dat");
    let path_twin = tmp_twin.path().join("user.dat");
    let open_user = |path: &Path| -> Box<dyn Dictionary> {
        if file {
            Box::new(TrieBuf::open(path).unwrap())
        } else {
            Box::new(TrieBuf::new_in_memory())
        }
    };
    let mk = |a_ops: &[Op], user: Box<dyn Dictionary>| -> (Layered, Ref, Tracker) {
        let mut a = TrieBuf::new_in_memory();
        let mut ar = Ref::default();
        let mut at = Tracker::default();
        for op in a_ops {
            let ok = apply_real(&mut a, op, None);
            ar.apply(op);
            at.apply(op, ok);
        }
        (Layered::new(vec![Box::new(a), Box::new(build_trie(&b_es))], user), ar, at)
    };
    let (mut lay, a_ref, a_tr) = mk(&a_ops, open_user(&path));
    let (mut twin, _, _) = mk(&a_ops, open_user(&path_twin));
    let b_ref = trie_ref(&b_es);
    let mut u_ref = Ref::default();
    let mut u_tr = Tracker { file_backed: file, ..Default::default() };
    let a_s = a_ops.iter().map(op_s).collect::<Vec<_>>().join(" ");
    let b_s = b_es.iter().map(entry_s).collect::<Vec<_>>().join(" ");
    let mut hist: Vec<String> = vec![];
    for _ in 0..len {
        let mut op = gen_op(p, &keys, &u_ref, rng, file);
        // now and then an empty phrase: `Layered` answers Ok and does not forward it
        if rng.chance(1, 15) {
            op = match op {
                Op::Add(k, _, f, tm) => Op::Add(k, String::new(), f, tm),
                Op::Update(k, _, f, tm) => Op::Update(k, String::new(), f, tm),
                o => o,
            };
        }
        // close-and-open in the sequential schedule: let the writer finish first (as in `run_triebuf`)
        let ops: Vec<Op> = if matches!(op, Op::CloseOpen) { vec![Op::Reopen, Op::CloseOpen] } else { vec![op] };
        for op in ops {
            let skipped = matches!(&op, Op::Add(_, t, ..) | Op::Update(_, t, ..) if t.is_empty());
            if skipped {
                cx.bump("layered_empty_phrase_ops");
            }
            let expect_ok = skipped || u_ref.clone().apply(&op);
            let stuck = std::cell::Cell::new(false);
            let apply_l = |l: &mut Layered, path: &Path| -> bool {
                match &op {
                    Op::Add(k, t, f, tm) => {
                        let mut ph = Phrase::new(t.as_str(), *f);
                        if let Some(tm) = tm {
                            ph = ph.with_time(*tm);
                        }
                        l.add_phrase(&syls(k), ph).is_ok()
                    }
                    Op::Update(k, t, f, tm) => l.update_phrase(&syls(k), Phrase::new(t.as_str(), 0), *f, *tm).is_ok(),
                    Op::Remove(k, t) => l.remove_phrase(&syls(k), t).is_ok(),
                    Op::Flush => l.flush().is_ok(),
                    Op::Reopen => {
                        // sequential schedule: wait until a writer in flight has finished
                        let l = std::cell::RefCell::new(l);
                        if !reopen_until(|| l.borrow_mut().reopen().unwrap(), || layered_writer_pending(&l.borrow(), 2)) {
                            stuck.set(true);
                        }
                        true
                    }
                    Op::CloseOpen => {
                        // drop the whole `Layered` (Drop of the user layer: sync, flush, join) and build
                        // it again on the same user file
                        let old = std::mem::replace(l, Layered::new(vec![], Box::new(TrieBuf::new_in_memory())));
                        drop(old);
                        *l = mk(&a_ops, open_user(path)).0;
                        true
                    }
                }
            };
            let ok = apply_l(&mut lay, &path);
            apply_l(&mut twin, &path_twin);
            hist.push(op_s(&op));
            let hs = format!("A: {a_s} | B: {b_s} | user: {}", hist.join(" "));
            if stuck.get() {
                cx.fail("new", format!("{kind} [{hs}] reopen() through Layered was called for 2 s and the snapshot writer registered by flush() is still registered in the user layer (never joined / adopted)"));
                return;
            }
            if ok != expect_ok {
                cx.fail("new", format!("{kind} [{hs}] the last operation returned {} but the map says {}", ok, expect_ok));
            }
            if !skipped {
                u_ref.apply(&op);
                u_tr.apply(&op, ok);
            }
            if file {
                cx.bump(match &op {
                    Op::Flush => "layf_op_flush",
                    Op::Reopen => "layf_op_reopen",
                    Op::CloseOpen => "layf_op_close_open",
                    _ => "layf_op_write",
                });
                if u_tr.any_shadowed() {
                    cx.bump("layf_steps_with_shadowed_key");
                }
            }
            for k in &keys {
                for fz in [false, true] {
                    let full = lookup(&lay, k, usize::MAX, fz);
                    // union of the layers, one entry per phrase, highest frequency
                    let mut want: BTreeMap<String, u32> = BTreeMap::new();
                    let m = |key: &Key| if fz { fuzzy_match(key, k) } else { key == k };
                    for ((key, t), v) in a_ref.m.iter().chain(u_ref.m.iter()) {
                        if m(key) {
                            let e = want.entry(t.clone()).or_insert(0);
                            *e = (*e).max(v.0);
                        }
                    }
                    for ((key, t), v) in &b_ref {
                        if m(key) {
                            let e = want.entry(t.clone()).or_insert(0);
                            *e = (*e).max(v.0);
                        }
                    }
                    let mut got: BTreeMap<String, u32> = BTreeMap::new();
                    let mut dup = false;
                    for (t, f, _) in &full {
                        dup |= got.insert(t.clone(), *f).is_some();
                    }
                    if fz && (a_tr.in_former_fuzzy_class(k) || u_tr.in_former_fuzzy_class(k)) {
                        cx.bump("layered_prefix_lookups_over_pending_or_tombstone");
                    }
                    if dup || got != want {
                        cx.fail("new", format!("{kind} [{hs}] lookup {} fuzzy={}: got {} expected text->freq {:?}", key_s(k), fz, obs_s(&full), want));
                    }
                    // stable order: an identically built dictionary and a second call give the same sequence
                    if lookup(&twin, k, usize::MAX, fz) != full || lookup(&lay, k, usize::MAX, fz) != full {
                        cx.fail("new", format!("{kind} [{hs}] lookup {} fuzzy={}: order is not stable for equal inputs", key_s(k), fz));
                    }
                    if let Some(m) = provided_methods_fail(&lay, k, fz, &full) {
                        cx.fail("new", format!("{kind} [{hs}] {m}"));
                    }
                    for n in [0usize, 1, 2, 3] {
                        let part = lookup(&lay, k, n, fz);
                        if part[..] != full[..n.min(full.len())] {
                            cx.fail("new", format!("{kind} [{hs}] lookup {} n={} fuzzy={}: got {} but the full answer is {}", key_s(k), n, fz, obs_s(&part), obs_s(&full)));
                        }
                    }
                }
            }
            let mut qkeys: Vec<Key> = vec![];
            match &op {
                Op::Add(k, ..) | Op::Update(k, ..) | Op::Remove(k, ..) => qkeys.push(k.clone()),
                _ => {}
            }
            let other = rng.pick(&keys).clone();
            if !qkeys.contains(&other) {
                qkeys.push(other);
            }
            let (qs, ans) = ask(&lay, if ok { "ok" } else { "err" }, &qkeys, rng);
            cx.out.rec(&squash(&format!("dict {kind} {} {} {} {} {} {} {} {} => {}", a_ops.len(), a_s, b_es.len(), b_s, hist.len(), hist.join(" "), qs.len(), qs.join(" "), ans.join(" "))));
        }
    }
    cx.bump(if file { "histories_layered_file" } else { "histories_layered" });
}

fn guarded(cx: &mut Ctx, what: &str, f: impl FnOnce(&mut Ctx)) {
    let r = catch_unwind(AssertUnwindSafe(|| f(cx)));
    if let Err(e) = r {
        let msg = e.downcast_ref::<String>().cloned().or_else(|| e.downcast_ref::<&str>().map(|s| s.to_string())).unwrap_or_default();
        cx.fail("new", format!("{what}: the implementation panicked: {msg}"));
    }
}

fn main() {
    std::panic::set_hook(Box::new(|_| {}));
    let thorough = tier_is_thorough();
    let mut rng = Rng::new(seed_from_env());
    let p = pools();
    let mut cx = Ctx { out: Out::new(), stats: BTreeMap::new(), known_hits: BTreeMap::new(), new_fails: vec![] };
    let k = &p.keys;
    let (ce4, c) = (k[0].clone(), k[2].clone());

    // ---- witnesses of the pre-survey findings, replayed on every run
    // F09 (fixed by 20fd01a): remove, then add / update the same phrase -> visible again
    for file in [false, true] {
        let s = vec![
            Op::Add(ce4.clone(), "測".into(), 1, Some(2)),
            Op::Remove(ce4.clone(), "測".into()),
            Op::Add(ce4.clone(), "測".into(), 3, Some(4)),
            Op::Remove(ce4.clone(), "測".into()),
            Op::Update(ce4.clone(), "測".into(), 9, 9),
            Op::Flush,
            Op::Reopen,
            Op::Remove(ce4.clone(), "測".into()),
            Op::Flush,
            Op::Reopen,
            Op::Update(ce4.clone(), "測".into(), 5, 5),
        ];
        guarded(&mut cx, "F09 witness", |cx| run_triebuf(cx, &p, &mut Rng::new(1), file, Some((vec![ce4.clone(), c.clone()], s)), 0));
    }
    // F10 (fixed by 8e6d504; was class UpdatePersisted): update an entry that is already in the persisted
    // snapshot -> looked up with the new value, enumerated once
    let s = vec![
        Op::Add(ce4.clone(), "測".into(), 100, Some(2)),
        Op::Flush,
        Op::Reopen,
        Op::Update(ce4.clone(), "測".into(), 50, 7),
    ];
    guarded(&mut cx, "F10 witness", |cx| run_triebuf(cx, &p, &mut Rng::new(1), true, Some((vec![ce4.clone()], s)), 0));
    // F36 (fixed by c3d9fb2; was class FuzzyOverTombstoneOrPending): the prefix lookup honours the tombstone
    // of a removed persisted entry, sees pending entries under other matching keys, and reports an updated
    // persisted entry with its new (lower) value
    let s = vec![
        Op::Add(ce4.clone(), "測".into(), 100, Some(2)),
        Op::Flush,
        Op::Reopen,
        Op::Remove(ce4.clone(), "測".into()),
        Op::Add(ce4.clone(), "冊".into(), 1, Some(1)),
        Op::Update(ce4.clone(), "測".into(), 50, 7),
        Op::Flush,
        Op::Reopen,
        Op::Update(ce4.clone(), "測".into(), 3, 8),
        Op::Add(k[1].clone(), "測".into(), 2, Some(1)),
    ];
    guarded(&mut cx, "F36 witness", |cx| run_triebuf(cx, &p, &mut Rng::new(1), true, Some((vec![ce4.clone(), c.clone(), k[1].clone()], s)), 0));
    let s = vec![Op::Add(ce4.clone(), "測".into(), 1, Some(2)), Op::Remove(ce4.clone(), "測".into())];
    guarded(&mut cx, "F36 witness (in-memory)", |cx| run_triebuf(cx, &p, &mut Rng::new(1), false, Some((vec![ce4.clone(), c.clone()], s)), 0));
    // MaxCodePointPhrase (fixed by 2c45871): a pending phrase beginning with U+10FFFF is looked up like any other
    let s = vec![
        Op::Add(ce4.clone(), "\u{10FFFF}".into(), 1, Some(0)),
        Op::Add(ce4.clone(), "\u{10FFFF}".into(), 2, Some(0)),
        Op::Add(ce4.clone(), "\u{10FFFF}測".into(), 3, Some(1)),
    ];
    guarded(&mut cx, "MaxCodePointPhrase witness", |cx| run_triebuf(cx, &p, &mut Rng::new(1), false, Some((vec![ce4.clone()], s)), 0));
    // F11 (fixed by 4e93dec): first n of a 4-phrase leaf
    let es: Vec<E> = ["測", "冊", "a", "é"].iter().map(|t| (ce4.clone(), t.to_string(), 1u32, None)).collect();
    guarded(&mut cx, "F11 witness", |cx| run_trie(cx, &p, &mut Rng::new(1), Some((vec![ce4.clone(), c.clone()], es))));
    // comparator of TrieBuilder::write (fixed by ddfe893): a leaf mixing single characters with longer phrases — the
    // single characters come first whatever their UTF-8 length (before the fix the 4-byte single character U+20000
    // sorted after the 2-byte phrase "ab"); the model's leaf order (C09.leaf_order_is_C11) must reproduce the lookup
    let es: Vec<E> = [("ab", 1u32), ("\u{20000}", 1), ("測試", 5), ("a", 7), ("cd", 5)]
        .iter()
        .map(|(t, f)| (ce4.clone(), t.to_string(), *f, None))
        .collect();
    guarded(&mut cx, "mixed leaf witness", |cx| run_trie(cx, &p, &mut Rng::new(1), Some((vec![ce4.clone(), c.clone()], es))));

    // ---- random histories
    let scale = if thorough { 20 } else { 1 };
    let len = 30;
    for _ in 0..500 * scale {
        let mut r2 = Rng::new(rng.next());
        guarded(&mut cx, "mem history", |cx| run_triebuf(cx, &p, &mut r2, false, None, len));
    }
    for _ in 0..700 * scale {
        let mut r2 = Rng::new(rng.next());
        guarded(&mut cx, "file history", |cx| run_triebuf(cx, &p, &mut r2, true, None, len));
    }
    for _ in 0..1000 * scale {
        let mut r2 = Rng::new(rng.next());
        guarded(&mut cx, "trie", |cx| run_trie(cx, &p, &mut r2, None));
    }
    for _ in 0..300 * scale {
        let mut r2 = Rng::new(rng.next());
        guarded(&mut cx, "layered history", |cx| run_layered(cx, &p, &mut r2, 20, false));
    }
    for _ in 0..200 * scale {
        let mut r2 = Rng::new(rng.next());
        guarded(&mut cx, "layered history (file-backed user layer)", |cx| run_layered(cx, &p, &mut r2, 20, true));
    }

    let stats = std::mem::take(&mut cx.stats);
    for (k, v) in &stats {
        cx.out.stat(k, v);
    }
    let hits = std::mem::take(&mut cx.known_hits);
    for (k, v) in &hits {
        cx.out.stat(&format!("oracle_failures_{k}"), v);
    }
    cx.flush_new();
}
