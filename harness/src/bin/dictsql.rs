//! C09 stage C: the SQLite user dictionary (`SqliteDictionary`, feature `sqlite`) under random
//! histories: correspondence records for the relational model + reference-map oracle.
//! Built without the feature this binary does nothing.
#[cfg(not(feature = "sqlite"))]
fn main() {
    println!("#stat sqlite_feature 0");
}

#[cfg(feature = "sqlite")]
fn main() {
    sql::main()
}

#[cfg(feature = "sqlite")]
mod sql {
    use chewing::dictionary::{
        Dictionary, DictionaryBuilder, DictionaryMut, LookupStrategy, Phrase, SqliteDictionary,
        SqliteDictionaryBuilder,
    };
    use chewing::zhuyin::Syllable;
    use std::collections::BTreeMap;
    use std::panic::{catch_unwind, AssertUnwindSafe};
    use vharness::*;

    type Key = Vec<u16>;
    type PK = (Key, String);
    /// stored frequency, and (user frequency, time) once learned
    type SVal = (u32, Option<(u32, u64)>);
    type Obs = (String, u32, Option<u64>);

    #[derive(Clone, Debug)]
    enum Op {
        Add(Key, String, u32),
        Update(Key, String, u32, u32, u64),
        Remove(Key, String),
        Flush,
        Reopen,
        CloseOpen,
    }

    fn syls(k: &[u16]) -> Vec<Syllable> {
        k.iter().map(|c| Syllable::try_from(*c).unwrap()).collect()
    }
    fn key_s(k: &[u16]) -> String {
        k.iter().map(|c| c.to_string()).collect::<Vec<_>>().join(".")
    }
    fn op_s(op: &Op) -> String {
        match op {
            Op::Add(k, t, f) => format!("a,{},{},{}", key_s(k), hx(t), f),
            Op::Update(k, t, o, uf, tm) => format!("u,{},{},{},{},{}", key_s(k), hx(t), o, uf, tm),
            Op::Remove(k, t) => format!("r,{},{}", key_s(k), hx(t)),
            Op::Flush => "f".into(),
            Op::Reopen => "o".into(),
            Op::CloseOpen => "c".into(),
        }
    }
    fn obs(p: &Phrase) -> Obs {
        (p.as_str().to_string(), p.freq(), p.last_used())
    }
    fn obs_s(l: &[Obs]) -> String {
        if l.is_empty() {
            "-".into()
        } else {
            l.iter().map(|(t, f, tm)| format!("{}/{}/{}", hx(t), f, opt(*tm))).collect::<Vec<_>>().join(";")
        }
    }
    fn ents_s(l: &[(Key, Obs)]) -> String {
        let mut l = l.to_vec();
        l.sort_by(|a, b| (&a.0, &a.1 .0).cmp(&(&b.0, &b.1 .0)));
        if l.is_empty() {
            "-".into()
        } else {
            l.iter().map(|(k, (t, f, tm))| format!("{}/{}/{}/{}", key_s(k), hx(t), f, opt(*tm))).collect::<Vec<_>>().join(";")
        }
    }
    fn lookup(d: &dyn Dictionary, k: &[u16], n: usize, fuzzy: bool) -> Vec<Obs> {
        let st = if fuzzy { LookupStrategy::FuzzyPartialPrefix } else { LookupStrategy::Standard };
        d.lookup_first_n_phrases(&syls(k), n, st).iter().map(obs).collect()
    }
    fn entries(d: &dyn Dictionary) -> Vec<(Key, Obs)> {
        d.entries().map(|(k, p)| (k.iter().map(|s| s.to_u16()).collect(), obs(&p))).collect()
    }

    /// reference: a map to (stored freq, Option(user freq, time)); what is reported is the maximum
    #[derive(Clone, Default)]
    struct Ref {
        m: BTreeMap<PK, SVal>,
    }
    impl Ref {
        fn apply(&mut self, op: &Op) {
            match op {
                Op::Add(k, t, f) => {
                    self.m.insert((k.clone(), t.clone()), (*f, None));
                }
                Op::Update(k, t, orig, uf, tm) => {
                    let pk = (k.clone(), t.clone());
                    let v = match self.m.get(&pk) {
                        Some((o, Some((_, t0)))) => (*o, Some((*uf, *t0))),
                        _ => (*orig, Some((*uf, *tm))),
                    };
                    self.m.insert(pk, v);
                }
                Op::Remove(k, t) => {
                    self.m.remove(&(k.clone(), t.clone()));
                }
                _ => {}
            }
        }
        fn report(v: &SVal) -> (u32, Option<u64>) {
            match v.1 {
                Some((uf, tm)) => (v.0.max(uf), Some(tm)),
                None => (v.0, None),
            }
        }
        fn of_key(&self, k: &[u16]) -> BTreeMap<String, (u32, Option<u64>)> {
            self.m.iter().filter(|((key, _), _)| key == k).map(|((_, t), v)| (t.clone(), Self::report(v))).collect()
        }
    }

    const NS: [&str; 4] = ["0", "1", "2", "max"];
    const FREQS: [u32; 6] = [0, 1, 2, 3, 100, 4_000_000_000];

    pub fn main() {
        std::panic::set_hook(Box::new(|_| {}));
        let thorough = tier_is_thorough();
        let mut rng = Rng::new(seed_from_env() ^ 0x5151);
        let mut out = Out::new();
        let s = |x: &str| x.parse::<Syllable>().unwrap().to_u16();
        let keys_all: Vec<Key> = vec![
            vec![s("ㄘㄜˋ")], vec![s("ㄘㄜ")], vec![s("ㄘ")], vec![s("ㄕˋ")],
            vec![s("ㄘㄜˋ"), s("ㄕˋ")], vec![s("ㄘㄜ"), s("ㄕ")], vec![s("ㄘ"), s("ㄕ")],
        ];
        let texts1 = ["測", "冊", "a", "é", "𠀀"];
        let texts2 = ["測試", "冊試", "ab", "測a", "𠀀é"];
        let mut new_fails: Vec<String> = vec![];
        let mut stats: BTreeMap<&'static str, u64> = BTreeMap::new();
        let n_hist = if thorough { 6000 } else { 300 };
        for _ in 0..n_hist {
            let mut r2 = Rng::new(rng.next());
            let res = catch_unwind(AssertUnwindSafe(|| {
                let rng = &mut r2;
                let mut fails: Vec<String> = vec![];
                let mut recs: Vec<String> = vec![];
                let mut st: Vec<&'static str> = vec![];
                let mut keys: Vec<Key> = vec![];
                while keys.len() < 3 {
                    let k = rng.pick(&keys_all).clone();
                    if !keys.contains(&k) {
                        keys.push(k);
                    }
                }
                let text = |k: &Key, rng: &mut Rng| -> String {
                    (if k.len() == 1 { *rng.pick(&texts1) } else { *rng.pick(&texts2) }).to_string()
                };
                // a memory-backed scratch directory when there is one (SQLite syncs on every commit)
                let tmp = if std::path::Path::new("/dev/shm").is_dir() {
                    tempfile::tempdir_in("/dev/shm").unwrap()
                } else {
                    tempfile::tempdir().unwrap()
                };
                let path = tmp.path().join("user.sqlite3");
                // initial content through the builder (gives sort ids)
                let ne = rng.below(6) as usize;
                let mut es: Vec<(Key, String, u32)> = vec![];
                let mut b = SqliteDictionaryBuilder::new();
                let mut rf = Ref::default();
                for _ in 0..ne {
                    let k = rng.pick(&keys).clone();
                    let t = text(&k, rng);
                    let f = *rng.pick(&FREQS);
                    b.insert(&syls(&k), Phrase::new(t.as_str(), f)).unwrap();
                    rf.m.insert((k.clone(), t.clone()), (f, None));
                    es.push((k, t, f));
                }
                b.build(&path).unwrap();
                drop(b);
                let mut d = SqliteDictionary::open(&path).unwrap();
                let es_s = es.iter().map(|(k, t, f)| format!("{},{},{},-", key_s(k), hx(t), f)).collect::<Vec<_>>().join(" ");
                let mut hist: Vec<String> = vec![];
                for _ in 0..25 {
                    let k = rng.pick(&keys).clone();
                    let t = text(&k, rng);
                    let f = *rng.pick(&FREQS);
                    let op = match rng.weighted(&[28, 28, 22, 3, 3, 4, 12]) {
                        0 => Op::Add(k, t, f),
                        1 => Op::Update(k, t, f, *rng.pick(&FREQS), rng.below(6)),
                        2 => Op::Remove(k, t),
                        3 => Op::Flush,
                        4 => Op::Reopen,
                        5 => Op::CloseOpen,
                        _ => {
                            if rf.m.is_empty() {
                                Op::Add(k, t, f)
                            } else {
                                let ix = rng.below(rf.m.len() as u64) as usize;
                                let (lk, lt) = rf.m.keys().nth(ix).unwrap().clone();
                                match rng.below(3) {
                                    0 => Op::Remove(lk, lt),
                                    1 => Op::Update(lk, lt, f, *rng.pick(&FREQS), rng.below(6)),
                                    _ => Op::Add(lk, lt, f),
                                }
                            }
                        }
                    };
                    let ok = match &op {
                        Op::Add(k, t, f) => d.add_phrase(&syls(k), Phrase::new(t.as_str(), *f).with_time(77)).is_ok(),
                        Op::Update(k, t, o, uf, tm) => d.update_phrase(&syls(k), Phrase::new(t.as_str(), *o), *uf, *tm).is_ok(),
                        Op::Remove(k, t) => d.remove_phrase(&syls(k), t).is_ok(),
                        Op::Flush => d.flush().is_ok(),
                        Op::Reopen => d.reopen().is_ok(),
                        Op::CloseOpen => {
                            drop(d);
                            d = SqliteDictionary::open(&path).unwrap();
                            true
                        }
                    };
                    st.push(match &op {
                        Op::Add(..) => "op_add",
                        Op::Update(..) => "op_update",
                        Op::Remove(..) => "op_remove",
                        Op::Flush => "op_flush",
                        Op::Reopen => "op_reopen",
                        Op::CloseOpen => "op_close_open",
                    });
                    rf.apply(&op);
                    hist.push(op_s(&op));
                    let hs = format!("built: {es_s} | {}", hist.join(" "));
                    if !ok {
                        fails.push(format!("sqlite [{hs}] the last operation failed"));
                    }
                    // ORACLE: exact lookups, first n, enumeration
                    let mut qs = vec!["R".to_string()];
                    let mut ans = vec!["ok".to_string()];
                    for k in &keys {
                        let full = lookup(&d, k, usize::MAX, false);
                        let spec = rf.of_key(k);
                        let mut got: BTreeMap<String, (u32, Option<u64>)> = BTreeMap::new();
                        let mut dup = false;
                        for (t, f, tm) in &full {
                            dup |= got.insert(t.clone(), (*f, *tm)).is_some();
                        }
                        if dup || got != spec {
                            fails.push(format!("sqlite [{hs}] lookup {}: got {} expected(map) {:?}", key_s(k), obs_s(&full), spec));
                        }
                        for fz in [false, true] {
                            // provided trait methods: first phrase = head, all phrases = full answer
                            let stg = if fz { LookupStrategy::FuzzyPartialPrefix } else { LookupStrategy::Standard };
                            let fp: Vec<Obs> = d.lookup_first_phrase(&syls(k), stg).iter().map(obs).collect();
                            let ap: Vec<Obs> = d.lookup_all_phrases(&syls(k), stg).iter().map(obs).collect();
                            if fp[..] != full[..1.min(full.len())] || ap != full {
                                fails.push(format!("sqlite [{hs}] lookup_first_phrase / lookup_all_phrases {} fuzzy={}: got {} / {} but the full answer is {}", key_s(k), fz, obs_s(&fp), obs_s(&ap), obs_s(&full)));
                            }
                            if rng.chance(1, 6) {
                                qs.push(format!("P,{},{}", key_s(k), if fz { "f" } else { "s" }));
                                ans.push(obs_s(&fp));
                                qs.push(format!("A,{},{}", key_s(k), if fz { "f" } else { "s" }));
                                ans.push(obs_s(&ap));
                            }
                            for n in NS {
                                let nn = if n == "max" { usize::MAX } else { n.parse().unwrap() };
                                let part = lookup(&d, k, nn, fz);
                                // the strategy is ignored: prefix lookups answer like exact ones
                                if part[..] != full[..nn.min(full.len())] {
                                    fails.push(format!("sqlite [{hs}] lookup {} n={} fuzzy={}: got {} but the full answer is {}", key_s(k), n, fz, obs_s(&part), obs_s(&full)));
                                }
                                if rng.chance(1, 3) {
                                    qs.push(format!("L,{},{},{}", key_s(k), n, if fz { "f" } else { "s" }));
                                    ans.push(obs_s(&part));
                                }
                            }
                        }
                    }
                    let ents = entries(&d);
                    let mut got: Vec<(PK, (u32, Option<u64>))> = ents.iter().map(|(k, (t, f, tm))| ((k.clone(), t.clone()), (*f, *tm))).collect();
                    got.sort();
                    let want: Vec<(PK, (u32, Option<u64>))> = rf.m.iter().map(|(k, v)| (k.clone(), Ref::report(v))).collect();
                    if got != want {
                        fails.push(format!("sqlite [{hs}] entries: got {} expected(map) {:?}", ents_s(&ents), want));
                    }
                    qs.push("E".into());
                    ans.push(ents_s(&ents));
                    let rec = format!("dictsql hist {} {} {} {} {} {} => {}", es.len(), es_s, hist.len(), hist.join(" "), qs.len(), qs.join(" "), ans.join(" "));
                    recs.push(rec.split_whitespace().collect::<Vec<_>>().join(" "));
                }
                (fails, recs, st)
            }));
            match res {
                Ok((fails, recs, st)) => {
                    new_fails.extend(fails);
                    for r in recs {
                        out.rec(&r);
                    }
                    for s in st {
                        *stats.entry(s).or_insert(0) += 1;
                    }
                    *stats.entry("histories_sqlite").or_insert(0) += 1;
                }
                Err(e) => {
                    let msg = e.downcast_ref::<String>().cloned().or_else(|| e.downcast_ref::<&str>().map(|s| s.to_string())).unwrap_or_default();
                    new_fails.push(format!("sqlite history: the implementation panicked: {msg}"));
                }
            }
        }
        new_fails.sort_by_key(|d| d.len());
        for d in new_fails.iter().take(400) {
            out.oracle_fail("C09", "new", d);
        }
        out.stat("sqlite_feature", 1);
        for (k, v) in &stats {
            out.stat(k, v);
        }
        out.stat("oracle_failures_new", new_fails.len());
        out.flush();
    }
}
