//! Closed-world breadth-first exploration of the REAL editor (`editor --bfs <config-id>|all`).
//!
//! A configuration = one conversion engine, one `auto_commit_threshold`, one option profile, ONE tiny fixed dictionary,
//! the small symbol table, auto-learning disabled, and a finite operation alphabet Σ (keys and API calls, no option /
//! layout / engine / learn / unlearn operation).  Under these conditions the set of editor states reachable from a
//! freshly built editor is finite (the pre-edit length is bounded: Props/C05Bound.lean, cited by Props/EditorTie.lean).
//! The set is explored breadth-first and ONE ordinary `ed …` transcript record is written for EVERY pair
//! (reachable state, operation of Σ): the Lean driver recomputes every record from the exported pre-state.  When the
//! work list runs empty (`closed = 1`) the model and the implementation agree on every transition of a set that
//! contains the initial state and is closed under the implementation's steps; `Chewing.EditorTie.editor_tie_lift`
//! (an instance of `bisim_lift`) turns that into agreement on EVERY operation list of ANY length over Σ.
//!
//! `Editor` is not `Clone`: a state is re-created by REPLAY.  Every discovered state keeps one shortest history (parent
//! pointer + operation); to take one transition a fresh session of the configuration is built, the history is replayed
//! (no records; when the state has an open candidate list or a highlighted range the oracles are fed with the replayed
//! steps through a muted `Out`, because some of them keep state across the steps of a session — C05's list frames,
//! C02's ledger — every replayed step was recorded and judged when it was first explored; otherwise by bare calls), then the one operation is applied by `step` below: the same snapshots, answers, oracles and
//! record text as the generated sessions of main.rs (`rec_ok` / `rec_panic` / `rec_cands`).  When a transition leads
//! back to the state it started from (an ignored key, a bell, a no-op call: the majority) the live session is kept
//! for the next operation instead of being rebuilt; its history then contains that loop step (histories in reports
//! are always the operations really applied).
//!
//! STATE IDENTITY = the complete snapshot text of the records (hook H1: state kind with the whole selector — page,
//! action, range, direction, strategy, its copy of the buffer —, composition editor with cursor, CURSOR STACK, symbols,
//! gaps, selections; phonetic buffer; engine + symbol tables + their cursor; all 14 options; last key behaviour, dirty
//! level, nth conversion, COMMIT and NOTICE buffers) + the complete dictionary snapshot (system layer, user entries,
//! tombstones), with exactly ONE field normalised: the estimator clock (last token of the snapshot).
//! Why the clock cannot influence anything here: `LaxUserFreqEstimate` is ticked by every `process_keyevent` and is read
//! in exactly one place, `SharedState::learn_phrase` (`estimate.estimate(..)`, `estimate.now()`), which is reached from
//! (1) the public `learn_phrase` — not in Σ; (2) `auto_learn`, called by `commit()` only under
//! `!options.disable_auto_learn_phrase` — the option is TRUE in every configuration and Σ has no option operation (the
//! options are part of the identity, so a change would show); (3) nowhere else: Ctrl+digit (`learn_phrase_in_range_*`)
//! adds with a constant frequency and does not read the clock, and is NOT in Σ anyway (user-dictionary growth would make
//! the world 2^(learnable phrases) times larger; left out, said so in the evidence).  No getter shows the clock.  The
//! model agrees: `Shared.time` is read by `Shared.learnPhrase` only.  The records still carry the REAL clock value, so
//! the model recomputes the real post-clock on every transition.
//!
//! DETERMINISM is checked on every replay: the identity reached by replaying a state's history must be the identity
//! stored when the state was discovered; a difference is reported as `!oracle C17 new` (an editor whose behaviour
//! depends on something the snapshot does not show).
use crate::step::{CandView, Step};
use crate::{engine, kb_s, layout, op_s, ConvLog, LayoutCell, Op, Session, SharedLayout, SysLayer};
use chewing::dictionary::{Dictionary, DictionaryMut, Layered, LookupStrategy, Phrase, TrieBuf};
use chewing::editor::keyboard::{KeyCode, KeyEvent, KeyboardLayout, Modifiers, Qwerty};
use chewing::editor::zhuyin_layout::{KeyBehavior, Standard, SyllableEditor};
use chewing::editor::{
    AbbrevTable, BasicEditor, CharacterForm, ConversionEngineKind, Editor, EditorOptions, LanguageMode, LaxUserFreqEstimate,
    SymbolSelector, UserPhraseAddDirection,
};
use chewing::zhuyin::Syllable;
use std::cell::RefCell;
use std::collections::{BTreeMap, HashMap, VecDeque};
use std::io::Write as _;
use std::panic::{catch_unwind, AssertUnwindSafe};
use std::rc::Rc;
use std::time::Instant;
use vharness::Out;

/// the small symbol table of the generated sessions
const SYMBOLS: &str = "…\n※\n常用符號=，、。\n括號=（）「」\n";

/// Standard-layout key sequences of the three syllables of the closed world: ㄅㄞˇ (1 9 3), ㄨˇ (j 3), ㄉㄨˇ (2 j 3).
/// All their keys are also keys Σ needs anyway (digits 1 2 3 9 0 choose candidates, j / k move an open list), so the
/// phonetic buffer ranges over few partial syllables: initial {-, ㄅ, ㄉ} x medial {-, ㄨ} x final {-, ㄞ, ㄢ (0), ㄜ (k)}.
const SEQS: [&[KeyCode]; 3] = [&[KeyCode::N1, KeyCode::N9, KeyCode::N3], &[KeyCode::J, KeyCode::N3], &[KeyCode::N2, KeyCode::J, KeyCode::N3]];

fn syllables() -> Vec<Syllable> {
    SEQS.iter()
        .map(|seq| {
            let mut l = Standard::new();
            let mut last = KeyBehavior::Ignore;
            for k in seq.iter() {
                last = l.key_press(Qwerty.map(*k));
            }
            assert!(last == KeyBehavior::Commit && !l.read().is_empty());
            l.read()
        })
        .collect()
}

/// homophones for every syllable (ㄨˇ has three: two pages at page size 2), the phrase 五百 (ㄨˇ ㄅㄞˇ) and the crossing
/// phrase 擺舞 (ㄅㄞˇ ㄨˇ): ㄨˇ ㄅㄞˇ ㄨˇ segments as 五百|舞 or 五|擺舞 (needs a threshold >= 3 to be typed in full)
fn system_layer(s: &[Syllable]) -> SysLayer {
    vec![
        (vec![s[0]], "百".into(), 100),
        (vec![s[0]], "擺".into(), 50),
        (vec![s[1]], "五".into(), 100),
        (vec![s[1]], "午".into(), 50),
        (vec![s[1]], "舞".into(), 10),
        (vec![s[2]], "賭".into(), 100),
        (vec![s[2]], "堵".into(), 50),
        (vec![s[1], s[0]], "五百".into(), 200),
        (vec![s[0], s[1]], "擺舞".into(), 150),
    ]
}

#[derive(Clone)]
pub struct Config {
    pub id: String,
    engine: u8,
    opts: EditorOptions,
    alphabet: Vec<Op>,
}

fn engine_name(k: u8) -> &'static str {
    match k {
        0 => "simple",
        2 => "fuzzy",
        _ => "chewing",
    }
}

fn base_opts(engine: u8, thr: usize) -> EditorOptions {
    EditorOptions {
        easy_symbol_input: false,
        esc_clear_all_buffer: false,
        space_is_select_key: false,
        auto_shift_cursor: false,
        phrase_choice_rearward: false,
        // the clock argument of the module comment rests on this
        disable_auto_learn_phrase: true,
        auto_commit_threshold: thr,
        candidates_per_page: 10,
        language_mode: LanguageMode::Chinese,
        character_form: CharacterForm::Halfwidth,
        user_phrase_add_dir: UserPhraseAddDirection::Forward,
        lookup_strategy: if engine == 2 { LookupStrategy::FuzzyPartialPrefix } else { LookupStrategy::Standard },
        conversion_engine: match engine {
            0 => ConversionEngineKind::SimpleEngine,
            2 => ConversionEngineKind::FuzzyChewingEngine,
            _ => ConversionEngineKind::ChewingEngine,
        },
        enable_fullwidth_toggle_key: true,
    }
}

/// Σ of a configuration.  `sigma` names the part of the alphabet beyond the CORE (which every configuration has):
/// core = the keys of the syllables (they are also the digits that choose candidates and the list movers j / k), 13
///        navigation / editing keys (all but Tab, see below), a key without a character, the 13 API operations;
/// hl   = core + Shift+Left / Shift+Right (highlighting; the user dictionary grows, see below);
/// sym  = core + one punctuation key (full-width comma: has a special-symbol list), the symbol-table key (backtick), a
///        NumLock digit (+ Shift+Z, the two-character easy-symbol expansion, in the `alt` option profile);
/// mode = core + CapsLock (language mode) + Shift+Space (character form / an ordinary key without the toggle option);
/// lean = core - {0, k, Space};
/// tab  = core + Tab;
/// full = core + hl + sym + mode + Tab (the alphabet of the work package, 42 / 43 operations).
/// Every symbol a key can put into the buffer multiplies the world (buffer contents x commit string x modes): the
/// reduced alphabets are what CLOSES within the budget; `full` is explored to the budget and reported as not closed.
fn alphabet(alt: bool, sigma: &str) -> Vec<Op> {
    use KeyCode::*;
    let plain = Modifiers::default();
    let mut v: Vec<Op> = vec![];
    // the keys of the syllables (incl. what types a bare tone `3`, an incomplete syllable `1`, `2 j`) = the digits that
    // choose candidates 1 2 3 9 0 and the list movers j k
    for c in [N1, N2, N3, N9, J] {
        v.push(Op::Key(c, plain));
    }
    for c in [Left, Right, Home, End, Up, Down, PageUp, PageDown, Enter, Esc, Backspace, Del] {
        v.push(Op::Key(c, plain));
    }
    if sigma != "lean" {
        // 0 (ㄢ) and k (ㄜ) double the phonetic buffers; Space inserts a blank, on which Down opens the symbol table (20
        // more symbols): `lean` = core without these three is what closes for thresholds above 1
        for c in [N0, K, Space] {
            v.push(Op::Key(c, plain));
        }
    }
    // Tab at the end of a non-empty buffer increments `nth_conversion` WITHOUT BOUND (it is reduced modulo the number of
    // alternatives only where it is read, and reset by commit / clear): with Tab the reachable set is infinite and no
    // exploration can close.  Tab is therefore only in the alphabets `tab` (= core + Tab) and `full`.
    if sigma == "tab" || sigma == "full" {
        v.push(Op::Key(Tab, plain));
    }
    // Shift+Left / Shift+Right highlight a range and the key that ends the highlight ADDS the range to the user dictionary
    // (like Ctrl+digit): the user dictionary then grows (2^(learnable phrases) dictionary worlds; the dictionary snapshot is
    // part of the identity, so this is explored, not hidden) - only in the alphabets `hl` (= core + these two) and `full`
    if sigma == "hl" || sigma == "full" {
        v.push(Op::Key(Left, Modifiers::shift()));
        v.push(Op::Key(Right, Modifiers::shift()));
    }
    v.push(Op::Key(Unknown, plain));
    if sigma == "mode" || sigma == "full" {
        v.push(Op::Key(Unknown, Modifiers::capslock()));
        v.push(Op::Key(Space, Modifiers::shift()));
    }
    if sigma == "sym" || sigma == "full" {
        v.push(Op::Key(Comma, plain));
        v.push(Op::Key(Grave, plain));
        v.push(Op::Key(N1, Modifiers::numlock()));
        if alt {
            v.push(Op::Key(Z, Modifiers::shift()));
        }
    }
    for n in [0usize, 1, 7] {
        v.push(Op::Select(n));
    }
    v.extend([Op::StartSel, Op::CancelSel, Op::Commit, Op::Clear, Op::Ack, Op::ClearSyl]);
    for j in 0..4u8 {
        v.push(Op::Jump(j));
    }
    v
}

/// engines {chewing, simple, fuzzy} x auto_commit_threshold {1, 2, 3} x option profiles {dflt, alt} x alphabets
/// dflt: page size 10, everything else off, full-width toggle key on
/// alt : page size 2, space_is_select_key, esc_clear_all_buffer, phrase_choice_rearward, easy_symbol_input,
///       auto_shift_cursor, full-width toggle key off (Shift+Space is then an ordinary key)
pub fn configs() -> Vec<Config> {
    let mut out = vec![];
    for sigma in ["lean", "core", "hl", "sym", "mode", "tab", "full"] {
        for thr in [1usize, 2, 3] {
            for engine in [1u8, 0, 2] {
                for alt in [false, true] {
                    let mut o = base_opts(engine, thr);
                    if alt {
                        o.candidates_per_page = 2;
                        o.space_is_select_key = true;
                        o.esc_clear_all_buffer = true;
                        o.phrase_choice_rearward = true;
                        o.easy_symbol_input = true;
                        o.auto_shift_cursor = true;
                        o.enable_fullwidth_toggle_key = false;
                    }
                    out.push(Config {
                        id: format!("{}-t{}-{}-{}", engine_name(engine), thr, if alt { "alt" } else { "dflt" }, sigma),
                        engine,
                        opts: o,
                        alphabet: alphabet(alt, sigma),
                    });
                }
            }
        }
    }
    out
}

struct World {
    layer: SysLayer,
    abbr: tempfile::NamedTempFile,
}

fn build(w: &World, cfg: &Config) -> Session {
    let mk = || {
        let mut d = TrieBuf::new_in_memory();
        for (k, p, f) in &w.layer {
            DictionaryMut::add_phrase(&mut d, k, Phrase::new(p.as_str(), *f)).unwrap();
        }
        d
    };
    let sys_boxes: Vec<Box<dyn Dictionary>> = vec![Box::new(crate::FuelDict(mk()))];
    let user = Box::new(TrieBuf::new_in_memory());
    let user_ptr: *const TrieBuf = &*user;
    let dict = Layered::new(sys_boxes, user);
    let conv_log: ConvLog = Rc::new(RefCell::new(vec![]));
    let lay: LayoutCell = Rc::new(RefCell::new(layout(0)));
    let abbr = AbbrevTable::open(w.abbr.path()).unwrap();
    let sym_sel = SymbolSelector::new(std::io::Cursor::new(SYMBOLS)).unwrap();
    let mut ed = Editor::new(engine(cfg.engine, &conv_log), dict, LaxUserFreqEstimate::new(0), abbr, sym_sel);
    ed.set_syllable_editor(Box::new(SharedLayout(lay.clone())));
    ed.set_editor_options(cfg.opts);
    Session { ed, lay, conv_log, user: user_ptr, sys: vec![w.layer.clone()], layout_kind: 0, probes: vec![mk()], engine_kind: cfg.engine }
}

fn event(op: &Op) -> Option<KeyEvent> {
    match op {
        Op::Key(c, m) => Some(Qwerty.map_with_mod(*c, *m)),
        _ => None,
    }
}

/// the operation itself, as main.rs applies it (the kinds Σ uses); Err("panic" | "hang")
fn apply(s: &mut Session, op: &Op) -> Result<String, &'static str> {
    let ev = event(op);
    let okerr = |b: bool| -> String { if b { "ok".into() } else { "err".into() } };
    crate::guarded(|| -> String {
        match op {
            Op::Key(..) => kb_s(s.ed.process_keyevent(ev.unwrap())).to_string(),
            Op::Select(n) => okerr(s.ed.select(*n).is_ok()),
            Op::StartSel => okerr(s.ed.start_selecting().is_ok()),
            Op::CancelSel => okerr(s.ed.cancel_selecting().is_ok()),
            Op::Commit => okerr(s.ed.commit().is_ok()),
            Op::Clear => {
                s.ed.clear();
                "ok".into()
            }
            Op::Ack => {
                s.ed.ack();
                "ok".into()
            }
            Op::ClearSyl => {
                s.ed.clear_syllable_editor();
                "ok".into()
            }
            Op::Jump(j) => okerr(match j {
                0 => s.ed.jump_to_first_selection_point(),
                1 => s.ed.jump_to_last_selection_point(),
                2 => s.ed.jump_to_next_selection_point(),
                _ => s.ed.jump_to_prev_selection_point(),
            }
            .is_ok()),
            _ => unreachable!("the BFS alphabet has keys, select, start/cancel selecting, commit, clear, ack, clearsyl and jumps only"),
        }
    })
}

/// the snapshot with the estimator clock (its last token) normalised + the dictionary (see the module comment)
fn identity(snap: &str, dict: &str) -> String {
    let cut = snap.rfind(' ').unwrap_or(snap.len());
    format!("{} _ | {}", &snap[..cut], dict)
}

struct Live {
    s: Session,
    history: Vec<String>,
    cand: Option<CandView>,
}

struct Explorer<'a> {
    out: &'a mut Out,
    seed: u64,
    c17: crate::oracle_c17::Stats,
    /// unique per (re)built session: the oracles key their cross-step state on it
    sid: u64,
    replayed_steps: u64,
    rebuilds: u64,
    panics: u64,
    getter_fails: u64,
}

impl Explorer<'_> {
    /// ONE operation on the live session: snapshots, answers, all registered oracles, the transcript record (as the
    /// generated sessions of main.rs do it).  `full` = a recorded step (not a silent replay): also the layout answers,
    /// C01's accessor sweep and word-less-syllable predicate.  Returns the post snapshots and the return token,
    /// None = the editor panicked.
    fn step(&mut self, l: &mut Live, op: &Op, full: bool) -> Option<(String, String, String)> {
        let out = &mut *self.out;
        let s = &mut l.s;
        let ev = event(op);
        let pre = s.ed.verif_snapshot();
        let dict_pre = s.dict_s();
        let lay_ans = if full { s.layout_answers(ev) } else { String::new() };
        crate::LOOKUPS.with(|c| c.set(0));
        let display_pre = catch_unwind(AssertUnwindSafe(|| s.ed.display())).ok();
        let alts_pre: Vec<String> =
            s.conv_log.borrow().last().map(|c| c.2.iter().map(|p| p.iter().map(|iv| &*iv.str).collect()).collect()).unwrap_or_default();
        let len_pre = s.ed.len();
        s.conv_log.borrow_mut().clear();
        let no_word_pre = if full { s.no_word(&pre) } else { None };
        let res = apply(s, op);
        let conv_ans = s.conv_answers();
        let conv_step = s.conv_log.borrow().clone();
        let opstr = op_s(op, &ev);
        l.history.push(opstr.clone());
        let (seed, sid) = (self.seed, self.sid);
        match res {
            Ok(ret) => {
                let post = s.ed.verif_snapshot();
                let dict_post = s.dict_s();
                let no_word_post = if full { s.no_word(&post) } else { None };
                let mut getter_fail: Option<(&str, &str)> = None;
                if full {
                    let ed = &s.ed;
                    use crate::sink;
                    let accessors: [(&str, &dyn Fn()); 8] = [
                        ("display", &|| sink(ed.display())),
                        ("intervals", &|| sink(ed.intervals().count())),
                        ("len/cursor/is_empty", &|| sink((ed.len(), ed.cursor(), ed.is_empty(), ed.is_entering(), ed.is_selecting(), ed.entering_syllable(), ed.last_key_behavior()))),
                        ("syllable_buffer_display", &|| sink((ed.syllable_buffer_display(), ed.syllable_buffer()))),
                        ("paginated_candidates", &|| sink(ed.paginated_candidates())),
                        ("all_candidates/total_page/current_page_no", &|| sink((ed.all_candidates(), ed.total_page(), ed.current_page_no()))),
                        ("has_next/prev_selection_point", &|| sink((ed.has_next_selection_point(), ed.has_prev_selection_point()))),
                        ("editor_options/symbols", &|| sink((ed.editor_options(), ed.symbols().len()))),
                    ];
                    for (name, f) in accessors.iter() {
                        if let Err(how) = crate::guarded(f) {
                            getter_fail = Some((name, how));
                            break;
                        }
                    }
                }
                s.conv_log.borrow_mut().clear();
                crate::LOOKUPS.with(|c| c.set(0));
                let cand_post = s.cand_view(&post);
                let display_post = catch_unwind(AssertUnwindSafe(|| s.ed.display())).ok();
                let commit_post = s.ed.display_commit().to_string();
                s.conv_log.borrow_mut().clear();
                let step = Step {
                    op: &opstr, key: ev, pre: &pre, post: &post, ret: &ret,
                    dict_pre: &dict_pre, dict_post: &dict_post, history: &l.history, seed, sid,
                    cand_pre: l.cand.as_ref(), cand_post: cand_post.as_ref(),
                    outcome: "ok", no_word_pre: no_word_pre.as_deref(), no_word_post: no_word_post.as_deref(), getter_fail,
                    display_pre: display_pre.as_deref(), display_post: display_post.as_deref(),
                    len_pre, len_post: s.ed.len(), commit_post: &commit_post, conv: &conv_step, alts_pre: &alts_pre,
                };
                out.mute_stats = true;
                crate::oracle_c02::check(out, &step);
                crate::oracle_c04::check(out, &step);
                crate::oracle_c05::check(out, &step);
                crate::oracle_c06::check(out, &step);
                crate::oracle_c17::after_step(out, &step, s, false, &mut self.c17);
                crate::oracle_c07::check(out, &step);
                crate::oracle_c18::check(out, &step);
                crate::oracle_c01::check(out, &step);
                out.mute_stats = false;
                if full {
                    out.rec(&crate::rec_ok(&opstr, &pre, &dict_pre, &lay_ans, &conv_ans, &post, &ret, &dict_post));
                }
                if getter_fail.is_some() {
                    self.getter_fails += 1;
                }
                l.cand = cand_post;
                Some((post, dict_post, ret))
            }
            Err(how) => {
                let step = Step {
                    op: &opstr, key: ev, pre: &pre, post: &pre, ret: "panic",
                    dict_pre: &dict_pre, dict_post: &dict_pre, history: &l.history, seed, sid,
                    cand_pre: l.cand.as_ref(), cand_post: None,
                    outcome: how, no_word_pre: no_word_pre.as_deref(), no_word_post: None, getter_fail: None,
                    display_pre: display_pre.as_deref(), display_post: None,
                    len_pre, len_post: len_pre, commit_post: "", conv: &conv_step, alts_pre: &alts_pre,
                };
                crate::oracle_c01::check(out, &step);
                if how != "hang" {
                    crate::oracle_c07::check_panic(out, &step);
                    if full {
                        out.rec(&crate::rec_panic(&opstr, &pre, &dict_pre, &lay_ans, &conv_ans));
                    }
                }
                self.panics += 1;
                None
            }
        }
    }
}

struct Node {
    parent: u32,
    op: u16,
    depth: u32,
    /// a candidate list is open or a range is highlighted in this state: its history is replayed THROUGH the oracles
    /// (muted), because C05's list frames / C02's ledger need the steps since the list was opened; the history of a
    /// plain Entering / EnteringSyllable state is replayed by bare calls (nothing is pending across steps there)
    feed: bool,
}

pub struct Report {
    pub id: String,
    pub states: usize,
    pub transitions: u64,
    pub max_depth: u32,
    pub closed: bool,
    pub frontier: usize,
    pub seconds: f64,
}

fn explore(ex: &mut Explorer, w: &World, cfg: &Config, max_transitions: u64, deadline: Option<Instant>) -> Report {
    let t0 = Instant::now();
    let label = format!("bfs {}", cfg.id);
    let mut index: HashMap<String, u32> = HashMap::new();
    let mut nodes: Vec<Node> = vec![];
    let mut queue: VecDeque<u32> = VecDeque::new();
    let mut kinds: BTreeMap<String, u64> = BTreeMap::new();
    // the identity text of state i
    let mut keys: Vec<String> = vec![];
    let mut rets: BTreeMap<String, u64> = BTreeMap::new();
    let (mut transitions, mut loops, mut max_depth) = (0u64, 0u64, 0u32);
    let kind_of = |snap: &str| -> String {
        match crate::step::sel_info(snap) {
            Some(i) => format!("selecting_{}{}", i.kind, i.action),
            None => match snap.as_bytes()[0] {
                b'E' => if crate::step::com_is_empty(snap) { "entering_empty".to_string() } else { "entering".to_string() },
                b'Y' => "entering_syllable".to_string(),
                _ => "highlighting".to_string(),
            },
        }
    };
    // the initial state
    {
        let s = build(w, cfg);
        let snap = s.ed.verif_snapshot();
        let dict = s.dict_s();
        *kinds.entry(kind_of(&snap)).or_insert(0) += 1;
        keys.push(identity(&snap, &dict));
        index.insert(keys[0].clone(), 0);
        nodes.push(Node { parent: u32::MAX, op: 0, depth: 0, feed: false });
        queue.push_back(0);
        ex.out.sample(&format!("bfs {} initial state: {} | {}", cfg.id, snap, dict));
    }
    let path = |nodes: &Vec<Node>, mut i: u32| -> Vec<u16> {
        let mut p = vec![];
        while nodes[i as usize].parent != u32::MAX {
            p.push(nodes[i as usize].op);
            i = nodes[i as usize].parent;
        }
        p.reverse();
        p
    };
    let mut closed = true;
    'outer: while let Some(&i) = queue.front() {
        let hist = path(&nodes, i);
        let depth = nodes[i as usize].depth;
        let mut live: Option<Live> = None;
        for (oi, op) in cfg.alphabet.iter().enumerate() {
            if transitions >= max_transitions || deadline.is_some_and(|d| Instant::now() > d) {
                // a state is either expanded over the whole alphabet or not at all: drop the partial expansion from the
                // count of complete states (its records stay: they are true transitions)
                closed = false;
                break 'outer;
            }
            let mut l = match live.take() {
                Some(l) => l,
                None => {
                    ex.sid += 1;
                    ex.rebuilds += 1;
                    let mut l = Live { s: build(w, cfg), history: vec![label.clone()], cand: None };
                    ex.out.mute = true;
                    let mut ok = true;
                    let feed = nodes[i as usize].feed;
                    for h in &hist {
                        ex.replayed_steps += 1;
                        let hop = &cfg.alphabet[*h as usize];
                        if feed {
                            ok &= ex.step(&mut l, hop, false).is_some();
                        } else {
                            ok &= apply(&mut l.s, hop).is_ok();
                            l.history.push(op_s(hop, &event(hop)));
                        }
                        if !ok {
                            break;
                        }
                    }
                    if !feed {
                        l.s.conv_log.borrow_mut().clear();
                        l.cand = None;
                    }
                    ex.out.mute = false;
                    let here = identity(&l.s.ed.verif_snapshot(), &l.s.dict_s());
                    if !ok || here != keys[i as usize] {
                        ex.out.oracle_fail("C17", "new", &format!(
                            "the editor is not deterministic in what its snapshot shows: replaying the history of a discovered state reaches [{}] instead of [{}]: seed {} ops [{}]",
                            here, keys[i as usize], ex.seed, l.history.join(" ; ")));
                        closed = false;
                        queue.pop_front();
                        continue 'outer;
                    }
                    l
                }
            };
            transitions += 1;
            let r = ex.step(&mut l, op, true);
            let what = if matches!(op, Op::Key(..)) { "key" } else { "call" };
            *rets.entry(match &r { Some(x) => format!("{}_{}", what, x.2), None => "panic".to_string() }).or_insert(0) += 1;
            if let Some((post, dict_post, _)) = r {
                let id = identity(&post, &dict_post);
                if id == keys[i as usize] {
                    loops += 1;
                    live = Some(l);
                    continue;
                }
                if !index.contains_key(&id) {
                    let n = nodes.len() as u32;
                    index.insert(id.clone(), n);
                    keys.push(id);
                    nodes.push(Node { parent: i, op: oi as u16, depth: depth + 1, feed: matches!(post.as_bytes()[0], b'S' | b'H') });
                    max_depth = max_depth.max(depth + 1);
                    queue.push_back(n);
                    *kinds.entry(kind_of(&post)).or_insert(0) += 1;
                    // C07: the candidate getters of every state with an open list, once per state
                    if let Some(c) = &l.cand {
                        ex.out.rec(&crate::rec_cands(&post, &dict_post, &l.s.layout_answers(None), c));
                    }
                }
            }
            // the session has left the state: the next operation starts from a rebuilt one
            drop(l);
        }
        queue.pop_front();
    }
    let frontier = queue.len();
    let closed = closed && frontier == 0;
    let rep = Report { id: cfg.id.clone(), states: nodes.len(), transitions, max_depth, closed, frontier, seconds: t0.elapsed().as_secs_f64() };
    let out = &mut *ex.out;
    let p = format!("bfs.{}", cfg.id);
    out.stat(&format!("{}.closed", p), closed as u8);
    out.stat(&format!("{}.states", p), rep.states);
    out.stat(&format!("{}.states_fully_expanded", p), rep.states - frontier);
    out.stat(&format!("{}.frontier", p), frontier);
    out.stat(&format!("{}.transitions", p), transitions);
    out.stat(&format!("{}.transitions_back_to_the_same_state", p), loops);
    out.stat(&format!("{}.max_depth", p), max_depth);
    out.stat(&format!("{}.alphabet_size", p), cfg.alphabet.len());
    out.stat(&format!("{}.seconds", p), format!("{:.1}", rep.seconds));
    for (k, n) in &kinds {
        out.stat(&format!("{}.states_{}", p, k), n);
    }
    for (k, n) in &rets {
        out.stat(&format!("{}.answers_{}", p, k), n);
    }
    rep
}

pub fn run(out: &mut Out, seed: u64, thorough: bool, which: &str, args: &[String]) {
    let syls = syllables();
    let abbr = {
        // the abbreviation table the model driver assumes (Driver/Ed.lean)
        let mut f = tempfile::NamedTempFile::new().unwrap();
        writeln!(f, "a 測試").unwrap();
        writeln!(f, "Z 𠀀們").unwrap();
        f.flush().unwrap();
        f
    };
    let w = World { layer: system_layer(&syls), abbr };
    let all = configs();
    // `all` = the registered family.  quick: four `lean` worlds of threshold 1 (they close in < 1 000 states each, the simple
    // engine's is larger) + one `sym` and one `mode` world explored to a small budget (symbol lists with pages, CapsLock /
    // Shift+Space under open lists: not closed, a systematic breadth-first sample); thorough: `lean` for every engine x
    // threshold x option profile, and for the chewing engine at threshold 1 also `core`, `hl`, `sym`, `mode` and the work
    // package's `full` alphabet (with Tab: infinite, never closes).  Any configuration of `configs()` can be named instead.
    const QUICK: [&str; 6] = ["chewing-t1-dflt-lean", "chewing-t1-alt-lean", "fuzzy-t1-alt-lean", "simple-t1-dflt-lean", "chewing-t1-alt-sym", "chewing-t1-dflt-mode"];
    let in_all = |c: &Config| {
        let t1 = c.opts.auto_commit_threshold == 1;
        if thorough { c.id.ends_with("-lean") || (t1 && c.engine == 1 && !c.id.ends_with("-tab")) } else { QUICK.contains(&c.id.as_str()) }
    };
    let chosen: Vec<Config> = all.iter().filter(|c| if which == "all" { in_all(c) } else { c.id == which }).cloned().collect();
    if chosen.is_empty() {
        eprintln!("unknown BFS configuration `{}`; known: {}", which, all.iter().map(|c| c.id.as_str()).collect::<Vec<_>>().join(" "));
        std::process::exit(2);
    }
    let arg = |name: &str| -> Option<u64> { args.iter().position(|a| a == name).and_then(|i| args.get(i + 1)).and_then(|v| v.parse().ok()) };
    // budget of transitions per configuration (quick: 70 000 - the largest quick `lean` world, the simple engine's, closes at 67 146 -, 20 000 for the `sym` / `mode` worlds; thorough: 10^6)
    let per_cfg = arg("--bfs-transitions").unwrap_or(if thorough { 1_000_000 } else { 70_000 });
    let deadline_s = arg("--bfs-seconds");
    let mut ex = Explorer { out, seed, c17: crate::oracle_c17::Stats::new(), sid: 0, replayed_steps: 0, rebuilds: 0, panics: 0, getter_fails: 0 };
    let mut reports = vec![];
    for cfg in &chosen {
        let names: Vec<String> = cfg.alphabet.iter().map(|op| op_s(op, &event(op)).replace(' ', "_")).collect();
        ex.out.stat(&format!("bfs.{}.alphabet", cfg.id), names.join(","));
        ex.out.stat(&format!("bfs.{}.options", cfg.id), crate::opts_s(&cfg.opts).replace(' ', "_"));
        let deadline = deadline_s.map(|s| Instant::now() + std::time::Duration::from_secs(s));
        // quick tier: the worlds that cannot close within the budget anyway get a smaller one
        // (since the F36 repair an in-memory prefix lookup really matches by prefix: the fuzzy `lean` world no longer closes
        // within 70 000 transitions and is a breadth-first sample in the quick tier too)
        let cap = if !thorough && which == "all" && (!cfg.id.ends_with("-lean") || cfg.id.starts_with("fuzzy-")) { per_cfg.min(20_000) } else { per_cfg };
        reports.push(explore(&mut ex, &w, cfg, cap, deadline));
    }
    let closed: Vec<&str> = reports.iter().filter(|r| r.closed).map(|r| r.id.as_str()).collect();
    let open: Vec<&str> = reports.iter().filter(|r| !r.closed).map(|r| r.id.as_str()).collect();
    let o = &mut *ex.out;
    o.stat("bfs_configurations", reports.len());
    o.stat("bfs_configurations_closed", closed.len());
    o.stat("bfs_closed", if closed.is_empty() { "-".to_string() } else { closed.join(",") });
    o.stat("bfs_not_closed", if open.is_empty() { "-".to_string() } else { open.join(",") });
    o.stat("bfs_states", reports.iter().map(|r| r.states as u64).sum::<u64>());
    o.stat("bfs_transitions", reports.iter().map(|r| r.transitions).sum::<u64>());
    o.stat("bfs_max_depth", reports.iter().map(|r| r.max_depth).max().unwrap_or(0));
    o.stat("bfs_transition_budget_per_configuration", per_cfg);
    o.stat("bfs_sessions_rebuilt", ex.rebuilds);
    o.stat("bfs_steps_replayed_silently", ex.replayed_steps);
    o.stat("bfs_panics", ex.panics);
    o.stat("bfs_accessor_failures", ex.getter_fails);
    o.stat("bfs_oracle_verdicts_failing", o.oracle_fails);
    o.stat("bfs_dictionary", "ㄅㄞˇ=百/擺 ㄨˇ=五/午/舞 ㄉㄨˇ=賭/堵 ㄨˇㄅㄞˇ=五百 ㄅㄞˇㄨˇ=擺舞".replace(' ', "_"));
    o.stat("bfs_user_dictionary_growth", "no_Ctrl+digit,_learn,_unlearn_in_any_alphabet;_auto-learn_disabled;_alphabets_hl_and_full_have_Shift+arrows_(the_key_ending_a_highlight_adds_a_user_phrase):_the_dictionary_snapshot_is_part_of_the_state_identity");
    ex.c17.print(o);
}
