//! Editor state machine: per-step correspondence (C01, C02, C05, C06, C07, C17, C18) through the pure
//! Rust `Editor` API.  Every operation is recorded with the COMPLETE pre-state (hook H1), the
//! answers of the components the editor called during the step (phonetic layout, conversion engine —
//! observed through wrapper objects passed in through the public constructors, no hook), the user
//! dictionary contents (TrieBuf::verif_snapshot) and the complete post-state; the Lean model
//! recomputes the post-state from the pre-state.  The properties are also evaluated directly on the
//! real editor (oracles) so that a violation comes with a concrete history.
use chewing::conversion::{
    ChewingEngine, Composition, ConversionEngine, FuzzyChewingEngine, Interval, SimpleEngine,
};
use chewing::dictionary::{Dictionary, DictionaryMut, Layered, LookupStrategy, Phrase, TrieBuf};
use chewing::editor::keyboard::{KeyCode, KeyEvent, KeyboardLayout, Modifiers, Qwerty};
use chewing::editor::zhuyin_layout::{
    DaiChien26, Et, Et26, GinYieh, Hsu, Ibm, KeyBehavior, Pinyin, Standard, SyllableEditor,
};
use chewing::editor::{
    AbbrevTable, BasicEditor, CharacterForm, ConversionEngineKind, Editor, EditorKeyBehavior,
    EditorOptions, LanguageMode, LaxUserFreqEstimate, SymbolSelector, UserPhraseAddDirection,
};
use chewing::zhuyin::Syllable;
use std::cell::RefCell;
use std::fmt::Write as _;
use std::io::Write as _;
use std::panic::{catch_unwind, AssertUnwindSafe};
use std::rc::Rc;
use vharness::*;

mod oracle_c01;
mod oracle_c02;
mod oracle_c04;
mod oracle_c05;
mod oracle_c06;
mod oracle_c17;
mod oracle_c07;
mod oracle_c18;
mod script_c02;
mod script_c05;
mod script_c01;
mod script_c06;
mod script_c18;
mod bfs;
mod step;
use step::{CandView, Expect, Step};

// ------------------------------------------------------------------ wrappers (no hooks needed)

type LayoutCell = Rc<RefCell<Box<dyn SyllableEditor>>>;

/// Delegates every call to the real layout, which the harness can also reach through the Rc.
#[derive(Debug)]
struct SharedLayout(LayoutCell);

impl SyllableEditor for SharedLayout {
    fn key_press(&mut self, key: KeyEvent) -> KeyBehavior {
        self.0.borrow_mut().key_press(key)
    }
    fn fuzzy_key_press(&mut self, key: KeyEvent) -> KeyBehavior {
        self.0.borrow_mut().fuzzy_key_press(key)
    }
    fn remove_last(&mut self) {
        self.0.borrow_mut().remove_last()
    }
    fn clear(&mut self) {
        self.0.borrow_mut().clear()
    }
    fn is_empty(&self) -> bool {
        self.0.borrow().is_empty()
    }
    fn read(&self) -> Syllable {
        self.0.borrow().read()
    }
    fn key_seq(&self) -> Option<String> {
        self.0.borrow().key_seq()
    }
    fn alt_syllables(&self, syl: Syllable) -> &[Syllable] {
        // the returned slices are 'static tables in every layout; copy out through a leak-free path
        let v: Vec<Syllable> = self.0.borrow().alt_syllables(syl).to_vec();
        ALT_CACHE.with(|c| {
            let mut c = c.borrow_mut();
            c.push(v.into_boxed_slice());
            let p: *const [Syllable] = &**c.last().unwrap();
            // SAFETY: boxed slices in the thread-local cache are never dropped or moved during the run
            unsafe { &*p }
        })
    }
    fn clone(&self) -> Box<dyn SyllableEditor> {
        SyllableEditor::clone(&**self.0.borrow())
    }
}

thread_local! {
    static ALT_CACHE: RefCell<Vec<Box<[Syllable]>>> = const { RefCell::new(Vec::new()) };
}

// C01: a hang inside the editor becomes an observable outcome without a watchdog thread: every system
// dictionary layer is wrapped in a transparent proxy that counts the look-ups of the current operation
// and panics (marker HUNG) when an operation makes more than LOOKUP_FUEL of them (the loops of the
// selectors and of the conversion all consult the dictionary in every iteration).
const LOOKUP_FUEL: u64 = 400_000;

thread_local! {
    static LOOKUPS: std::cell::Cell<u64> = const { std::cell::Cell::new(0) };
    static HUNG: std::cell::Cell<bool> = const { std::cell::Cell::new(false) };
}

fn tick_lookup() {
    let n = LOOKUPS.with(|c| {
        c.set(c.get() + 1);
        c.get()
    });
    if n > LOOKUP_FUEL {
        HUNG.with(|h| h.set(true));
        panic!("verif: look-up fuel of one operation exhausted");
    }
}

#[derive(Debug)]
struct FuelDict(TrieBuf);

impl Dictionary for FuelDict {
    fn lookup_first_n_phrases(&self, syllables: &dyn chewing::zhuyin::SyllableSlice, first: usize, strategy: LookupStrategy) -> Vec<Phrase> {
        tick_lookup();
        self.0.lookup_first_n_phrases(syllables, first, strategy)
    }
    fn lookup_first_phrase(&self, syllables: &dyn chewing::zhuyin::SyllableSlice, strategy: LookupStrategy) -> Option<Phrase> {
        tick_lookup();
        self.0.lookup_first_phrase(syllables, strategy)
    }
    fn lookup_all_phrases(&self, syllables: &dyn chewing::zhuyin::SyllableSlice, strategy: LookupStrategy) -> Vec<Phrase> {
        tick_lookup();
        self.0.lookup_all_phrases(syllables, strategy)
    }
    fn entries(&self) -> chewing::dictionary::Entries<'_> {
        self.0.entries()
    }
    fn about(&self) -> chewing::dictionary::DictionaryInfo {
        self.0.about()
    }
    fn path(&self) -> Option<&std::path::Path> {
        self.0.path()
    }
    fn as_dict_mut(&mut self) -> Option<&mut dyn DictionaryMut> {
        self.0.as_dict_mut()
    }
}

fn sink<T>(_: T) {}

/// run `f` with a fresh look-up budget; Err("panic" | "hang")
fn guarded<T>(f: impl FnOnce() -> T) -> Result<T, &'static str> {
    LOOKUPS.with(|c| c.set(0));
    HUNG.with(|h| h.set(false));
    match catch_unwind(AssertUnwindSafe(f)) {
        Ok(v) => Ok(v),
        Err(_) => Err(if HUNG.with(|h| h.get()) { "hang" } else { "panic" }),
    }
}

type ConvLog = Rc<RefCell<Vec<(u8, String, Vec<Vec<Interval>>)>>>;

thread_local! {
    /// the user dictionary behind each session's conversion log (key = address of the log): a conversion answer is
    /// recorded together with a fingerprint of the user dictionary AT THE TIME OF THE CALL, because one step can convert
    /// the same composition twice with a learning in between (Enter on a highlighted range, then the overflow commit)
    static LOG_USERS: RefCell<std::collections::HashMap<usize, *const TrieBuf>> = RefCell::new(Default::default());
    /// fingerprints of the calls in each log, by index
    static LOG_FPS: RefCell<std::collections::HashMap<usize, Vec<u128>>> = RefCell::new(Default::default());
}

/// to be called wherever a `Session` is built
fn register_user(log: &ConvLog, user: *const TrieBuf) {
    LOG_USERS.with(|m| m.borrow_mut().insert(Rc::as_ptr(log) as usize, user));
    LOG_FPS.with(|m| m.borrow_mut().remove(&(Rc::as_ptr(log) as usize)));
}

/// entries, tombstones, sum of frequencies and times of the user dictionary (the Lean driver computes the same
/// number from the dictionary state the model hands to `convert`)
fn user_fingerprint(log: &ConvLog) -> u128 {
    let ptr = LOG_USERS.with(|m| m.borrow().get(&(Rc::as_ptr(log) as usize)).copied());
    match ptr {
        // SAFETY: the Box<TrieBuf> handed to Layered::new lives as long as the editor that owns this engine
        Some(p) => {
            let (btree, grave, _, _, _) = unsafe { (*p).verif_snapshot() };
            btree.len() as u128 * 1_000_003 + grave.len() as u128 * 10_007 + btree.iter().map(|e| e.2 as u128 + e.3 as u128).sum::<u128>()
        }
        None => 0,
    }
}

/// Delegates to the real engine and records (composition, all alternatives) of every call.
struct LoggingEngine {
    kind: u8,
    inner: Box<dyn ConversionEngine>,
    log: ConvLog,
}

impl std::fmt::Debug for LoggingEngine {
    fn fmt(&self, f: &mut std::fmt::Formatter<'_>) -> std::fmt::Result {
        // the snapshot hook identifies the installed engine by its Debug name
        write!(f, "{:?}", self.inner)
    }
}

impl ConversionEngine for LoggingEngine {
    fn convert<'a>(
        &'a self,
        dict: &'a dyn Dictionary,
        comp: &'a Composition,
    ) -> Box<dyn Iterator<Item = Vec<Interval>> + 'a> {
        let all: Vec<Vec<Interval>> = self.inner.convert(dict, comp).collect();
        let mut c = String::new();
        chewing::editor::verif::composition(&mut c, comp);
        let fp = user_fingerprint(&self.log);
        let n = self.log.borrow().len();
        LOG_FPS.with(|m| {
            let mut m = m.borrow_mut();
            let v = m.entry(Rc::as_ptr(&self.log) as usize).or_default();
            v.truncate(n); // the log is only ever cleared as a whole or appended to here
            v.push(fp);
        });
        self.log.borrow_mut().push((self.kind, c, all.clone()));
        Box::new(all.into_iter())
    }
}

fn engine(kind: u8, log: &ConvLog) -> Box<dyn ConversionEngine> {
    let inner: Box<dyn ConversionEngine> = match kind {
        0 => Box::new(SimpleEngine::new()),
        2 => Box::new(FuzzyChewingEngine::new()),
        _ => Box::new(ChewingEngine::new()),
    };
    Box::new(LoggingEngine { kind, inner, log: log.clone() })
}

fn layout(kind: u8) -> Box<dyn SyllableEditor> {
    match kind {
        1 => Box::new(Hsu::new()),
        2 => Box::new(Ibm::new()),
        3 => Box::new(GinYieh::new()),
        4 => Box::new(Et::new()),
        5 => Box::new(Et26::new()),
        6 => Box::new(DaiChien26::new()),
        7 => Box::new(Pinyin::hanyu()),
        8 => Box::new(Pinyin::thl()),
        9 => Box::new(Pinyin::mps2()),
        _ => Box::new(Standard::new()),
    }
}

// ------------------------------------------------------------------ serialisation helpers

fn beh_s(b: &KeyBehavior) -> String {
    match b {
        KeyBehavior::Ignore => "i".into(),
        KeyBehavior::Absorb => "a".into(),
        KeyBehavior::Commit => "c".into(),
        KeyBehavior::KeyError => "k".into(),
        KeyBehavior::Error => "e".into(),
        KeyBehavior::NoWord => "n".into(),
        KeyBehavior::OpenSymbolTable => "o".into(),
        KeyBehavior::Fuzzy(s) => format!("f{}", s.to_u16()),
    }
}

fn lay_state(l: &dyn SyllableEditor) -> String {
    format!(
        "{} {} {}",
        l.read().to_u16(),
        l.is_empty() as u8,
        match l.key_seq() {
            Some(k) => hx(&k),
            None => "-".into(),
        }
    )
}

fn entry_s(out: &mut String, key: &[Syllable], phrase: &str, freq: u32, time: u64) {
    let _ = write!(out, " {}", key.len());
    for s in key {
        let _ = write!(out, " {}", s.to_u16());
    }
    let _ = write!(out, " {} {} {}", hx(phrase), freq, time);
}

type SysLayer = Vec<(Vec<Syllable>, String, u32)>;

struct Session {
    ed: Editor,
    lay: LayoutCell,
    conv_log: ConvLog,
    user: *const TrieBuf,
    sys: Vec<SysLayer>,
    layout_kind: u8,
    /// C01: copies of the system layers for the oracle's own look-ups, and the engine actually installed
    probes: Vec<TrieBuf>,
    engine_kind: u8,
}

impl Session {
    fn dict_s(&self) -> String {
        let mut out = format!("{}", self.sys.len());
        for layer in &self.sys {
            let mut sorted: Vec<_> = layer.iter().collect();
            sorted.sort_by(|a, b| (&a.0, &a.1).cmp(&(&b.0, &b.1)));
            let _ = write!(out, " {}", sorted.len());
            for (k, p, f) in sorted {
                entry_s(&mut out, k, p, *f, 0);
            }
        }
        // SAFETY: the Box<TrieBuf> handed to Layered::new is never replaced or dropped while the editor lives
        let (btree, grave, has_trie, _writer, _dirty) = unsafe { (*self.user).verif_snapshot() };
        assert!(!has_trie);
        let _ = write!(out, " U {}", btree.len());
        for (k, p, f, t) in &btree {
            entry_s(&mut out, k, p, *f, *t);
        }
        let _ = write!(out, " {}", grave.len());
        for (k, p) in &grave {
            let _ = write!(out, " {}", k.len());
            for s in k {
                let _ = write!(out, " {}", s.to_u16());
            }
            let _ = write!(out, " {}", hx(p));
        }
        out
    }

    /// C01 class predicate on the current state: a buffered syllable (pre-edit buffer, or the copy an open
    /// phrase selector works on) without a one-syllable word under a strategy in force (the option's, the
    /// installed engine's own, the selector's)
    fn no_word(&self, snap: &str) -> Option<String> {
        let strat = |fuzzy: bool| if fuzzy { LookupStrategy::FuzzyPartialPrefix } else { LookupStrategy::Standard };
        let has_word = |syl: Syllable, st: LookupStrategy| -> bool {
            // SAFETY: see dict_s
            self.probes.iter().any(|d| d.lookup_first_phrase(&[syl], st).is_some())
                || unsafe { (*self.user).lookup_first_phrase(&[syl], st).is_some() }
        };
        let mut strategies = vec![self.ed.editor_options().lookup_strategy];
        let own = strat(self.engine_kind == 2);
        if !strategies.contains(&own) {
            strategies.push(own);
        }
        for sym in self.ed.symbols() {
            if let Some(syl) = sym.to_syllable() {
                for st in &strategies {
                    if !has_word(syl, *st) {
                        return Some(format!("syllable {:#x} has no word under {:?} (engine {})", syl.to_u16(), st, self.engine_kind));
                    }
                }
            }
        }
        // `S <page> <I|R> P <begin> <end> <fwd> <orig> <strategy> <n> <sym>…`
        let state: Vec<&str> = step::sections(snap)[0].split(' ').collect();
        if state.len() > 9 && state[0] == "S" && state[3] == "P" {
            let st = strat(state[8] == "1");
            let n: usize = state[9].parse().unwrap_or(0);
            for tok in state.iter().skip(10).take(n) {
                if let Some(code) = tok.strip_prefix('s').and_then(|c| c.parse::<u16>().ok()) {
                    if let Ok(syl) = Syllable::try_from(code) {
                        if !has_word(syl, st) {
                            return Some(format!("syllable {:#x} of the open phrase selector has no word under {:?}", code, st));
                        }
                    }
                }
            }
        }
        None
    }

    /// what the layout would answer to this event from its current state, computed on clones
    fn layout_answers(&self, ev: Option<KeyEvent>) -> String {
        self.layout_answers_of(&**self.lay.borrow(), ev)
    }

    /// the answers of layout object `cur` (the installed one; for `setlayout` the object being installed: the call
    /// re-validates an open candidate list against the NEW layout's `alt_syllables`)
    fn layout_answers_of(&self, cur: &dyn SyllableEditor, ev: Option<KeyEvent>) -> String {
        let cur = &cur;
        let mut out = String::from("L");
        match ev {
            Some(ev) => {
                let mut c = SyllableEditor::clone(&**cur);
                let b = c.key_press(ev);
                let _ = write!(out, " {} {}", beh_s(&b), lay_state(&*c));
                let mut c = SyllableEditor::clone(&**cur);
                let b = c.fuzzy_key_press(ev);
                let _ = write!(out, " {} {}", beh_s(&b), lay_state(&*c));
            }
            None => out.push_str(" - -"),
        }
        let mut c = SyllableEditor::clone(&**cur);
        c.remove_last();
        let _ = write!(out, " {}", lay_state(&*c));
        let mut c = SyllableEditor::clone(&**cur);
        c.clear();
        let _ = write!(out, " {}", lay_state(&*c));
        // alternates of every syllable in the buffer
        let syls: Vec<Syllable> = self
            .ed
            .symbols()
            .iter()
            .filter_map(|s| s.to_syllable())
            .collect();
        let mut uniq: Vec<Syllable> = vec![];
        for s in syls {
            if !uniq.contains(&s) {
                uniq.push(s);
            }
        }
        let _ = write!(out, " {}", uniq.len());
        for s in uniq {
            let alts = cur.alt_syllables(s);
            let _ = write!(out, " {} {}", s.to_u16(), alts.len());
            for a in alts {
                let _ = write!(out, " {}", a.to_u16());
            }
        }
        out
    }

    /// C07: what the candidate getters answer now (None = no list open), and for a phrase list what the
    /// dictionaries themselves hold for the highlighted symbols (system layers as generated, the user
    /// layer read from its raw B-tree / tombstones — not through the editor or `Layered`)
    fn cand_view(&self, snap: &str) -> Option<CandView> {
        if !self.ed.is_selecting() {
            return None;
        }
        let ed = &self.ed;
        let got = catch_unwind(AssertUnwindSafe(|| {
            (
                ed.all_candidates().unwrap_or_default(),
                ed.paginated_candidates().unwrap_or_default(),
                ed.total_page().unwrap_or(usize::MAX),
                ed.current_page_no().unwrap_or(usize::MAX),
            )
        }));
        let mut v = CandView { per: ed.editor_options().candidates_per_page, ..Default::default() };
        match got {
            Ok((all, paginated, total_page, page_no)) => {
                v.all = all;
                v.paginated = paginated;
                v.total_page = total_page;
                v.page_no = page_no;
            }
            Err(_) => v.panicked = true,
        }
        if let Some(info) = step::sel_info(snap) {
            if info.kind == 'P' && info.begin <= info.end && info.end <= ed.symbols().len() {
                let range = &ed.symbols()[info.begin..info.end];
                let key: Vec<Syllable> = range.iter().map_while(|s| s.to_syllable()).collect();
                let mut e = Expect {
                    all_syllables: key.len() == range.len(),
                    range_len: range.len(),
                    key: key.clone(),
                    ..Default::default()
                };
                // every lookup of the phrase selector uses the strategy it was opened with (state token 8)
                let fz = step::sections(snap)[0].split(' ').nth(8) == Some("1");
                e.own = self.held_for(&key, fz);
                if range.len() == 1 && key.len() == 1 {
                    let alts: Vec<Syllable> = self.lay.borrow().alt_syllables(key[0]).to_vec();
                    for a in alts {
                        e.alt.extend(self.held_for(&[a], fz));
                    }
                }
                // is there a longer range `init` would have had to offer first?
                let syms = ed.symbols();
                let is_syl = |i: usize| syms.get(i).is_some_and(|s| s.is_syllable());
                let key_of = |b: usize, e: usize| -> Vec<Syllable> { syms[b..e].iter().filter_map(|s| s.to_syllable()).collect() };
                if info.forward {
                    let mut limit = info.orig.min(syms.len());
                    while limit < syms.len() && is_syl(limit) {
                        limit += 1;
                    }
                    for e2 in info.end + 1..=limit {
                        if (info.begin..e2).all(is_syl) && !self.held_for(&key_of(info.begin, e2), fz).is_empty() {
                            e.longer = Some((info.begin, e2));
                        }
                    }
                } else {
                    let sel_ends: Vec<usize> = step::selections(snap).iter().map(|s| s.1).collect();
                    let gaps = step::gaps(snap);
                    let mut lo = info.orig.min(syms.len());
                    while lo > 0 && !sel_ends.contains(&lo) && gaps.get(lo) != Some(&'K') && is_syl(lo - 1) {
                        lo -= 1;
                    }
                    for b2 in lo..info.begin {
                        if (b2..info.end).all(is_syl) && !self.held_for(&key_of(b2, info.end), fz).is_empty() {
                            e.longer = Some((b2, info.end));
                        }
                    }
                }
                v.expect = Some(e);
            }
        }
        Some(v)
    }

    /// every phrase some layer holds for `key` under the lookup strategy in force — exactly `key`, or
    /// (`fuzzy`, `FuzzyPartialPrefix`) a stored key of the same number of syllables each of which
    /// `starts_with` the query's; all layers are in-memory `TrieBuf`s, which match their pending entries by
    /// prefix since fix c3d9fb2 (F36) — user layer: pending entries minus the tombstones of their own key
    fn held_for(&self, key: &[Syllable], fuzzy: bool) -> Vec<String> {
        let m = |k: &[Syllable]| -> bool {
            if fuzzy {
                k.len() == key.len() && k.iter().zip(key).all(|(a, b)| a.starts_with(*b))
            } else {
                k == key
            }
        };
        let mut out: Vec<String> = vec![];
        for layer in &self.sys {
            for (k, p, _) in layer {
                if m(k.as_slice()) && !out.contains(p) {
                    out.push(p.clone());
                }
            }
        }
        // SAFETY: see dict_s
        let (btree, grave, _, _, _) = unsafe { (*self.user).verif_snapshot() };
        for (k, p, _, _) in &btree {
            if m(k.as_slice()) && !grave.iter().any(|(gk, gp)| gk == k && gp == p) && !out.contains(p) {
                out.push(p.clone());
            }
        }
        out
    }

    fn conv_answers(&self) -> String {
        let log = self.conv_log.borrow();
        let mut out = format!("C {}", log.len());
        let fps: Vec<u128> = LOG_FPS.with(|m| m.borrow().get(&(Rc::as_ptr(&self.conv_log) as usize)).cloned().unwrap_or_default());
        for (i, (kind, comp, paths)) in log.iter().enumerate() {
            let _ = write!(out, " {} {}{} {}", kind, fps.get(i).copied().unwrap_or(0), comp, paths.len());
            for p in paths {
                let _ = write!(out, " {}", p.len());
                for iv in p {
                    let _ = write!(out, " {} {} {} {}", iv.start, iv.end, iv.is_phrase as u8, hx(&iv.str));
                }
            }
        }
        out
    }
}

const ALL_CODES: [KeyCode; 63] = {
    use KeyCode::*;
    [
        Unknown, N1, N2, N3, N4, N5, N6, N7, N8, N9, N0, Minus, Equal, BSlash, Grave, Q, W, E, R, T,
        Y, U, I, O, P, LBracket, RBracket, A, S, D, F, G, H, J, K, L, SColon, Quote, Z, X, C, V, B,
        N, M, Comma, Dot, Slash, Space, Esc, Enter, Del, Backspace, Tab, Left, Right, Up, Down, Home,
        End, PageUp, PageDown, NumLock,
    ]
};

#[derive(Clone, Debug)]
enum Op {
    Key(KeyCode, Modifiers),
    Select(usize),
    StartSel,
    CancelSel,
    Commit,
    Clear,
    Ack,
    ClearSyl,
    SetOpts(EditorOptions),
    SetLayout(u8),
    SetEngine(u8),
    Learn(Vec<Syllable>, String),
    Unlearn(Vec<Syllable>, String),
    Jump(u8),
}

fn opts_s(o: &EditorOptions) -> String {
    format!(
        "{} {} {} {} {} {} {} {} {} {} {} {} {} {}",
        o.easy_symbol_input as u8,
        o.esc_clear_all_buffer as u8,
        o.space_is_select_key as u8,
        o.auto_shift_cursor as u8,
        o.phrase_choice_rearward as u8,
        o.disable_auto_learn_phrase as u8,
        o.auto_commit_threshold,
        o.candidates_per_page,
        (o.language_mode == LanguageMode::English) as u8,
        (o.character_form == CharacterForm::Fullwidth) as u8,
        (o.user_phrase_add_dir == UserPhraseAddDirection::Backward) as u8,
        (o.lookup_strategy == LookupStrategy::FuzzyPartialPrefix) as u8,
        match o.conversion_engine {
            ConversionEngineKind::SimpleEngine => 0,
            ConversionEngineKind::ChewingEngine => 1,
            ConversionEngineKind::FuzzyChewingEngine => 2,
        },
        o.enable_fullwidth_toggle_key as u8
    )
}

fn syls_s(k: &[Syllable]) -> String {
    let mut out = format!("{}", k.len());
    for s in k {
        let _ = write!(out, " {}", s.to_u16());
    }
    out
}

// ------------------------------------------------------------------ generation

/// a small pool of syllables with their Standard-layout key sequences
fn pool(focus: bool) -> Vec<(Syllable, Vec<KeyCode>)> {
    use KeyCode::*;
    let mut seqs: Vec<Vec<KeyCode>> = vec![
        vec![H, K, N4],       // ㄘㄜˋ
        vec![G, N4],          // ㄕˋ
        vec![J, U, N3],       // ㄨㄛˇ? (j=ㄨ u=ㄧ) whatever the layout says
        vec![S, U, N3],       // ㄋㄧˇ
        vec![C, L, N3],       // ㄏㄠˇ
        vec![N1, Space],      // ㄅ + first tone
        vec![X, U, SColon, Space],
        vec![A, Space],
        vec![Z, N8, N6],
        vec![R, U, Space],
        vec![D, J, Slash, Space],
        vec![Y, J, N4],
    ];
    if focus {
        // C07 profile: toneless one-letter syllables that have alternatives in the Hsu / ET26 tables
        // (`alt_syllables`), together with those alternatives
        seqs.extend(vec![vec![H, Space], vec![O, Space], vec![N5, Space], vec![R, Space], vec![G, Space], vec![V, Space]]);
    }
    let kb = Qwerty;
    let mut out = vec![];
    for seq in seqs {
        let mut l = Standard::new();
        let mut last = KeyBehavior::Ignore;
        for k in &seq {
            last = l.key_press(kb.map(*k));
        }
        if last == KeyBehavior::Commit && !l.read().is_empty() {
            out.push((l.read(), seq));
        }
    }
    out
}

const CHARS: [&str; 14] = ["測", "冊", "策", "是", "的", "我", "你", "好", "試", "市", "事", "𠀀", "們", "在"];

fn gen_phrase(rng: &mut Rng, n: usize) -> String {
    (0..n).map(|_| *rng.pick(&CHARS)).collect()
}

fn gen_layer(rng: &mut Rng, pool: &[(Syllable, Vec<KeyCode>)], words_for_all: bool) -> SysLayer {
    let mut layer: SysLayer = vec![];
    let mut add = |k: Vec<Syllable>, p: String, f: u32, layer: &mut SysLayer| {
        if !layer.iter().any(|e| e.0 == k && e.1 == p) {
            layer.push((k, p, f));
        }
    };
    for (s, _) in pool {
        if words_for_all || rng.chance(3, 4) {
            for _ in 0..(1 + rng.below(4)) {
                let f = *rng.pick(&[0u32, 1, 1, 5, 10, 100, 100, 512, 1000, 65535]);
                add(vec![*s], gen_phrase(rng, 1), f, &mut layer);
            }
        }
    }
    for _ in 0..(4 + rng.below(12)) {
        let n = 2 + rng.below(3) as usize;
        let k: Vec<Syllable> = (0..n).map(|_| rng.pick(pool).0).collect();
        for _ in 0..(1 + rng.below(3)) {
            let f = *rng.pick(&[0u32, 1, 10, 100, 100, 500, 1000]);
            add(k.clone(), gen_phrase(rng, n), f, &mut layer);
        }
    }
    layer
}

fn gen_opts(rng: &mut Rng, base: &EditorOptions, engine_kind: u8, focus: bool) -> EditorOptions {
    let mut o = *base;
    if focus && rng.chance(1, 2) {
        // C07 profile: small pages (many pages per list), choice direction, Space as a selection key
        match rng.below(6) {
            0 | 1 | 2 => o.candidates_per_page = 1 + rng.below(3) as usize,
            3 => o.candidates_per_page = 1 + rng.below(10) as usize,
            4 => o.phrase_choice_rearward = !o.phrase_choice_rearward,
            _ => o.space_is_select_key = !o.space_is_select_key,
        }
        return o;
    }
    match rng.below(16) {
        0 => o.easy_symbol_input = !o.easy_symbol_input,
        1 => o.esc_clear_all_buffer = !o.esc_clear_all_buffer,
        2 => o.space_is_select_key = !o.space_is_select_key,
        3 => o.auto_shift_cursor = !o.auto_shift_cursor,
        4 => o.phrase_choice_rearward = !o.phrase_choice_rearward,
        5 => o.disable_auto_learn_phrase = !o.disable_auto_learn_phrase,
        6 | 7 => o.auto_commit_threshold = rng.below(8) as usize,
        8 => o.auto_commit_threshold = rng.below(40) as usize,
        9 => o.candidates_per_page = 1 + rng.below(10) as usize,
        10 => {
            o.language_mode = if o.language_mode == LanguageMode::Chinese { LanguageMode::English } else { LanguageMode::Chinese }
        }
        11 => {
            o.character_form = if o.character_form == CharacterForm::Halfwidth { CharacterForm::Fullwidth } else { CharacterForm::Halfwidth }
        }
        12 => {
            o.user_phrase_add_dir = if o.user_phrase_add_dir == UserPhraseAddDirection::Forward { UserPhraseAddDirection::Backward } else { UserPhraseAddDirection::Forward }
        }
        13 => o.enable_fullwidth_toggle_key = !o.enable_fullwidth_toggle_key,
        _ => {}
    }
    let _ = engine_kind;
    o
}

/// C01 (F02 / F03, repaired): Standard-layout key sequences of syllables outside the pool — the system layers
/// hold no word for them, a word learnt for one of them is its only word
const C01_EXTRA: [&[KeyCode]; 8] = {
    use KeyCode::*;
    [&[H, Space], &[G, Space], &[P, N7], &[Comma, N4], &[I, Space], &[B, N6], &[M, N3], &[T, J, N4]]
};

/// C01: a whole scenario that leaves a syllable WITHOUT A WORD in the pre-edit buffer (learn the only word of a
/// syllable, type it — optionally between neighbours that have words —, forget the word again, possibly while a
/// candidate list is open), under any of the three engines and both phrase-choice directions, followed by the calls
/// an application can make next (open the list on it, j / k onto it, Tab, Enter, commit, jumps, engine switch,
/// overflow of a small buffer limit).  Draws from its own stream `r`; None = no such syllable under this layout.
fn noword_scenario(r: &mut Rng, s: &Session, pool: &[(Syllable, Vec<KeyCode>)], pending: &mut Vec<Op>) -> Option<Op> {
    use KeyCode::*;
    let plain = Modifiers::default();
    let kb = Qwerty;
    let mut cands: Vec<(Syllable, &[KeyCode])> = vec![];
    for seq in C01_EXTRA.iter().copied().chain(pool.iter().map(|p| p.1.as_slice())) {
        let mut l = SyllableEditor::clone(&**s.lay.borrow());
        l.clear();
        let mut last = KeyBehavior::Ignore;
        for k in seq {
            last = l.key_press(kb.map(*k));
        }
        if last == KeyBehavior::Commit && !l.read().is_empty() && s.held_for(&[l.read()], false).is_empty() && !cands.iter().any(|c| c.0 == l.read()) {
            cands.push((l.read(), seq));
        }
    }
    if cands.is_empty() {
        return None;
    }
    let keys_of = |seq: &[KeyCode]| -> Vec<Op> { seq.iter().map(|k| Op::Key(*k, plain)).collect() };
    let mut seq: Vec<Op> = vec![];
    let mut o = s.ed.editor_options();
    let mut change = false;
    if o.auto_commit_threshold < s.ed.len() + 4 {
        o.auto_commit_threshold = s.ed.len() + 4 + r.below(6) as usize;
        change = true;
    }
    if r.chance(1, 3) {
        o.phrase_choice_rearward = !o.phrase_choice_rearward;
        change = true;
    }
    if o.language_mode != LanguageMode::Chinese {
        o.language_mode = LanguageMode::Chinese;
        change = true;
    }
    if change {
        seq.push(Op::SetOpts(o));
    }
    if r.chance(1, 2) {
        seq.push(Op::SetEngine(r.below(3) as u8));
    }
    let (syl, keys) = *r.pick(&cands);
    let ch = gen_phrase(r, 1);
    if r.chance(1, 2) {
        seq.extend(keys_of(&r.pick(pool).1));
    }
    seq.push(Op::Learn(vec![syl], ch.clone()));
    seq.extend(keys_of(keys));
    if r.chance(1, 3) {
        seq.extend(keys_of(&r.pick(pool).1));
    }
    // the word may go away under an open list (on the syllable itself or on a neighbour)
    match r.below(8) {
        0 => seq.push(Op::Key(Down, plain)),
        1 => seq.push(Op::StartSel),
        2 => {
            seq.push(Op::Key(Left, plain));
            seq.push(Op::Key(Down, plain));
        }
        3 => seq.push(Op::Key(*r.pick(&[Left, Home, End]), plain)),
        _ => {}
    }
    seq.push(Op::Unlearn(vec![syl], ch));
    for _ in 0..(1 + r.below(4)) {
        match r.below(20) {
            0 | 1 | 2 => seq.push(Op::Key(Down, plain)),
            3 | 4 => seq.push(Op::StartSel),
            5 => seq.push(Op::Key(J, plain)),
            6 => seq.push(Op::Key(K, plain)),
            7 | 8 => seq.push(Op::Key(Tab, plain)),
            9 => seq.push(Op::Key(Enter, plain)),
            10 => seq.push(Op::Commit),
            11 | 12 => seq.push(Op::Jump(r.below(4) as u8)),
            13 | 14 => seq.push(Op::SetEngine(r.below(3) as u8)),
            15 => seq.push(Op::Key(*r.pick(&[Left, Right, Home, End]), plain)),
            16 => seq.push(Op::Key(Space, plain)),
            17 => {
                // overflow of a small buffer limit: the word-less syllable is committed by auto-commit
                o.auto_commit_threshold = r.below(3) as usize;
                seq.push(Op::SetOpts(o));
                seq.extend(keys_of(&r.pick(pool).1));
            }
            18 => seq.push(Op::Select(*r.pick(&[0usize, 0, 1, 9]))),
            _ => seq.push(Op::Key(*r.pick(&[Backspace, Del, Esc]), plain)),
        }
    }
    seq.reverse();
    let first = seq.pop().unwrap();
    pending.extend(seq);
    Some(first)
}

fn gen_op(rng: &mut Rng, s: &Session, pool: &[(Syllable, Vec<KeyCode>)], pending: &mut Vec<Op>, uniform: bool, focus: bool, cand: Option<&CandView>) -> Op {
    gen_op_c01(rng, s, pool, pending, uniform, focus, cand, None)
}

/// `gen_op` + C01's word-less-syllable scenarios drawn from the stream `c01` (None = never)
#[allow(clippy::too_many_arguments)]
fn gen_op_c01(rng: &mut Rng, s: &Session, pool: &[(Syllable, Vec<KeyCode>)], pending: &mut Vec<Op>, uniform: bool, focus: bool, cand: Option<&CandView>, c01: Option<&mut Rng>) -> Op {
    use KeyCode::*;
    if let Some(op) = pending.pop() {
        return op;
    }
    // C01: in the sessions chosen for it (own stream, the other sessions are unchanged) about every tenth choice made
    // in plain Entering starts a word-less-syllable scenario
    if let Some(r) = c01 {
        if s.ed.is_entering() && s.lay.borrow().is_empty() && r.chance(1, 10) {
            if let Some(op) = noword_scenario(r, s, pool, pending) {
                return op;
            }
        }
    }
    let plain = Modifiers::default();
    if uniform {
        let code = *rng.pick(&ALL_CODES);
        let m = Modifiers {
            shift: rng.chance(1, 4),
            ctrl: rng.chance(1, 6),
            capslock: rng.chance(1, 8),
            numlock: rng.chance(1, 8),
        };
        return Op::Key(code, m);
    }
    let selecting = s.ed.is_selecting();
    // C06 / C08 (round 3, after the seeded change C06-highlight-enter-bell-after-cursor-move was missed: 10 of 24 000
    // generated steps started in Highlighting): about every twelfth choice made in plain Entering over a non-empty
    // buffer highlights a range with Shift+arrows and mostly ends it with Enter (add the range as a user phrase: fails
    // on a range holding a non-syllable and on a phrase that is already known, succeeds otherwise), sometimes with
    // another key, sometimes leaves the highlight standing for the ordinary mix
    if !focus && !selecting && s.ed.is_entering() && !s.ed.is_empty() && s.lay.borrow().is_empty() && rng.chance(1, 12) {
        let shift = Modifiers::shift();
        let cur = s.ed.cursor();
        let dir = if cur == 0 { Right } else if rng.chance(3, 4) { Left } else { Right };
        let back = if dir == Left { Right } else { Left };
        let mut seq: Vec<Op> = (0..(1 + rng.below(4))).map(|_| Op::Key(dir, shift)).collect();
        if rng.chance(1, 4) {
            seq.push(Op::Key(back, shift));
        }
        match rng.below(8) {
            0..=4 => seq.push(Op::Key(Enter, plain)),
            5 => seq.push(Op::Key(*rng.pick(&[Esc, Up, Down, Tab, Backspace, Del, Home, End, Left, Right, Space, N1, A]), plain)),
            6 => seq.push(Op::Key(*rng.pick(&[N2, N3, N4]), Modifiers::control())),
            _ => {}
        }
        if rng.chance(1, 3) {
            // the same range once more: the phrase is known by now, the add fails
            let again: Vec<Op> = seq.clone();
            seq.extend(again);
        }
        seq.reverse();
        let first = seq.pop().unwrap();
        pending.extend(seq);
        return first;
    }
    // C02: a commit string is still in the buffer and symbols remain (an overflow just happened): make the
    // next overflow come from `select()`, which does not reset the commit buffer first
    if !focus
        && !selecting
        && s.ed.last_key_behavior() == EditorKeyBehavior::Commit
        && !s.ed.is_empty()
        && !s.ed.display_commit().is_empty()
        && rng.chance(1, 3)
    {
        return overflow_by_select(rng, s, pending);
    }
    // column `c01` is C01's scenario arm (words removed under a composed syllable, engine switches), the last
    // three are C02's (known phrases + Tab + commit routes, breaks, overflow by select); the C07 profile keeps
    // its own mix (it has its own removal-of-a-displayed-candidate arm)
    let w: Vec<u32> = if focus && selecting {
        //   syl sym  nav del  open page choose tab commit mode opts api  learn reset jump c01 phrase break ovsel
        vec![1, 1, 1, 1, 1, 18, 9, 0, 0, 1, 3, 3, 2, 0, 8, 0, 0, 0, 0]
    } else if focus {
        vec![30, 9, 12, 3, 22, 1, 2, 3, 1, 1, 3, 3, 2, 0, 0, 0, 0, 0, 0]
    } else if selecting {
        vec![2, 1, 2, 1, 1, 14, 10, 0, 1, 1, 2, 6, 1, 1, 4, 1, 0, 0, 0]
    } else {
        vec![30, 8, 10, 6, 10, 1, 2, 5, 3, 3, 4, 4, 3, 1, 0, 2, 8, 3, 2]
    };
    let choice = rng.weighted(&w);
    if focus {
        // C07 (F32, repaired): a range whose only phrase is a user phrase - learn one for the last two
        // syllables of the buffer, open the list on them, remove the phrase while the list is open: the
        // list becomes empty and must be closed by the call
        if !selecting && s.ed.is_entering() && rng.chance(1, 30) {
            let syms = s.ed.symbols();
            let n = syms.len();
            if n >= 2 {
                if let (Some(a), Some(b)) = (syms[n - 2].to_syllable(), syms[n - 1].to_syllable()) {
                    let key = vec![a, b];
                    let p = gen_phrase(rng, 2);
                    let mut seq: Vec<Op> = vec![Op::Learn(key.clone(), p.clone()), Op::Key(End, plain)];
                    if !s.ed.editor_options().phrase_choice_rearward {
                        seq.push(Op::Key(Left, plain));
                        seq.push(Op::Key(Left, plain));
                    }
                    seq.push(if rng.chance(1, 2) { Op::StartSel } else { Op::Key(Down, plain) });
                    seq.push(Op::Unlearn(key, p));
                    seq.reverse();
                    let first = seq.pop().unwrap();
                    pending.extend(seq);
                    return first;
                }
            }
        }
        // C07 profile: other ways to open a list, symbols with / without a special-symbol category,
        // small choice indices, removal of a candidate that is on display
        match choice {
            0 if rng.chance(1, 3) => {
                // type all syllables of a phrase some system layer knows (multi-syllable ranges)
                let known: Vec<&(Vec<Syllable>, String, u32)> = s.sys.iter().flatten().filter(|e| e.0.len() > 1).collect();
                if !known.is_empty() {
                    let e = *rng.pick(&known);
                    let mut seq: Vec<Op> = vec![];
                    for syl in &e.0 {
                        if let Some((_, keys)) = pool.iter().find(|p| p.0 == *syl) {
                            seq.extend(keys.iter().map(|k| Op::Key(*k, plain)));
                        }
                    }
                    seq.reverse();
                    if let Some(first) = seq.pop() {
                        pending.extend(seq);
                        return first;
                    }
                }
            }
            11 if rng.chance(1, 3) => return Op::SetLayout(*rng.pick(&[1u8, 5, 0, 1, 5])),
            1 if rng.chance(1, 2) => {
                // a punctuation mark (has a special-symbol category) or a digit / letter without one
                // (NumLock inserts the key's own character), often followed by Down
                let op = if rng.chance(1, 2) {
                    Op::Key(*rng.pick(&[Comma, Dot, Slash, LBracket, Quote, SColon]), if rng.chance(1, 2) { Modifiers::shift() } else { plain })
                } else {
                    Op::Key(*rng.pick(&[N1, N2, N7, N0, Minus, Equal]), Modifiers::numlock())
                };
                if rng.chance(1, 2) {
                    pending.push(Op::Key(Down, plain));
                }
                return op;
            }
            4 if !selecting && rng.chance(1, 4) => {
                // a whole scenario: type a known multi-syllable phrase, open its list, shrink the range,
                // page forward in the shorter list, move the range again (API jump or j / k)
                let known: Vec<&(Vec<Syllable>, String, u32)> = s.sys.iter().flatten().filter(|e| e.0.len() > 1).collect();
                if !known.is_empty() {
                    let e = *rng.pick(&known);
                    let mut seq: Vec<Op> = vec![];
                    for syl in &e.0 {
                        if let Some((_, keys)) = pool.iter().find(|p| p.0 == *syl) {
                            seq.extend(keys.iter().map(|k| Op::Key(*k, plain)));
                        }
                    }
                    if !s.ed.editor_options().phrase_choice_rearward {
                        // forward choice looks right of the cursor: go back to the phrase's first syllable
                        for _ in 0..e.0.len() {
                            seq.push(Op::Key(Left, plain));
                        }
                    }
                    seq.push(if rng.chance(1, 2) { Op::StartSel } else { Op::Key(Down, plain) });
                    seq.push(if rng.chance(1, 2) { Op::Jump(2) } else { Op::Key(Down, plain) });
                    for _ in 0..1 + rng.below(2) {
                        seq.push(Op::Key(*rng.pick(&[Right, PageDown, Left]), plain));
                    }
                    seq.push(match rng.below(6) {
                        0 | 1 | 2 => Op::Jump(3),
                        3 => Op::Jump(rng.below(2) as u8),
                        4 => Op::Key(J, plain),
                        _ => Op::Key(K, plain),
                    });
                    seq.reverse();
                    let first = seq.pop().unwrap();
                    pending.extend(seq);
                    return first;
                }
            }
            4 => {
                return match rng.below(8) {
                    0 => Op::StartSel,
                    1 => Op::Key(Grave, plain),
                    2 => Op::Key(*rng.pick(&[N1, N0]), Modifiers::control()),
                    3 => Op::Key(Space, plain),
                    _ => Op::Key(Down, plain),
                };
            }
            6 if selecting => {
                let n = *rng.pick(&[0usize, 0, 1, 1, 2, 3, 4, 6, 9, 11, 30, usize::MAX]);
                return if rng.chance(1, 2) || n > 9 { Op::Select(n) } else { Op::Key(ALL_CODES[1 + n], plain) };
            }
            14 if selecting && rng.chance(1, 3) => {
                // shrink the range, page forward in the shorter list, then move the range again (the page
                // must restart): jump next / Down x pages, Right / PageDown, then jump prev / first / last / j / k
                let mut seq: Vec<Op> = vec![if rng.chance(1, 2) { Op::Jump(2) } else { Op::Key(Down, plain) }];
                for _ in 0..1 + rng.below(2) {
                    seq.push(Op::Key(*rng.pick(&[Right, PageDown, Left]), plain));
                }
                seq.push(match rng.below(6) {
                    0 | 1 | 2 => Op::Jump(3),
                    3 => Op::Jump(rng.below(2) as u8),
                    4 => Op::Key(J, plain),
                    _ => Op::Key(K, plain),
                });
                seq.reverse();
                let first = seq.pop().unwrap();
                pending.extend(seq);
                return first;
            }
            12 if selecting => {
                if let Some(Some(e)) = cand.map(|c| c.expect.as_ref()) {
                    let c = cand.unwrap();
                    if !c.all.is_empty() && e.all_syllables {
                        let p = rng.pick(&c.all).clone();
                        return if rng.chance(2, 3) { Op::Unlearn(e.key.clone(), p) } else { Op::Learn(e.key.clone(), gen_phrase(rng, e.key.len())) };
                    }
                }
            }
            _ => {}
        }
    }
    match choice {
        0 => {
            // type a whole syllable (keys queued in reverse)
            let (_, seq) = rng.pick(pool);
            let mut seq: Vec<Op> = seq.iter().map(|k| Op::Key(*k, plain)).collect();
            if rng.chance(1, 10) {
                seq.truncate(1 + rng.below(seq.len() as u64) as usize);
            }
            seq.reverse();
            let first = seq.pop().unwrap();
            pending.extend(seq);
            first
        }
        1 => {
            let c = *rng.pick(&[Comma, Dot, Slash, Minus, Equal, LBracket, Quote, A, Z, N1, N0, Space, Grave, BSlash]);
            let m = if rng.chance(1, 2) { Modifiers::shift() } else if rng.chance(1, 5) { Modifiers::numlock() } else { plain };
            Op::Key(c, m)
        }
        2 => {
            let c = *rng.pick(&[Left, Right, Left, Right, Home, End, PageUp, PageDown, Up]);
            let m = if rng.chance(1, 6) { Modifiers::shift() } else { plain };
            Op::Key(c, m)
        }
        3 => Op::Key(*rng.pick(&[Backspace, Backspace, Del, Esc]), plain),
        4 => {
            if rng.chance(1, 4) { Op::StartSel } else { Op::Key(*rng.pick(&[Down, Down, Space]), plain) }
        }
        5 => Op::Key(*rng.pick(&[Left, Right, PageUp, PageDown, Space, Down, J, K, J, K]), plain),
        6 => {
            if rng.chance(1, 3) {
                Op::Select(*rng.pick(&[0usize, 1, 2, 3, 5, 9, 10, 50, usize::MAX]))
            } else {
                Op::Key(*rng.pick(&[N1, N2, N3, N4, N5, N9, N0]), plain)
            }
        }
        7 => Op::Key(Tab, plain),
        8 => {
            if rng.chance(1, 3) { Op::Commit } else { Op::Key(Enter, plain) }
        }
        9 => {
            if rng.chance(1, 2) { Op::Key(Unknown, Modifiers::capslock()) } else { Op::Key(Space, Modifiers::shift()) }
        }
        10 => Op::SetOpts(gen_opts(rng, &s.ed.editor_options(), 0, focus)),
        11 => match rng.below(8) {
            0 => Op::CancelSel,
            1 => Op::Ack,
            2 => Op::ClearSyl,
            3 => Op::SetLayout(rng.below(10) as u8),
            4 | 5 => Op::SetEngine(rng.below(3) as u8),
            6 => Op::Key(*rng.pick(&[N2, N3, N4, N0, N1]), Modifiers::control()),
            _ => Op::StartSel,
        },
        12 => {
            let n = 1 + rng.below(3) as usize;
            let k: Vec<Syllable> = (0..n).map(|_| rng.pick(pool).0).collect();
            // mostly phrases that exist, so that unlearn hits something
            let known: Vec<&(Vec<Syllable>, String, u32)> = s.sys.iter().flatten().collect();
            if rng.chance(1, 2) && !known.is_empty() {
                let e = *rng.pick(&known);
                if rng.chance(1, 2) { Op::Unlearn(e.0.clone(), e.1.clone()) } else { Op::Learn(e.0.clone(), e.1.clone()) }
            } else if rng.chance(1, 8) {
                Op::Learn(k, gen_phrase(rng, n + 1))
            } else {
                Op::Learn(k, gen_phrase(rng, n))
            }
        }
        13 => Op::Clear,
        14 => Op::Jump(rng.below(4) as u8),
        15 => {
            // C01: histories in which the stock of words changes under a composed syllable
            let mut seq: Vec<Op> = vec![];
            match rng.below(3) {
                0 => {
                    // learn a word for a syllable (preferably one the system layers have no word for), type the
                    // syllable, forget the learnt word again
                    let bare: Vec<&(Syllable, Vec<KeyCode>)> = pool
                        .iter()
                        .filter(|e| !s.probes.iter().any(|d| d.lookup_first_phrase(&[e.0], LookupStrategy::Standard).is_some()))
                        .collect();
                    let (syl, keys) = if !bare.is_empty() && rng.chance(2, 3) { *rng.pick(&bare) } else { rng.pick(pool) };
                    let ch = gen_phrase(rng, 1);
                    seq.push(Op::Learn(vec![*syl], ch.clone()));
                    seq.extend(keys.iter().map(|k| Op::Key(*k, plain)));
                    if rng.chance(1, 3) {
                        seq.push(Op::Key(*rng.pick(&[Left, Home, Down, End]), plain));
                    }
                    seq.push(Op::Unlearn(vec![*syl], ch));
                }
                1 => {
                    // forget a phrase the user dictionary holds (learnt explicitly or by auto-learn)
                    // SAFETY: see Session::dict_s
                    let (btree, _, _, _, _) = unsafe { (*s.user).verif_snapshot() };
                    if btree.is_empty() {
                        seq.push(Op::SetEngine(rng.below(3) as u8));
                    } else {
                        let e = rng.pick(&btree);
                        seq.push(Op::Unlearn(e.0.clone(), e.1.clone()));
                    }
                }
                _ => {
                    // switch the engine with a (possibly partial) syllable composed under the previous one
                    seq.push(Op::SetEngine(*rng.pick(&[2u8, 2, 0, 1])));
                    let (_, keys) = rng.pick(pool);
                    let cut = if rng.chance(1, 2) { 1 + rng.below(keys.len() as u64) as usize } else { keys.len() };
                    seq.extend(keys[..cut].iter().map(|k| Op::Key(*k, plain)));
                    if cut < keys.len() {
                        let (_, more) = rng.pick(pool);
                        seq.extend(more.iter().map(|k| Op::Key(*k, plain)));
                    }
                    seq.push(Op::SetEngine(*rng.pick(&[1u8, 1, 0, 2])));
                }
            }
            seq.reverse();
            let first = seq.pop().unwrap();
            pending.extend(seq);
            first
        }
        16 => {
            // type the syllables of a phrase the dictionary knows (so that alternatives read differently,
            // phrase intervals get committed, breaks can fall inside a phrase)
            let known: Vec<&(Vec<Syllable>, String, u32)> = s
                .sys
                .iter()
                .flatten()
                .filter(|e| e.0.len() >= 2 && e.0.iter().all(|x| pool.iter().any(|p| p.0 == *x)))
                .collect();
            if known.is_empty() {
                return Op::Key(Tab, plain);
            }
            let e = *rng.pick(&known);
            let mut syls: Vec<Syllable> = e.0.clone();
            // C02: chain a phrase that starts with the last syllable of the first one: only OVERLAPPING phrases
            // survive the engine's path trimming as alternatives that read differently (AB|C vs A|BC)
            let chain: Vec<&&(Vec<Syllable>, String, u32)> =
                known.iter().filter(|f| f.0[0] == *syls.last().unwrap() && f.0 != e.0).collect();
            if !chain.is_empty() && rng.chance(3, 4) {
                let f = **rng.pick(&chain);
                syls.extend_from_slice(&f.0[1..]);
            }
            let mut seq: Vec<Op> = vec![];
            let expect = s.ed.len() + syls.len();
            let mut o = s.ed.editor_options();
            if o.auto_commit_threshold < expect && rng.chance(2, 3) {
                o.auto_commit_threshold = expect + rng.below(3) as usize;
                seq.push(Op::SetOpts(o));
            }
            for syl in &syls {
                let keys = &pool.iter().find(|p| p.0 == *syl).unwrap().1;
                seq.extend(keys.iter().map(|k| Op::Key(*k, plain)));
            }
            if rng.chance(1, 2) {
                for _ in 0..(1 + rng.below(3)) {
                    seq.push(Op::Key(Tab, plain));
                }
                // … and commit what the chosen alternative shows, by every route
                match rng.below(8) {
                    0 | 1 => seq.push(Op::Key(Enter, plain)),
                    2 => seq.push(Op::Commit),
                    3 | 4 => {
                        o.auto_commit_threshold = rng.below(expect as u64) as usize;
                        seq.push(Op::SetOpts(o));
                        seq.extend(rng.pick(pool).1.iter().map(|k| Op::Key(*k, plain)));
                    }
                    5 => {
                        o.auto_commit_threshold = rng.below(expect as u64) as usize;
                        seq.push(Op::SetOpts(o));
                        seq.push(Op::StartSel);
                        seq.push(Op::Select(0));
                    }
                    _ => {}
                }
            }
            seq.reverse();
            let first = seq.pop().unwrap();
            pending.extend(seq);
            first
        }
        17 => {
            // a break / glue inside the buffer
            pending.push(Op::Key(Tab, plain));
            if rng.chance(1, 2) {
                pending.push(Op::Key(Left, plain));
            }
            Op::Key(Left, plain)
        }
        _ => overflow_by_select(rng, s, pending),
    }
}

/// lower the threshold below the current length, open the candidate list through the API, choose
fn overflow_by_select(rng: &mut Rng, s: &Session, pending: &mut Vec<Op>) -> Op {
    let len = s.ed.len();
    if len == 0 {
        return Op::StartSel;
    }
    let mut o = s.ed.editor_options();
    o.auto_commit_threshold = rng.below(len as u64) as usize;
    pending.push(Op::Select(*rng.pick(&[0usize, 0, 0, 1])));
    pending.push(Op::StartSel);
    Op::SetOpts(o)
}

fn op_s(op: &Op, ev: &Option<KeyEvent>) -> String {
    match op {
        Op::Key(..) => {
            let ev = ev.unwrap();
            format!(
                "key {} {} {} {} {} {} {}",
                ev.index as u8, ev.code as u8, ev.unicode as u32, ev.modifiers.shift as u8,
                ev.modifiers.ctrl as u8, ev.modifiers.capslock as u8, ev.modifiers.numlock as u8
            )
        }
        Op::Select(n) => format!("select {}", n),
        Op::StartSel => "startsel".into(),
        Op::CancelSel => "cancelsel".into(),
        Op::Commit => "commit".into(),
        Op::Clear => "clear".into(),
        Op::Ack => "ack".into(),
        Op::ClearSyl => "clearsyl".into(),
        Op::SetOpts(o) => format!("setopts {}", opts_s(o)),
        Op::SetLayout(k) => format!("setlayout {}", k),
        Op::SetEngine(k) => format!("setengine {}", k),
        Op::Learn(k, p) => format!("learn {} {}", syls_s(k), hx(p)),
        Op::Unlearn(k, p) => format!("unlearn {} {}", syls_s(k), hx(p)),
        Op::Jump(j) => format!("jump {}", j),
    }
}

fn kb_s(b: EditorKeyBehavior) -> &'static str {
    match b {
        EditorKeyBehavior::Ignore => "I",
        EditorKeyBehavior::Commit => "C",
        EditorKeyBehavior::Bell => "B",
        EditorKeyBehavior::Absorb => "A",
    }
}

// the three kinds of `ed` transcript record (one place: the generated sessions and the BFS of bfs.rs write the same text)
#[allow(clippy::too_many_arguments)]
fn rec_ok(opstr: &str, pre: &str, dict_pre: &str, lay_ans: &str, conv_ans: &str, post: &str, ret: &str, dict_post: &str) -> String {
    format!("ed {} | {} | {} | {} {} => ok | {} | {} | {}", opstr, pre, dict_pre, lay_ans, conv_ans, post, ret, dict_post)
}

fn rec_panic(opstr: &str, pre: &str, dict_pre: &str, lay_ans: &str, conv_ans: &str) -> String {
    format!("ed {} | {} | {} | {} {} => panic", opstr, pre, dict_pre, lay_ans, conv_ans)
}

fn rec_cands(post: &str, dict_post: &str, lay_ans_none: &str, c: &CandView) -> String {
    format!("ed cands | {} | {} | {} C 0 => ok | {} | {} | {}", post, dict_post, lay_ans_none, post, step::cand_token(c), dict_post)
}

fn main() {
    let args: Vec<String> = std::env::args().collect();
    let thorough = tier_is_thorough();
    let mut n_sessions: u64 = if thorough { 6000 } else { 400 };
    let mut ops_per: u64 = if thorough { 80 } else { 60 };
    let mut c17_queries = false;
    let mut c17_stats = oracle_c17::Stats::new();
    let mut script_name: Option<String> = None;
    // `--profile c07`: selection-heavy histories (small pages, rearward choice, symbol lists, jumps)
    let mut focus = false;
    let mut i = 1;
    while i < args.len() {
        match args[i].as_str() {
            "--profile" => {
                focus = args[i + 1] == "c07";
                i += 1;
            }
            "--sessions" => {
                n_sessions = args[i + 1].parse().unwrap();
                i += 1;
            }
            "--ops" => {
                ops_per = args[i + 1].parse().unwrap();
                i += 1;
            }
            // C17: one `edq` record (all getters, compared with the model) per step
            "--queries" => c17_queries = true,
            "--script" => {
                // scripted sessions (c18: exhaustive character sweep, c05: limit overshoots and lists under mode changes,
                // c02: crossing phrases + Tab + overflow) instead of generated ones
                script_name = Some(args[i + 1].clone());
                i += 1;
            }
            _ => {}
        }
        i += 1;
    }
    if let Some(name) = &script_name {
        n_sessions = match name.as_str() {
            "c05" => script_c05::n_sessions(thorough),
            "c02" => script_c02::n_sessions(thorough),
            _ => script_c18::n_sessions(thorough),
        };
        ops_per = 100_000;
    }
    // panics inside the editor are outcomes, not noise
    std::panic::set_hook(Box::new(|_| {}));
    let mut out = Out::new();
    let seed = seed_from_env();
    if script_name.as_deref() == Some("c01") { script_c01::run(&mut out, seed, thorough); out.flush(); return; } // C01: choices over break / glue marks, own driver loop
    if script_name.as_deref() == Some("c06") { script_c06::run(&mut out, seed, thorough); out.flush(); return; } // C06: finite key sweep, own driver loop
    if let Some(i) = args.iter().position(|a| a == "--bfs") { bfs::run(&mut out, seed, thorough, args.get(i + 1).map(|s| s.as_str()).unwrap_or("all"), &args); out.flush(); return; } // closed-world BFS (bfs.rs), own driver loop
    if args.iter().any(|a| a == "--c17-pairs") {
        // C17: paired executions only (with/without getters, reset vs fresh, alone vs beside another context)
        oracle_c17::run_pairs(&mut out, seed, thorough);
        out.flush();
        return;
    }
    let pool = pool(focus);
    out.stat("pool_syllables", pool.len());
    let kb = Qwerty;
    let (mut n_ops, mut n_panic, mut n_sel_steps, mut n_uniform) = (0u64, 0u64, 0u64, 0u64);
    let mut state_hist = [0u64; 4];
    let mut beh_hist = [0u64; 4];
    // C01
    let (mut n_hang, mut n_getter_fail, mut n_noword_steps, mut n_noword_sessions, mut max_lookups) = (0u64, 0u64, 0u64, 0u64, 0u64);
    let mut noword_via: std::collections::BTreeMap<String, u64> = Default::default();
    let mut noword_steps_by: std::collections::BTreeMap<String, u64> = Default::default();
    let mut n_c01_sessions = 0u64;
    let (mut n_symtab_empty, mut n_symtab_empty_row) = (0u64, 0u64);
    let (mut n_engine_switch_mid, mut n_engine_switch_partial, mut n_unlearn_hit_buffered) = (0u64, 0u64, 0u64);

    for sid in 0..n_sessions {
        let mut rng = Rng::new(seed.wrapping_mul(1_000_003).wrapping_add(sid));
        let words_for_all = !rng.chance(1, 6);
        let sys: Vec<SysLayer> = (0..(1 + rng.below(2))).map(|_| gen_layer(&mut rng, &pool, words_for_all)).collect();
        // C02: overlapping phrase pairs (a b) / (b c) in two sessions out of three (own stream: the other choices are
        // unchanged) — the engine offers alternatives that READ differently only for overlapping phrases
        let mut rng_c02 = Rng::new(seed.wrapping_mul(7_777_777).wrapping_add(sid));
        let mut sys = sys;
        if rng_c02.chance(2, 3) {
            for _ in 0..(1 + rng_c02.below(3)) {
                let (a, b, c) = (rng_c02.pick(&pool).0, rng_c02.pick(&pool).0, rng_c02.pick(&pool).0);
                for k in [vec![a, b], vec![b, c]] {
                    let p = gen_phrase(&mut rng_c02, 2);
                    let f = *rng_c02.pick(&[1u32, 10, 100, 100, 500, 1000]);
                    if !sys[0].iter().any(|e| e.0 == k && e.1 == p) {
                        sys[0].push((k, p, f));
                    }
                }
            }
        }
        let sys_boxes: Vec<Box<dyn Dictionary>> = sys
            .iter()
            .map(|layer| {
                let mut d = TrieBuf::new_in_memory();
                for (k, p, f) in layer {
                    DictionaryMut::add_phrase(&mut d, k, Phrase::new(p.as_str(), *f)).unwrap();
                }
                Box::new(FuelDict(d)) as Box<dyn Dictionary>
            })
            .collect();
        let probes: Vec<TrieBuf> = sys
            .iter()
            .map(|layer| {
                let mut d = TrieBuf::new_in_memory();
                for (k, p, f) in layer {
                    DictionaryMut::add_phrase(&mut d, k, Phrase::new(p.as_str(), *f)).unwrap();
                }
                d
            })
            .collect();
        let user = Box::new(TrieBuf::new_in_memory());
        let user_ptr: *const TrieBuf = &*user;
        let dict = Layered::new(sys_boxes, user);
        let conv_log: ConvLog = Rc::new(RefCell::new(vec![]));
        let engine_kind = if rng.chance(1, 2) { 1 } else { rng.below(3) as u8 };
        let layout_kind = if rng.chance(2, 3) { 0 } else { rng.below(10) as u8 };
        let lay: LayoutCell = Rc::new(RefCell::new(layout(layout_kind)));
        let abbr = {
            let mut f = tempfile::NamedTempFile::new().unwrap();
            writeln!(f, "a 測試").unwrap();
            writeln!(f, "Z 𠀀們").unwrap();
            f.flush().unwrap();
            AbbrevTable::open(f.path()).unwrap()
        };
        // FX1 (C07): every sixth session has NO symbol table (an editor created without symbols.dat), every sixth
        // one a category without symbols (own stream: the other choices are unchanged)
        let symtab_kind = Rng::new(seed.wrapping_mul(5_555_557).wrapping_add(sid)).below(6);
        let sym_sel = SymbolSelector::new(std::io::Cursor::new(match symtab_kind {
            0 => "",
            1 => "…\n空=\n※\n常用符號=，、。\n括號=（）「」\n",
            _ => "…\n※\n常用符號=，、。\n括號=（）「」\n",
        }))
        .unwrap();
        match symtab_kind {
            0 => n_symtab_empty += 1,
            1 => n_symtab_empty_row += 1,
            _ => (),
        }
        let mut ed = Editor::new(engine(engine_kind, &conv_log), dict, LaxUserFreqEstimate::new(rng.below(3) * 5000), abbr, sym_sel);
        ed.set_syllable_editor(Box::new(SharedLayout(lay.clone())));
        let mut o = ed.editor_options();
        o.conversion_engine = match engine_kind {
            0 => ConversionEngineKind::SimpleEngine,
            2 => ConversionEngineKind::FuzzyChewingEngine,
            _ => ConversionEngineKind::ChewingEngine,
        };
        o.lookup_strategy = if engine_kind == 2 { LookupStrategy::FuzzyPartialPrefix } else { LookupStrategy::Standard };
        for _ in 0..rng.below(4) {
            o = gen_opts(&mut rng, &o, engine_kind, focus);
        }
        // C02: every third session starts with a small buffer limit (own stream: the other choices are unchanged)
        if rng_c02.chance(1, 3) {
            o.auto_commit_threshold = rng_c02.below(8) as usize;
        }
        ed.set_editor_options(o);
        register_user(&conv_log, user_ptr);
        let mut s = Session { ed, lay, conv_log, user: user_ptr, sys, layout_kind, probes, engine_kind };
        let uniform = rng.chance(1, 8);
        let mut pending: Vec<Op> = vec![];
        let mut history: Vec<String> = vec![];
        // the open candidate list as reported after the previous operation (= before this one)
        let mut cand_pre: Option<CandView> = None;
        let mut noword_seen = false;
        // C01: every fourth session runs word-less-syllable scenarios (own stream: the other sessions are unchanged)
        let mut rng_c01 = Rng::new(seed.wrapping_mul(9_999_991).wrapping_add(sid));
        let c01_session = rng_c01.chance(1, 4);
        if c01_session {
            n_c01_sessions += 1;
        }

        let mut script18 = script_name.as_ref().filter(|n| *n != "c05" && *n != "c02").map(|_| script_c18::Script::new(sid, thorough));
        let mut script02 = script_name.as_ref().filter(|n| *n == "c02").map(|_| script_c02::Script::new(sid, thorough, &pool));
        let mut script05 = script_name.as_ref().filter(|n| *n == "c05").map(|_| script_c05::Script::new(sid, thorough));
        for _ in 0..ops_per {
            let scripted = match (&mut script18, &mut script05, &mut script02) {
                (Some(sc), _, _) => Some(sc.next(&s.ed.verif_snapshot())),
                (_, Some(sc), _) => Some(sc.next(&s.ed.verif_snapshot())),
                (_, _, Some(sc)) => Some(sc.next(&s.ed.verif_snapshot())),
                _ => None,
            };
            let op = match scripted {
                Some(Some(op)) => op,
                Some(None) => break,
                None => gen_op_c01(&mut rng, &s, &pool, &mut pending, uniform, focus, cand_pre.as_ref(), if c01_session { Some(&mut rng_c01) } else { None }),
            };
            // (C01's former hang class — `PhraseSelector::next` never returned when no range at the highlighted
            // syllable had a phrase — is repaired (0f255ea): the C07 profile no longer steers around Down / Space
            // on a word-less syllable)
            let ev = match &op {
                Op::Key(c, m) => Some(kb.map_with_mod(*c, *m)),
                _ => None,
            };
            let pre = s.ed.verif_snapshot();
            let dict_pre = s.dict_s();
            let lay_ans = match &op {
                // the only layout the editor asks during `set_syllable_editor` is the one it is given
                Op::SetLayout(k) => s.layout_answers_of(&*layout(*k), ev),
                _ => s.layout_answers(ev),
            };
            // what the application sees before the operation (C02); getters only, before the log is reset
            LOOKUPS.with(|c| c.set(0));
            let display_pre = catch_unwind(AssertUnwindSafe(|| s.ed.display())).ok();
            let alts_pre: Vec<String> = s.conv_log.borrow().last().map(|c| c.2.iter().map(|p| p.iter().map(|iv| &*iv.str).collect()).collect()).unwrap_or_default();
            let len_pre = s.ed.len();
            s.conv_log.borrow_mut().clear();
            let st_ix = match pre.as_bytes()[0] {
                b'E' => 0,
                b'Y' => 1,
                b'S' => 2,
                _ => 3,
            };
            state_hist[st_ix] += 1;
            if st_ix == 2 {
                n_sel_steps += 1;
            }
            if uniform {
                n_uniform += 1;
            }
            let mut new_layout_state = String::new();
            // C01: the class predicate on the pre-state, and how often the generator builds the situations behind F02 / F03
            let no_word_pre = s.no_word(&pre);
            if no_word_pre.is_some() {
                n_noword_steps += 1;
                // … and under which engine / choice direction / state, with which operation
                let o = s.ed.editor_options();
                let what = match &op {
                    Op::Key(c @ (KeyCode::Down | KeyCode::Space | KeyCode::Tab | KeyCode::Enter | KeyCode::J | KeyCode::K | KeyCode::Backspace | KeyCode::Del | KeyCode::Esc), m) if *m == Modifiers::default() => format!("op_key_{:?}", c).to_lowercase(),
                    Op::Key(..) => "op_key_other".into(),
                    Op::Select(_) => "op_select".into(),
                    Op::StartSel => "op_startsel".into(),
                    Op::Commit => "op_commit".into(),
                    Op::Jump(j) => format!("op_jump{}", j),
                    Op::SetEngine(k) => format!("op_setengine{}", k),
                    Op::SetOpts(_) => "op_setopts".into(),
                    Op::Learn(..) | Op::Unlearn(..) => "op_learn_unlearn".into(),
                    _ => "op_other_api".into(),
                };
                for k in [
                    format!("engine{}", s.engine_kind),
                    (if o.phrase_choice_rearward { "choice_rearward" } else { "choice_forward" }).to_string(),
                    (if st_ix == 2 { "list_open" } else { "list_closed" }).to_string(),
                    what,
                ] {
                    *noword_steps_by.entry(k).or_insert(0) += 1;
                }
            }
            match &op {
                Op::SetEngine(k) if *k != s.engine_kind && !s.ed.is_empty() => {
                    n_engine_switch_mid += 1;
                    if s.ed.symbols().iter().filter_map(|y| y.to_syllable()).any(|y| !s.probes.iter().any(|d| d.lookup_first_phrase(&[y], LookupStrategy::Standard).is_some())) {
                        n_engine_switch_partial += 1;
                    }
                }
                Op::Unlearn(k, _) if k.len() == 1 && s.ed.symbols().iter().any(|y| y.to_syllable() == Some(k[0])) => n_unlearn_hit_buffered += 1,
                _ => {}
            }
            let res = guarded(|| -> String {
                match &op {
                    Op::Key(..) => kb_s(s.ed.process_keyevent(ev.unwrap())).to_string(),
                    Op::Select(n) => if s.ed.select(*n).is_ok() { "ok".into() } else { "err".into() },
                    Op::StartSel => if s.ed.start_selecting().is_ok() { "ok".into() } else { "err".into() },
                    Op::CancelSel => if s.ed.cancel_selecting().is_ok() { "ok".into() } else { "err".into() },
                    Op::Commit => if s.ed.commit().is_ok() { "ok".into() } else { "err".into() },
                    Op::Clear => { s.ed.clear(); "ok".into() }
                    Op::Ack => { s.ed.ack(); "ok".into() }
                    Op::ClearSyl => { s.ed.clear_syllable_editor(); "ok".into() }
                    Op::SetOpts(o) => { s.ed.set_editor_options(*o); "ok".into() }
                    Op::SetLayout(k) => {
                        // like the C API: install a fresh layout object
                        let cell: LayoutCell = Rc::new(RefCell::new(layout(*k)));
                        s.ed.set_syllable_editor(Box::new(SharedLayout(cell.clone())));
                        s.lay = cell;
                        s.layout_kind = *k;
                        new_layout_state = lay_state(&**s.lay.borrow());
                        "ok".into()
                    }
                    Op::SetEngine(k) => {
                        // like chewing_config_set_int("chewing.conversion_engine")
                        let mut o = s.ed.editor_options();
                        s.ed.set_conversion_engine(engine(*k, &s.conv_log));
                        s.engine_kind = *k;
                        o.conversion_engine = match k {
                            0 => ConversionEngineKind::SimpleEngine,
                            2 => ConversionEngineKind::FuzzyChewingEngine,
                            _ => ConversionEngineKind::ChewingEngine,
                        };
                        o.lookup_strategy = if *k == 2 { LookupStrategy::FuzzyPartialPrefix } else { LookupStrategy::Standard };
                        s.ed.set_editor_options(o);
                        "ok".into()
                    }
                    Op::Learn(k, p) => if s.ed.learn_phrase(k, p).is_ok() { "ok".into() } else { "err".into() },
                    Op::Unlearn(k, p) => if s.ed.unlearn_phrase(k, p).is_ok() { "ok".into() } else { "err".into() },
                    Op::Jump(j) => {
                        let r = match j {
                            0 => s.ed.jump_to_first_selection_point(),
                            1 => s.ed.jump_to_last_selection_point(),
                            2 => s.ed.jump_to_next_selection_point(),
                            _ => s.ed.jump_to_prev_selection_point(),
                        };
                        if r.is_ok() { "ok".into() } else { "err".into() }
                    }
                }
            });
            max_lookups = max_lookups.max(LOOKUPS.with(|c| c.get()).min(LOOKUP_FUEL));
            n_ops += 1;
            let conv_ans = s.conv_answers();
            let conv_step = s.conv_log.borrow().clone();
            let mut opstr = op_s(&op, &ev);
            if let Op::SetLayout(_) = op {
                let _ = write!(opstr, " {}", if new_layout_state.is_empty() { lay_state(&**s.lay.borrow()) } else { new_layout_state.clone() });
            }
            match res {
                Ok(ret) => {
                    if let Op::Key(..) = op {
                        beh_hist[match ret.as_str() { "I" => 0, "C" => 1, "B" => 2, _ => 3 }] += 1;
                    }
                    let post = s.ed.verif_snapshot();
                    let dict_post = s.dict_s();
                    history.push(opstr.clone());
                    // C01: every read-only accessor on the post-state (none of them changes the editor)
                    let no_word_post = s.no_word(&post);
                    if no_word_post.is_some() && no_word_pre.is_none() {
                        *noword_via.entry(opstr.split(' ').next().unwrap_or("").to_string()).or_insert(0) += 1;
                        if !noword_seen {
                            noword_seen = true;
                            n_noword_sessions += 1;
                        }
                    }
                    let mut getter_fail: Option<(&str, &str)> = None;
                    {
                        let ed = &s.ed;
                        let accessors: [(&str, &dyn Fn()); 12] = [
                            ("display", &|| sink(ed.display())),
                            ("intervals", &|| sink(ed.intervals().count())),
                            ("len/cursor/is_empty", &|| sink((ed.len(), ed.cursor(), ed.is_empty(), ed.is_entering(), ed.is_selecting(), ed.entering_syllable(), ed.last_key_behavior()))),
                            ("syllable_buffer_display", &|| sink((ed.syllable_buffer_display(), ed.syllable_buffer()))),
                            ("display_commit/notification", &|| sink((ed.display_commit().len(), ed.notification().len()))),
                            ("paginated_candidates", &|| sink(ed.paginated_candidates())),
                            ("all_candidates", &|| sink(ed.all_candidates())),
                            ("total_page", &|| sink(ed.total_page())),
                            ("current_page_no", &|| sink(ed.current_page_no())),
                            ("has_next_selection_point", &|| sink(ed.has_next_selection_point())),
                            ("has_prev_selection_point", &|| sink(ed.has_prev_selection_point())),
                            ("editor_options/symbols", &|| sink((ed.editor_options(), ed.symbols().len()))),
                        ];
                        for (name, f) in accessors.iter() {
                            if let Err(how) = guarded(f) {
                                getter_fail = Some((name, how));
                                break;
                            }
                            max_lookups = max_lookups.max(LOOKUPS.with(|c| c.get()).min(LOOKUP_FUEL));
                        }
                    }
                    s.conv_log.borrow_mut().clear();
                    // C07: the open candidate list as the getters report it (a getter that fails is `panicked`)
                    LOOKUPS.with(|c| c.set(0));
                    let cand_post = s.cand_view(&post);
                    // C02: what is shown / committed after the operation
                    let display_post = catch_unwind(AssertUnwindSafe(|| s.ed.display())).ok();
                    let commit_post = s.ed.display_commit().to_string();
                    s.conv_log.borrow_mut().clear();
                    let step = Step {
                        op: &opstr, key: ev, pre: &pre, post: &post, ret: &ret,
                        dict_pre: &dict_pre, dict_post: &dict_post, history: &history, seed, sid,
                        cand_pre: cand_pre.as_ref(), cand_post: cand_post.as_ref(),
                        outcome: "ok", no_word_pre: no_word_pre.as_deref(), no_word_post: no_word_post.as_deref(), getter_fail,
                        display_pre: display_pre.as_deref(), display_post: display_post.as_deref(),
                        len_pre, len_post: s.ed.len(), commit_post: &commit_post, conv: &conv_step, alts_pre: &alts_pre,
                    };
                    // the properties, evaluated directly on the real editor (one module per property)
                    oracle_c02::check(&mut out, &step);
                    oracle_c04::check(&mut out, &step);
                    oracle_c05::check(&mut out, &step);
                    oracle_c06::check(&mut out, &step);
                    oracle_c17::after_step(&mut out, &step, &s, c17_queries, &mut c17_stats);
                    oracle_c07::check(&mut out, &step);
                    oracle_c18::check(&mut out, &step);
                    oracle_c01::check(&mut out, &step);
                    out.rec(&rec_ok(&opstr, &pre, &dict_pre, &lay_ans, &conv_ans, &post, &ret, &dict_post));
                    // C07: the candidate getters themselves are a (pure) operation the model recomputes
                    if let Some(c) = &cand_post {
                        out.rec(&rec_cands(&post, &dict_post, &s.layout_answers(None), c));
                    }
                    cand_pre = cand_post;
                    if let Some((_, how)) = getter_fail {
                        n_getter_fail += 1;
                        if how == "hang" {
                            n_hang += 1;
                        }
                        // every later read would fail the same way: end the session
                        break;
                    }
                }
                Err(how) => {
                    history.push(opstr.clone());
                    let step = Step {
                        op: &opstr, key: ev, pre: &pre, post: &pre, ret: "panic",
                        dict_pre: &dict_pre, dict_post: &dict_pre, history: &history, seed, sid,
                        cand_pre: cand_pre.as_ref(), cand_post: None,
                        outcome: how, no_word_pre: no_word_pre.as_deref(), no_word_post: None, getter_fail: None,
                        display_pre: display_pre.as_deref(), display_post: None,
                        len_pre, len_post: len_pre, commit_post: "", conv: &conv_step, alts_pre: &alts_pre,
                    };
                    oracle_c01::check(&mut out, &step);
                    if how == "hang" {
                        // no transcript record: the model's verdict for a loop that does not end is `outOfFuel`,
                        // which the driver cannot compare with a record; the oracle line above carries the history
                        n_hang += 1;
                        out.sample(&format!("hang (look-up fuel) in `{}` session {}", opstr, sid));
                    } else {
                        n_panic += 1;
                        oracle_c07::check_panic(&mut out, &step);
                        out.rec(&rec_panic(&opstr, &pre, &dict_pre, &lay_ans, &conv_ans));
                    }
                    // the editor may be left inconsistent: end the session
                    break;
                }
            }
        }
        // the Editor owns the user dictionary; dropping it here keeps `user_ptr` valid above
        drop(s);
    }
    oracle_c05::finish(&mut out);
    oracle_c18::finish(&mut out);
    out.stat("sessions", n_sessions);
    out.stat("ops", n_ops);
    out.stat("panics", n_panic);
    out.stat("steps_in_selecting", n_sel_steps);
    out.stat("steps_uniform_stream", n_uniform);
    out.stat("state_entering", state_hist[0]);
    out.stat("state_entering_syllable", state_hist[1]);
    out.stat("state_selecting", state_hist[2]);
    out.stat("state_highlighting", state_hist[3]);
    out.stat("beh_ignore", beh_hist[0]);
    out.stat("beh_commit", beh_hist[1]);
    out.stat("beh_bell", beh_hist[2]);
    out.stat("beh_absorb", beh_hist[3]);
    out.stat("c01_hangs", n_hang);
    out.stat("c01_accessor_failures", n_getter_fail);
    out.stat("c01_steps_from_noword_state", n_noword_steps);
    out.stat("c01_sessions_reaching_noword_state", n_noword_sessions);
    out.stat("c01_sessions_with_noword_scenarios", n_c01_sessions);
    out.stat("c07_sessions_with_empty_symbol_table", n_symtab_empty);
    out.stat("c07_sessions_with_empty_symbol_category", n_symtab_empty_row);
    for (k, n) in &noword_steps_by {
        out.stat(&format!("c01_steps_from_noword_state.{}", k), n);
    }
    for (k, n) in &noword_via {
        out.stat(&format!("c01_noword_state_entered_by.{}", k), n);
    }
    out.stat("c01_engine_switch_mid_composition", n_engine_switch_mid);
    out.stat("c01_engine_switch_with_partial_syllable", n_engine_switch_partial);
    out.stat("c01_unlearn_of_buffered_syllable", n_unlearn_hit_buffered);
    out.stat("c01_max_lookups_in_one_operation", max_lookups);
    out.stat("c01_lookup_fuel", LOOKUP_FUEL);
    c17_stats.print(&mut out);
    out.stat("profile_c07", focus as u8);
    oracle_c07::finish(&mut out);
    oracle_c02::stats(&mut out);
    out.flush();
}
