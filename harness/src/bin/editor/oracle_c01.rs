//! C01 evaluated directly on the real editor: no operation and no read-only accessor may panic or hang.
//!
//! No known class remains: EVERY panic, hang (look-up fuel) or accessor failure is reported as `new`.
//! The former class `no-word-for-buffered-syllable` (findings F02 and F03: some syllable of the pre-edit
//! buffer, or of an open phrase selector's copy of it, has no one-syllable word under a lookup strategy
//! in force) was repaired in the repository (43e8036, 0f255ea, ce48759).  Its state predicate is still
//! evaluated on every step, as a STATISTIC only (`c01_steps_from_noword_state`, …: the evidence must
//! show that such states are exercised) and as information in the report text.
use crate::step::*;
use vharness::Out;

pub fn check(out: &mut Out, st: &Step) {
    if st.outcome != "ok" {
        let why = st.no_word_pre.unwrap_or("every buffered syllable has a word");
        out.oracle_fail("C01", "new", &format!("{} in operation `{}` [pre-state: {}]: {}", st.outcome, st.op, why, st.hist()));
        return;
    }
    if let Some((getter, how)) = st.getter_fail {
        let why = st.no_word_post.unwrap_or("every buffered syllable has a word");
        out.oracle_fail("C01", "new", &format!("{} in accessor {} after operation `{}` [state: {}]: {}", how, getter, st.op, why, st.hist()));
    }
}
