//! C01 evaluated directly on the real editor: no operation and no read-only accessor may panic or hang.
//!
//! Classification is STATE-BASED.  The one recorded class (findings F02 and F03) is
//! `no-word-for-buffered-syllable`: in the state the failing call started from, some syllable of the
//! pre-edit buffer (or of an open phrase selector's copy of it) has no one-syllable word under a lookup
//! strategy in force.  A panic or hang from any other state is `new`.
use crate::step::*;
use vharness::Out;

pub const KNOWN_CLASS: &str = "no-word-for-buffered-syllable";

pub fn check(out: &mut Out, st: &Step) {
    if st.outcome != "ok" {
        let (class, why) = match st.no_word_pre {
            Some(w) => (KNOWN_CLASS, w),
            None => ("new", "every buffered syllable has a word"),
        };
        out.oracle_fail("C01", class, &format!("{} in operation `{}` [pre-state: {}]: {}", st.outcome, st.op, why, st.hist()));
        return;
    }
    if let Some((getter, how)) = st.getter_fail {
        let (class, why) = match st.no_word_post {
            Some(w) => (KNOWN_CLASS, w),
            None => ("new", "every buffered syllable has a word"),
        };
        out.oracle_fail("C01", class, &format!("{} in accessor {} after operation `{}` [state: {}]: {}", how, getter, st.op, why, st.hist()));
    }
}
