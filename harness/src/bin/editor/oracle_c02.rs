//! C02 evaluated directly on the real editor, one operation at a time:
//! what is committed is exactly what was displayed; no text is lost or invented.
//!
//! * whole-buffer commit (key Enter in `Entering` with a non-empty pre-edit, or `Editor::commit()`):
//!   commit string == `display()` immediately before, pre-edit empty afterwards, result Commit;
//! * overflow (a key other than that, or `select(n)`, reporting Commit after a conversion was asked for):
//!   the commit string is the LEAST leading part of the conversion of the full buffer that makes the
//!   rest fit the threshold (the conversion of the full buffer is what the engine answered to the last
//!   conversion call of the step: the composition it was asked about is the buffer before removal),
//!   exactly the symbols under it are removed from the front, characters are conserved, the rest fits;
//! * single character with an empty pre-edit: exactly one character, pre-edit untouched;
//! * key steps: commit string non-empty <=> result Commit;
//! * API calls: what they do to the commit buffer (select: overflow or untouched; the others untouched;
//!   ack / clear: emptied).
//!
//! Character counts: the conservation law that holds (and that Props/C02.lean proves: `history_ledger*` for states
//! with a word per syllable) is  committed characters = Σ over the committed symbols of (1 for a symbol shown as one
//! character, |spelling| for a syllable the dictionary has no word for).  Every engine shows such a syllable as its
//! Bopomofo spelling (1..4 characters for one symbol: F30 for the simple engine, the fallback of d6d8fbe / 43e8036 for
//! the others); it gets into the buffer when its only word is forgotten (`unlearn`) or the engine is switched while it
//! is buffered.  The spelling need not be an interval of its own: `glue_fn` merges it with a neighbour across a glue
//! gap and a forced selection is taken as it is, so the oracle deals the text of EVERY committed interval to the
//! symbols it covers (`interval_extra`: one character, or the syllable's own spelling, per symbol).  The intervals are
//! those the engine answered DURING the step for the buffer before anything was removed (whole commit: the conversion
//! the commit rendered = `display()` before; overflow: the full buffer at overflow time), never the state after the
//! operation.  The running per-session ledger counts symbols, with the same allowance (`extra`).  For operations that
//! insert nothing the allowance is granted only when C01's class predicate held BEFORE the operation (`note_spelled`):
//! in an ordinary state the count stays strictly one character per symbol.  The check "display after auto-commit has
//! one character per symbol" is evaluated only when every remaining syllable has a word
//! (`c02_display_checks_skipped_wordless` otherwise).
use crate::step::*;
use chewing::editor::keyboard::KeyCode;
use std::cell::RefCell;
use vharness::{hx, Out};

#[derive(Default)]
struct Stats {
    key_steps: u64,
    whole_commits_key: u64,
    whole_commits_api: u64,
    whole_commits_nth_gt0: u64,
    whole_commits_alt_differs: u64,
    whole_commits_with_selection: u64,
    whole_commits_with_break: u64,
    api_commit_rejected: u64,
    auto_commits_key: u64,
    auto_commits_select: u64,
    auto_commits_nth_gt0: u64,
    auto_commits_alt_differs: u64,
    auto_commits_alt_prefix_differs_key: u64,
    auto_commits_alt_prefix_differs_select: u64,
    auto_commits_prefix_of_display_pre: u64,
    auto_commits_nth_changed: u64,
    auto_commits_with_selection: u64,
    auto_commits_with_break: u64,
    auto_commits_multi_interval: u64,
    auto_commits_phrase_interval: u64,
    auto_commits_stale_commit_buffer: u64,
    auto_commits_rest_nonempty: u64,
    auto_commit_thr: [u64; 4], // 0, 1..3, 4..8, >8
    single_char_commits: u64,
    non_commit_keys: u64,
    api_calls_buffer_kept: u64,
    direct_english_half: u64,
    direct_english_full: u64,
    direct_chinese: u64,
    chars_whole_key: u64,
    chars_whole_api: u64,
    chars_overflow_key: u64,
    chars_overflow_select: u64,
    chars_direct: u64,
    chars_accepted: u64,
    chars_deleted: u64,
    chars_left_in_buffers: u64,
    ledger_steps: u64,
    conv_calls: u64,
    conv_calls_multi_alt: u64,
    conv_calls_alt_text_differs: u64,
    samples: u64,
    spelled_commits: u64,
    spelled_extra_chars: u64,
    display_checks_skipped_wordless: u64,
    spelled_inside_longer_interval: u64,
    spelled_without_wordless_prestate: u64,
}

/// running ledger of the current session: characters emitted so far, characters accepted so far
/// (`history_ledger`: emitted + symbols in the pre-edit = symbols at the start + accepted, after every step)
#[derive(Default)]
struct Ledger {
    sid: Option<u64>,
    start_len: i64,
    emitted: i64,
    accepted: i64,
    last_len: i64,
}

thread_local! {
    static STATS: RefCell<Stats> = RefCell::new(Stats::default());
    static LEDGER: RefCell<Ledger> = RefCell::new(Ledger::default());
}

/// one step of the ledger: `emitted` characters handed to the application, `accepted` = net characters the
/// editing part of the operation took in (for a commit path: measured on the buffer the engine was asked about)
fn ledger(out: &mut Out, st: &Step, emitted: usize, accepted: i64) {
    let bad = LEDGER.with(|l| {
        let mut l = l.borrow_mut();
        if l.sid != Some(st.sid) {
            let left = l.last_len;
            STATS.with(|s| s.borrow_mut().chars_left_in_buffers += left.max(0) as u64);
            *l = Ledger { sid: Some(st.sid), start_len: st.len_pre as i64, ..Ledger::default() };
        }
        l.emitted += emitted as i64;
        l.accepted += accepted;
        l.last_len = st.len_post as i64;
        STATS.with(|s| {
            let mut s = s.borrow_mut();
            s.ledger_steps += 1;
            if accepted >= 0 { s.chars_accepted += accepted as u64 } else { s.chars_deleted += (-accepted) as u64 }
        });
        if l.emitted + st.len_post as i64 != l.start_len + l.accepted {
            Some((l.emitted, l.start_len, l.accepted))
        } else {
            None
        }
    });
    if let Some((e, s0, a)) = bad {
        fail(out, st, &format!(
            "session ledger broken: {} characters emitted + {} in the pre-edit != {} at the start + {} accepted",
            e, st.len_post, s0, a
        ));
        // re-base so that one defect is reported once per step, not on every later step
        LEDGER.with(|l| {
            let mut l = l.borrow_mut();
            l.accepted = l.emitted + st.len_post as i64 - l.start_len;
        });
    }
}

fn fail(out: &mut Out, st: &Step, what: &str) {
    out.oracle_fail("C02", "new", &format!("{}: {}", what, st.hist()));
}

/// parse ` <n> <sym>… <n> <gap>… <n> (<start> <end> <phrase> <text>)…` → (symbols, #breaks + #glues, #selections)
fn parse_comp(comp: &str) -> (Vec<String>, usize, usize) {
    let t: Vec<&str> = comp.split_whitespace().collect();
    let n: usize = t[0].parse().unwrap();
    let syms: Vec<String> = t[1..1 + n].iter().map(|s| s.to_string()).collect();
    let ng: usize = t[1 + n].parse().unwrap();
    let gaps = &t[2 + n..2 + n + ng];
    let nsel: usize = t[2 + n + ng].parse().unwrap();
    (syms, gaps.iter().filter(|g| **g == "K" || **g == "G").count(), nsel)
}

fn nchars(s: &str) -> usize {
    s.chars().count()
}

/// The accounting of one interval: its text is one PIECE per symbol it covers, in order; a piece is one character
/// (a word's character, a selection's character, the symbol itself) or — for a syllable — the syllable's Bopomofo
/// spelling (how every engine shows a syllable it finds no word for: 1..4 characters).  The engines merge neighbouring
/// intervals across a glue gap and take a forced selection as it is, so a spelled syllable may sit INSIDE an interval
/// of several symbols.  `Some(extra)` = such a decomposition exists and spends `extra` characters beyond one per
/// symbol (for one interval every decomposition spends the same: characters − symbols); `None` = the text cannot be
/// dealt out to the symbols that way: characters were lost or invented.
fn interval_extra(iv: &chewing::conversion::Interval, syms: &[String]) -> Option<usize> {
    let text: Vec<char> = iv.str.chars().collect();
    let covered = syms.get(iv.start..iv.end)?;
    let spellings: Vec<Option<Vec<char>>> = covered
        .iter()
        .map(|s| {
            let code: u16 = s.strip_prefix('s')?.parse().ok()?;
            Some(chewing::zhuyin::Syllable::try_from(code).ok()?.to_string().chars().collect())
        })
        .collect();
    // reach[i] = positions of `text` at which the pieces of the first i symbols can end
    let mut reach: Vec<usize> = vec![0];
    for sp in &spellings {
        let mut next: Vec<usize> = vec![];
        for &p in &reach {
            if p < text.len() {
                next.push(p + 1);
            }
            if let Some(sp) = sp {
                if !sp.is_empty() && text[p..].starts_with(sp) {
                    next.push(p + sp.len());
                }
            }
        }
        next.sort();
        next.dedup();
        reach = next;
    }
    reach.contains(&text.len()).then(|| text.len() - covered.len())
}

/// characters a committed path shows BEYOND one per symbol (`interval_extra` summed); `Err(i)` = interval `i` of the
/// path does not deal one piece to each of its symbols
fn spelling_extra(path: &[chewing::conversion::Interval], syms: &[String]) -> Result<usize, usize> {
    let mut extra = 0usize;
    for (i, iv) in path.iter().enumerate() {
        extra += interval_extra(iv, syms).ok_or(i)?;
    }
    if extra > 0 {
        STATS.with(|s| {
            let mut s = s.borrow_mut();
            s.spelled_commits += 1;
            s.spelled_extra_chars += extra as u64;
            if path.iter().any(|iv| iv.end > iv.start + 1 && interval_extra(iv, syms).is_some_and(|e| e > 0)) {
                s.spelled_inside_longer_interval += 1;
            }
        });
    }
    Ok(extra)
}

/// The allowance is for word-less syllables only.  An operation that inserts nothing (Enter, `commit()`, `select(n)`)
/// commits what was in the buffer before: a spelling among it is accepted only if the class predicate of C01 (some
/// buffered syllable has no word under a strategy in force, evaluated on the dictionaries themselves) held in the
/// state BEFORE the operation — in an ordinary state the count is strictly one character per symbol.  A key that
/// inserts a syllable may bring the word-less syllable itself (entered under the option's strategy, converted under
/// the engine's): counted (`c02_wordless_spelling_without_wordless_prestate`), not judged.
fn note_spelled(out: &mut Out, st: &Step, extra: usize, inserting: bool) {
    if extra > 0 && st.no_word_pre.is_none() {
        if inserting {
            STATS.with(|s| s.borrow_mut().spelled_without_wordless_prestate += 1);
        } else {
            fail(out, st, &format!(
                "characters not conserved: {} characters beyond one per symbol committed as the spelling of word-less syllables, but every buffered syllable had a word before the operation",
                extra
            ));
        }
    }
}

/// returns the characters of the commit string beyond one per symbol (`spelling_extra` of the committed path)
fn whole_commit(out: &mut Out, st: &Step, by_key: bool) -> usize {
    let post = st.post;
    let mb = misc(post);
    let Some(shown) = st.display_pre else {
        fail(out, st, "whole-buffer commit succeeded although display() of the state before panicked");
        return 0;
    };
    if st.commit_post != shown {
        fail(out, st, &format!("commit string {} differs from the pre-edit displayed before {}", hx(st.commit_post), hx(shown)));
    }
    if !symbols(post).is_empty() || cursor(post) != 0 || st.len_post != 0 {
        fail(out, st, "pre-edit not empty after a whole-buffer commit");
    }
    if st.display_post != Some("") {
        fail(out, st, "display() not empty after a whole-buffer commit");
    }
    if mb[0] != "C" {
        fail(out, st, "whole-buffer commit does not report Commit");
    }
    if mb[2] != "0" {
        fail(out, st, "chosen alternative not reset by a whole-buffer commit");
    }
    let nth: usize = misc(st.pre)[2].parse().unwrap();
    let (_, breaks, nsel) = parse_comp(comp_part(st.pre));
    // which symbols the pre-edit showed as a spelling: from the intervals of the conversion the commit rendered (the
    // first conversion call of the step: composition and dictionary are still those of the state before; its text is
    // what `display()` answered before the operation, checked above)
    let extra = match st.conv.first() {
        Some((_, comp, paths)) if !paths.is_empty() => {
            let path = &paths[nth % paths.len()];
            match spelling_extra(path, &parse_comp(comp).0) {
                Ok(e) => e,
                Err(i) => {
                    fail(out, st, &format!(
                        "characters not conserved by a whole-buffer commit: interval {}..{} reads {}, which is not one character (or the spelling of a word-less syllable) for each of its symbols",
                        path[i].start, path[i].end, hx(&path[i].str)
                    ));
                    // (the ledger goes on from the symbol count: one defect, one report)
                    nchars(st.commit_post).saturating_sub(st.len_pre)
                }
            }
        }
        _ => 0,
    };
    note_spelled(out, st, extra, false);
    STATS.with(|s| {
        let mut s = s.borrow_mut();
        if by_key { s.whole_commits_key += 1 } else { s.whole_commits_api += 1 }
        if nth > 0 {
            s.whole_commits_nth_gt0 += 1;
        }
        if nsel > 0 {
            s.whole_commits_with_selection += 1;
        }
        if breaks > 0 {
            s.whole_commits_with_break += 1;
        }
        // does the chosen alternative read differently from the first one? (what an `nth` mix-up would show)
        if let Some((_, _, paths)) = st.conv.first() {
            if nth > 0 && !paths.is_empty() {
                let text = |p: &Vec<chewing::conversion::Interval>| p.iter().map(|i| i.str.to_string()).collect::<String>();
                if text(&paths[nth % paths.len()]) != text(&paths[0]) {
                    s.whole_commits_alt_differs += 1;
                }
            }
        }
    });
    extra
}

/// the composition part of the composition-editor section (after cursor and the cursor stack)
fn comp_part(snap: &str) -> &str {
    let sec = sections(snap)[1];
    let t: Vec<&str> = sec.split(' ').collect();
    let nstack: usize = t[1].parse().unwrap();
    // byte offset of token 2 + nstack
    let mut off = 0;
    for tok in t.iter().take(2 + nstack) {
        off += tok.len() + 1;
    }
    &sec[off.min(sec.len())..]
}

/// returns (symbols of the full buffer the engine was asked about, characters of the commit string beyond one per symbol)
fn auto_commit(out: &mut Out, st: &Step, by_key: bool) -> (Option<usize>, usize) {
    let (pre, post) = (st.pre, st.post);
    let (ma, mb) = (misc(pre), misc(post));
    let thr = option(pre, 6);
    let Some((_, comp, paths)) = st.conv.last() else {
        fail(out, st, "Commit reported by the overflow path without asking for a conversion");
        return (None, 0);
    };
    let (full_syms, breaks, nsel) = parse_comp(comp);
    let n_full = full_syms.len();
    if n_full <= thr {
        fail(out, st, &format!("auto-commit although the buffer ({} symbols) fits the threshold {}", n_full, thr));
        return (Some(n_full), 0);
    }
    if paths.is_empty() {
        fail(out, st, "auto-commit from an empty list of alternatives");
        return (Some(n_full), 0);
    }
    // WHICH alternative the user is looking at when the overflow is detected is taken from the state BEFORE the
    // operation (never from the state after it: an implementation that forgets the chosen alternative before it
    // renders the pushed-out intervals would be asked about itself).  The only operation that changes the chosen
    // alternative without committing is Tab at the end of the buffer (one further); it can overflow when the limit
    // was lowered by a configuration call.
    let nth_pre: usize = ma[2].parse().unwrap();
    let got = st.commit_post;
    let least = |path: &Vec<chewing::conversion::Interval>| {
        // the least leading part whose removal makes the rest fit
        let (mut want, mut remove, mut k, mut has_phrase) = (String::new(), 0usize, 0usize, false);
        for iv in path {
            want.push_str(&iv.str);
            remove += iv.end.saturating_sub(iv.start);
            k += 1;
            has_phrase |= iv.end.saturating_sub(iv.start) > 1;
            if n_full.saturating_sub(remove) <= thr {
                break;
            }
        }
        (want, remove, k, has_phrase)
    };
    let pick = |nth: usize| if nth > 0 { &paths[nth % paths.len()] } else { &paths[0] };
    let tab = matches!(st.key, Some(ev) if ev.code == KeyCode::Tab);
    let nth = if tab && least(pick(nth_pre)).0 != got && least(pick(nth_pre + 1)).0 == got { nth_pre + 1 } else { nth_pre };
    let path = pick(nth);
    let full_text: String = path.iter().map(|i| i.str.to_string()).collect();
    let (want, remove, k, has_phrase) = least(path);
    // what the pre-edit showed immediately before the operation (with the chosen alternative), for the report
    let shown = st.display_pre.map(hx).unwrap_or_else(|| "-".into());
    if !full_text.starts_with(got) {
        fail(out, st, &format!("commit string {} is not a leading part of the conversion {} of the full buffer under the alternative on display (nth {} of {}; the pre-edit displayed before the operation was {})", hx(got), hx(&full_text), nth, paths.len(), shown));
        // (the checks below measure against the expected path: one defect, one report)
        return (Some(n_full), 0);
    } else if got != want {
        fail(out, st, &format!("commit string {} is not the least leading part {} of the conversion {} that makes the rest fit threshold {}", hx(got), hx(&want), hx(&full_text), thr));
    }
    // the part of the pre-edit string the user saw go away: when the new symbol did not re-segment the leading
    // intervals, the commit string is a leading part of `display()` taken BEFORE the operation
    let prefix_of_shown = st.display_pre.is_some_and(|d| d.starts_with(got));
    // would the FIRST alternative have pushed out something else? (what forgetting `nth` too early would commit)
    let alt_prefix_differs = nth > 0 && least(&paths[0]).0 != want;
    let rest = symbols(post);
    if remove > n_full || rest.len() != n_full - remove || rest.iter().zip(full_syms[remove.min(n_full)..].iter()).any(|(a, b)| *a != b.as_str()) {
        fail(out, st, &format!("remaining symbols are not the full buffer minus the {} symbols under the committed text", remove));
    }
    // which of the pushed-out symbols are shown as a spelling: from the intervals of the engine's answer for the full
    // buffer (asked during the step, before anything was removed), never from the state after the operation
    let extra = match spelling_extra(&path[..k], &full_syms) {
        Ok(e) => e,
        Err(i) => {
            fail(out, st, &format!(
                "characters not conserved: committed interval {}..{} reads {}, which is not one character (or the spelling of a word-less syllable) for each of its symbols",
                path[i].start, path[i].end, hx(&path[i].str)
            ));
            nchars(&want).saturating_sub(remove)
        }
    };
    note_spelled(out, st, extra, by_key && !matches!(st.key, Some(ev) if ev.code == KeyCode::Tab));
    if nchars(got) != remove + extra || remove + rest.len() != n_full {
        fail(out, st, &format!("characters not conserved: {} committed ({} of them spelling of word-less syllables beyond one per symbol) + {} remaining != {} before", nchars(got), extra, rest.len(), n_full));
    }
    if rest.len() > thr {
        fail(out, st, &format!("{} symbols remain after auto-commit, threshold {}", rest.len(), thr));
    }
    if st.len_post != rest.len() {
        fail(out, st, "len() disagrees with the snapshot");
    }
    if let Some(d) = st.display_post {
        if st.no_word_post.is_some() {
            // a remaining word-less syllable is shown as its spelling: at least one character per symbol
            STATS.with(|s| s.borrow_mut().display_checks_skipped_wordless += 1);
            if nchars(d) < rest.len() {
                fail(out, st, &format!("display after auto-commit has only {} characters for {} symbols", nchars(d), rest.len()));
            }
        } else if nchars(d) != rest.len() {
            fail(out, st, &format!("display after auto-commit has {} characters for {} symbols", nchars(d), rest.len()));
        }
    }
    if mb[0] != "C" {
        fail(out, st, "overflow path does not report Commit");
    }
    STATS.with(|s| {
        let mut s = s.borrow_mut();
        if by_key { s.auto_commits_key += 1 } else { s.auto_commits_select += 1 }
        if nth > 0 {
            s.auto_commits_nth_gt0 += 1;
            let text = |p: &Vec<chewing::conversion::Interval>| p.iter().map(|i| i.str.to_string()).collect::<String>();
            if text(path) != text(&paths[0]) {
                s.auto_commits_alt_differs += 1;
            }
        }
        if alt_prefix_differs {
            if by_key { s.auto_commits_alt_prefix_differs_key += 1 } else { s.auto_commits_alt_prefix_differs_select += 1 }
        }
        if prefix_of_shown {
            s.auto_commits_prefix_of_display_pre += 1;
        }
        if mb[2] != ma[2] && !tab {
            s.auto_commits_nth_changed += 1;
        }
        if nsel > 0 {
            s.auto_commits_with_selection += 1;
        }
        if breaks > 0 {
            s.auto_commits_with_break += 1;
        }
        if k > 1 {
            s.auto_commits_multi_interval += 1;
        }
        if has_phrase {
            s.auto_commits_phrase_interval += 1;
        }
        if !by_key && ma[3] != "x" {
            s.auto_commits_stale_commit_buffer += 1;
        }
        if !rest.is_empty() {
            s.auto_commits_rest_nonempty += 1;
        }
        s.auto_commit_thr[match thr { 0 => 0, 1..=3 => 1, 4..=8 => 2, _ => 3 }] += 1;
        if s.samples < 3 {
            s.samples += 1;
            out.sample(&format!("C02 auto-commit thr={} full={} committed={} rest={} :: {}", thr, hx(&full_text), hx(got), rest.len(), st.op));
        }
        if by_key { s.chars_overflow_key += nchars(got) as u64 } else { s.chars_overflow_select += nchars(got) as u64 }
    });
    (Some(n_full), extra)
}

fn path_text(p: &[chewing::conversion::Interval]) -> String {
    p.iter().map(|i| i.str.to_string()).collect()
}

pub fn check(out: &mut Out, st: &Step) {
    let (pre, post, ret) = (st.pre, st.post, st.ret);
    STATS.with(|s| {
        let mut s = s.borrow_mut();
        for (_, _, paths) in st.conv {
            s.conv_calls += 1;
            if paths.len() > 1 {
                s.conv_calls_multi_alt += 1;
                if paths.iter().any(|p| path_text(p) != path_text(&paths[0])) {
                    s.conv_calls_alt_text_differs += 1;
                }
            }
        }
    });
    let (a, b) = (sections(pre), sections(post));
    let (ma, mb) = (misc(pre), misc(post));
    // the commit string the application sees is the snapshot's commit buffer
    if hx(st.commit_post) != mb[3] {
        fail(out, st, "display_commit() disagrees with the snapshot");
    }
    let pre_empty = com_is_empty(pre);
    let in_entering = a[0].as_bytes()[0] == b'E';
    if let Some(ev) = st.key {
        STATS.with(|s| s.borrow_mut().key_steps += 1);
        // third sentence: a non-empty commit string is available exactly when the key result says Commit
        if (ret == "C") != !st.commit_post.is_empty() {
            fail(out, st, &format!("key result {} but commit string {}", ret, hx(st.commit_post)));
        }
        if (ret == "C") != (mb[0] == "C") {
            fail(out, st, "returned behaviour differs from last_key_behavior");
        }
        let delta = st.len_post as i64 - st.len_pre as i64;
        if in_entering && ev.code == KeyCode::Enter && !pre_empty {
            if ret != "C" {
                fail(out, st, &format!("Enter on a non-empty pre-edit answered {}", ret));
            }
            let extra = whole_commit(out, st, true);
            STATS.with(|s| s.borrow_mut().chars_whole_key += nchars(st.commit_post) as u64);
            ledger(out, st, nchars(st.commit_post).saturating_sub(extra), 0);
        } else if ret == "C" {
            if st.conv.is_empty() {
                // no conversion was asked for: the single-character paths (empty pre-edit)
                if !pre_empty || a[1] != b[1] || nchars(st.commit_post) != 1 {
                    fail(out, st, &format!("Commit without conversion: expected one character on an empty pre-edit, got {}", hx(st.commit_post)));
                }
                // `DirectChar`: the key's own character, its full-width form, or a (full-width) space
                if let Some(c) = st.commit_post.chars().next() {
                    let own = c == ev.unicode || (ev.code == KeyCode::Space && c == ' ');
                    let ok = if option(pre, 9) == 0 {
                        own
                    } else {
                        own || c as u32 == ev.unicode as u32 + 0xFEE0 || c == '\u{3000}' || !c.is_ascii()
                    };
                    if !ok {
                        fail(out, st, &format!("directly committed character {} is not the character of the key ({})", hx(st.commit_post), ev.unicode as u32));
                    }
                }
                STATS.with(|s| {
                    let mut s = s.borrow_mut();
                    s.single_char_commits += 1;
                    s.chars_direct += nchars(st.commit_post) as u64;
                    match (option(pre, 8), option(pre, 9)) {
                        (1, 0) => s.direct_english_half += 1,
                        (1, _) => s.direct_english_full += 1,
                        _ => s.direct_chinese += 1,
                    }
                });
                ledger(out, st, nchars(st.commit_post), nchars(st.commit_post) as i64 + delta);
            } else {
                let (n_full, extra) = auto_commit(out, st, true);
                ledger(out, st, nchars(st.commit_post).saturating_sub(extra), n_full.map_or(delta, |n| n as i64 - st.len_pre as i64));
            }
        } else {
            STATS.with(|s| s.borrow_mut().non_commit_keys += 1);
            ledger(out, st, 0, delta);
        }
        return;
    }
    let opname = st.op.split(' ').next().unwrap_or("");
    let delta = st.len_post as i64 - st.len_pre as i64;
    let (mut emitted, mut accepted) = (0usize, delta);
    match opname {
        "commit" => {
            let should = in_entering && !pre_empty;
            if (ret == "ok") != should {
                fail(out, st, &format!("commit() answered {} in state {} with {} symbols", ret, &a[0][..1], symbols(pre).len()));
            }
            if ret == "ok" {
                let extra = whole_commit(out, st, false);
                STATS.with(|s| s.borrow_mut().chars_whole_api += nchars(st.commit_post) as u64);
                (emitted, accepted) = (nchars(st.commit_post).saturating_sub(extra), 0);
            } else {
                STATS.with(|s| s.borrow_mut().api_commit_rejected += 1);
                if pre != post {
                    fail(out, st, "rejected commit() changed the state");
                }
            }
        }
        "select" => {
            if ret == "ok" && mb[0] == "C" && a[0].as_bytes()[0] == b'S' {
                let (n_full, extra) = auto_commit(out, st, false);
                (emitted, accepted) = (nchars(st.commit_post).saturating_sub(extra), n_full.map_or(delta, |n| n as i64 - st.len_pre as i64));
            } else {
                if ma[3] != mb[3] {
                    fail(out, st, "select() without overflow changed the commit buffer");
                }
                STATS.with(|s| s.borrow_mut().api_calls_buffer_kept += 1);
            }
        }
        "ack" | "clear" => {
            if !st.commit_post.is_empty() {
                fail(out, st, "commit buffer not emptied");
            }
        }
        _ => {
            if ma[3] != mb[3] {
                fail(out, st, &format!("{} changed the commit buffer", opname));
            }
            STATS.with(|s| s.borrow_mut().api_calls_buffer_kept += 1);
        }
    }
    ledger(out, st, emitted, accepted);
}

pub fn stats(out: &mut Out) {
    let left = LEDGER.with(|l| l.borrow().last_len);
    STATS.with(|s| {
        s.borrow_mut().chars_left_in_buffers += left.max(0) as u64;
        let s = s.borrow();
        // commits by route (steps) and the ledger (characters)
        out.stat("c02_route_enter", s.whole_commits_key);
        out.stat("c02_route_commit_api", s.whole_commits_api);
        out.stat("c02_route_overflow_key", s.auto_commits_key);
        out.stat("c02_route_overflow_select", s.auto_commits_select);
        out.stat("c02_route_direct_english_halfwidth", s.direct_english_half);
        out.stat("c02_route_direct_english_fullwidth", s.direct_english_full);
        out.stat("c02_route_direct_chinese_mode", s.direct_chinese);
        out.stat("c02_ledger_steps", s.ledger_steps);
        out.stat("c02_ledger_chars_enter", s.chars_whole_key);
        out.stat("c02_ledger_chars_commit_api", s.chars_whole_api);
        out.stat("c02_ledger_chars_overflow_key", s.chars_overflow_key);
        out.stat("c02_ledger_chars_overflow_select", s.chars_overflow_select);
        out.stat("c02_ledger_chars_direct", s.chars_direct);
        out.stat("c02_ledger_chars_accepted", s.chars_accepted);
        out.stat("c02_ledger_chars_deleted", s.chars_deleted);
        out.stat("c02_ledger_chars_left_in_buffers", s.chars_left_in_buffers);
        out.stat("c02_conv_calls", s.conv_calls);
        out.stat("c02_conv_calls_multi_alt", s.conv_calls_multi_alt);
        out.stat("c02_conv_calls_alt_text_differs", s.conv_calls_alt_text_differs);
        out.stat("c02_key_steps", s.key_steps);
        out.stat("c02_whole_commits", s.whole_commits_key + s.whole_commits_api);
        out.stat("c02_whole_commits_key", s.whole_commits_key);
        out.stat("c02_whole_commits_api", s.whole_commits_api);
        out.stat("c02_whole_commits_nth_gt0", s.whole_commits_nth_gt0);
        out.stat("c02_whole_commits_alt_differs", s.whole_commits_alt_differs);
        out.stat("c02_whole_commits_with_selection", s.whole_commits_with_selection);
        out.stat("c02_whole_commits_with_break", s.whole_commits_with_break);
        out.stat("c02_api_commit_rejected", s.api_commit_rejected);
        out.stat("c02_auto_commits", s.auto_commits_key + s.auto_commits_select);
        out.stat("c02_auto_commits_key", s.auto_commits_key);
        out.stat("c02_auto_commits_select", s.auto_commits_select);
        out.stat("c02_auto_commits_nth_gt0", s.auto_commits_nth_gt0);
        out.stat("c02_auto_commits_alt_differs", s.auto_commits_alt_differs);
        out.stat("c02_auto_commits_alt_pushes_out_other_text_key", s.auto_commits_alt_prefix_differs_key);
        out.stat("c02_auto_commits_alt_pushes_out_other_text_select", s.auto_commits_alt_prefix_differs_select);
        out.stat("c02_auto_commits_prefix_of_display_before", s.auto_commits_prefix_of_display_pre);
        out.stat("c02_auto_commits_nth_changed_by_operation", s.auto_commits_nth_changed);
        out.stat("c02_auto_commits_with_selection", s.auto_commits_with_selection);
        out.stat("c02_auto_commits_with_break", s.auto_commits_with_break);
        out.stat("c02_auto_commits_multi_interval", s.auto_commits_multi_interval);
        out.stat("c02_auto_commits_phrase_interval", s.auto_commits_phrase_interval);
        out.stat("c02_auto_commits_stale_commit_buffer", s.auto_commits_stale_commit_buffer);
        out.stat("c02_auto_commits_rest_nonempty", s.auto_commits_rest_nonempty);
        out.stat("c02_auto_commits_thr_0", s.auto_commit_thr[0]);
        out.stat("c02_auto_commits_thr_1_3", s.auto_commit_thr[1]);
        out.stat("c02_auto_commits_thr_4_8", s.auto_commit_thr[2]);
        out.stat("c02_auto_commits_thr_gt8", s.auto_commit_thr[3]);
        out.stat("c02_single_char_commits", s.single_char_commits);
        out.stat("c02_non_commit_keys", s.non_commit_keys);
        out.stat("c02_api_calls_buffer_kept", s.api_calls_buffer_kept);
        out.stat("c02_commits_with_wordless_spelling", s.spelled_commits);
        out.stat("c02_wordless_spelling_extra_chars", s.spelled_extra_chars);
        out.stat("c02_display_checks_skipped_wordless", s.display_checks_skipped_wordless);
        out.stat("c02_wordless_spelling_inside_longer_interval", s.spelled_inside_longer_interval);
        out.stat("c02_wordless_spelling_without_wordless_prestate", s.spelled_without_wordless_prestate);
    });
}
