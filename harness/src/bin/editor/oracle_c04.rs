//! C04 evaluated directly on the real editor, one operation at a time: a ledger of the user's choices and
//! break points, written from the property statement and the key semantics only (no code shared with the
//! editor or the Lean model).
//!
//! For every successful step, from the implementation's own pre-snapshot to its post-snapshot:
//!
//! (a) what the step did to the buffer is classified from the operation (Backspace / Delete / Esc-clear / Tab /
//!     a candidate choice / a symbol choice / typing = insertion at the cursor / everything else = nothing),
//!     followed by `r` symbols removed from the front by an auto-commit; the classification is verified
//!     against the buffer (post == pre with the edit applied, minus the first r) and a step that does not
//!     fit is counted in `c04_unclassified_steps` instead of being judged (C05's oracle judges buffer shapes);
//! (b) choices: every choice of the pre-state that the step did not edit inside (typing strictly inside it,
//!     deleting one of its symbols, a break toggled strictly inside it, a symbol of it replaced, a new choice
//!     overlapping it, clearing the buffer) must be present afterwards with the same text at the same symbols
//!     (index shifted by what was typed / deleted before it and by the auto-commit); a choice that lies in the
//!     auto-committed part must read the same in the committed text; an auto-commit never cuts a choice in two;
//!     a new choice replaces the choices it overlaps and only those; no choice appears from nowhere;
//! (c) the displayed text over every live choice's range is the chosen text;
//! (d) break points: every break the step did not edit (typing exactly there, deleting the symbol after it,
//!     Tab there, a new choice strictly spanning it, clear / commit) is still a break at the shifted position
//!     (a choice that STARTS at a break keeps it); no break appears unasked;
//! (e) every conversion the engine was asked for during the step: no interval of any alternative spans a
//!     break, every choice lies inside one interval and is shown with its text.
//! A whole-buffer commit (Enter in Entering, `commit`): the committed text over every choice's range is the
//! chosen text.
use crate::step::*;
use chewing::editor::keyboard::KeyCode;
use std::cell::RefCell;
use vharness::{hx, Out};

#[derive(Default)]
struct Stats {
    steps_checked: u64,
    choices_alive_checked: u64,
    choices_edited_inside: u64,
    choices_replaced_by_overlap: u64,
    breaks_alive_checked: u64,
    breaks_edited: u64,
    autocommit_steps_with_choice: u64,
    autocommit_choice_at_cut: u64,
    choice_committed_by_autocommit: u64,
    insert_at_choice_start: u64,
    choice_starting_at_break: u64,
    display_checks: u64,
    conv_calls_checked: u64,
    skipped_no_word: u64,
    unclassified_steps: u64,
    // beyond the required list
    new_choices: u64,
    new_choice_text_checked: u64,
    commit_all_choices_checked: u64,
    autocommit_steps: u64,
    autocommit_break_shifted: u64,
    replace_at_break: u64,
    conv_selections_checked: u64,
    conv_breaks_checked: u64,
    verdicts: u64,
    samples: u64,
    last_sid: Option<u64>,
}

thread_local! {
    static STATS: RefCell<Stats> = RefCell::new(Stats::default());
}

fn print_stats(out: &mut Out) {
    STATS.with(|s| {
        let s = s.borrow();
        out.stat("c04_steps_checked", s.steps_checked);
        out.stat("c04_choices_alive_checked", s.choices_alive_checked);
        out.stat("c04_choices_edited_inside", s.choices_edited_inside);
        out.stat("c04_choices_replaced_by_overlap", s.choices_replaced_by_overlap);
        out.stat("c04_breaks_alive_checked", s.breaks_alive_checked);
        out.stat("c04_breaks_edited", s.breaks_edited);
        out.stat("c04_autocommit_steps_with_choice", s.autocommit_steps_with_choice);
        out.stat("c04_autocommit_choice_at_cut", s.autocommit_choice_at_cut);
        out.stat("c04_choice_committed_by_autocommit", s.choice_committed_by_autocommit);
        out.stat("c04_insert_at_choice_start", s.insert_at_choice_start);
        out.stat("c04_choice_starting_at_break", s.choice_starting_at_break);
        out.stat("c04_display_checks", s.display_checks);
        out.stat("c04_conv_calls_checked", s.conv_calls_checked);
        out.stat("c04_skipped_no_word", s.skipped_no_word);
        out.stat("c04_unclassified_steps", s.unclassified_steps);
        out.stat("c04_new_choices", s.new_choices);
        out.stat("c04_new_choice_text_checked", s.new_choice_text_checked);
        out.stat("c04_commit_all_choices_checked", s.commit_all_choices_checked);
        out.stat("c04_autocommit_steps", s.autocommit_steps);
        out.stat("c04_autocommit_break_shifted", s.autocommit_break_shifted);
        out.stat("c04_replace_at_break", s.replace_at_break);
        out.stat("c04_conv_selections_checked", s.conv_selections_checked);
        out.stat("c04_conv_breaks_checked", s.conv_breaks_checked);
    });
}

fn bump(f: impl FnOnce(&mut Stats)) {
    STATS.with(|s| f(&mut s.borrow_mut()));
}

/// at most this many verdict lines per run (a broken tree fails on thousands of steps)
const MAX_VERDICTS: u64 = 40;

fn fail(out: &mut Out, st: &Step, what: &str) {
    let n = STATS.with(|s| {
        let mut s = s.borrow_mut();
        s.verdicts += 1;
        s.verdicts
    });
    if n > MAX_VERDICTS {
        return;
    }
    out.oracle_fail("C04", "new", &format!(
        "editor: {} :: op={} pre=[{} ; {}] post=[{} ; {}] {}",
        what, st.op, state_letter(st.pre) as char, sections(st.pre)[1], state_letter(st.post) as char, sections(st.post)[1], st.hist()
    ));
}

fn state_letter(snap: &str) -> u8 {
    sections(snap)[0].as_bytes()[0]
}

fn nchars(s: &str) -> usize {
    s.chars().count()
}

/// characters [a, b) of `s` as a hex token (the form selections have in the snapshot)
fn slice_hx(s: &str, a: usize, b: usize) -> String {
    hx(&s.chars().skip(a).take(b.saturating_sub(a)).collect::<String>())
}

/// what the operation itself did to the buffer (before any auto-commit)
#[derive(Clone, Copy, Debug, PartialEq)]
enum Edit {
    Nothing,
    Insert { at: usize, k: usize },
    Remove { p: usize },
    Replace { at: usize },
    Tab { at: usize },
    Choice { b: usize, e: usize },
    Clear,
}

type Sel = (usize, usize, bool, String);

/// what an auto-commit of the first `r` symbols does to the range a..b
enum Cut {
    /// it stays in the buffer, at these indices
    Kept(usize, usize),
    /// it left with the committed text
    Committed,
    /// the cut falls strictly inside it
    InTwo,
}

fn through_cut(r: usize, a: usize, b: usize) -> Cut {
    if a >= r {
        Cut::Kept(a - r, b - r)
    } else if b <= r {
        Cut::Committed
    } else {
        Cut::InTwo
    }
}

/// ` <n> <sym>… <n> <gap>… <n> (<start> <end> <is_phrase> <text>)…` → (number of symbols, gaps, selections)
fn parse_comp(comp: &str) -> Option<(usize, Vec<char>, Vec<Sel>)> {
    let t: Vec<&str> = comp.split_whitespace().collect();
    let n: usize = t.first()?.parse().ok()?;
    let ng: usize = t.get(1 + n)?.parse().ok()?;
    let gaps: Vec<char> = t.get(2 + n..2 + n + ng)?.iter().map(|g| g.chars().next().unwrap_or('?')).collect();
    let ns: usize = t.get(2 + n + ng)?.parse().ok()?;
    let mut sels = vec![];
    for k in 0..ns {
        let b = 3 + n + ng + 4 * k;
        sels.push((t.get(b)?.parse().ok()?, t.get(b + 1)?.parse().ok()?, *t.get(b + 2)? == "1", t.get(b + 3)?.to_string()));
    }
    Some((n, gaps, sels))
}

fn is_digit(c: KeyCode) -> bool {
    use KeyCode::*;
    matches!(c, N0 | N1 | N2 | N3 | N4 | N5 | N6 | N7 | N8 | N9)
}

/// (e): the engine's answers honour breaks and choices
fn check_conversions(out: &mut Out, st: &Step) {
    for (kind, comp, alts) in st.conv {
        let Some((n, gaps, sels)) = parse_comp(comp) else { continue };
        bump(|s| s.conv_calls_checked += 1);
        let breaks: Vec<usize> = (1..gaps.len()).filter(|j| gaps[*j] == 'K').collect();
        for (ai, path) in alts.iter().enumerate() {
            for j in &breaks {
                bump(|s| s.conv_breaks_checked += 1);
                if let Some(iv) = path.iter().find(|iv| iv.start < *j && *j < iv.end) {
                    fail(out, st, &format!(
                        "engine {} alternative {} of {}: the interval {}..{} ({}) spans the break point at gap {} of the composition [{}]",
                        kind, ai, alts.len(), iv.start, iv.end, hx(&iv.str), j, comp.trim()));
                }
            }
            for (a, b, _, text) in &sels {
                if *a >= *b || *b > n {
                    continue;
                }
                bump(|s| s.conv_selections_checked += 1);
                match path.iter().find(|iv| iv.start <= *a && *b <= iv.end) {
                    None => fail(out, st, &format!(
                        "engine {} alternative {} of {}: the choice {}..{} ({}) is split by the conversion (no interval contains it) of the composition [{}]",
                        kind, ai, alts.len(), a, b, text, comp.trim())),
                    Some(iv) => {
                        // one character per symbol (a word-less syllable is shown as its spelling: not comparable)
                        if nchars(&iv.str) == iv.end - iv.start {
                            let shown = slice_hx(&iv.str, a - iv.start, b - iv.start);
                            if shown != *text {
                                fail(out, st, &format!(
                                    "engine {} alternative {} of {}: the conversion shows {} over the range {}..{} whose chosen text is {} (composition [{}])",
                                    kind, ai, alts.len(), shown, a, b, text, comp.trim()));
                            }
                        }
                    }
                }
            }
        }
    }
}

/// (c): the displayed text over every live choice is the chosen text
fn check_display(out: &mut Out, st: &Step) {
    let Some(d) = st.display_post else { return };
    if st.no_word_post.is_some() || nchars(d) != st.len_post {
        return;
    }
    let sels = selections(st.post);
    if sels.is_empty() {
        return;
    }
    for (a, b, _, text) in &sels {
        bump(|s| s.display_checks += 1);
        let shown = slice_hx(d, *a, *b);
        if shown != *text {
            fail(out, st, &format!("the pre-edit displays {} over the range {}..{} whose chosen text is {} (display {})", shown, a, b, text, hx(d)));
        }
    }
}

pub fn check(out: &mut Out, st: &Step) {
    // (f) cumulative statistics: at every change of session and every 256th step
    let new_session = STATS.with(|s| {
        let mut s = s.borrow_mut();
        let changed = s.last_sid.is_some() && s.last_sid != Some(st.sid);
        s.last_sid = Some(st.sid);
        changed
    });
    if new_session {
        print_stats(out);
    }
    judge(out, st);
    if STATS.with(|s| s.borrow().steps_checked % 256 == 0) {
        print_stats(out);
    }
}

fn judge(out: &mut Out, st: &Step) {
    let (pre, post) = (st.pre, st.post);
    bump(|s| s.steps_checked += 1);
    check_conversions(out, st);
    check_display(out, st);

    let (s0, s1) = (symbols(pre), symbols(post));
    let n = s0.len();
    let c0 = cursor(pre);
    let (state0, state1) = (state_letter(pre), state_letter(post));
    let (sel0, sel1) = (selections(pre), selections(post));
    let (g0, g1) = (gaps(pre), gaps(post));
    let opname = st.op.split(' ').next().unwrap_or("");
    let select_ok = st.key.is_none() && opname == "select" && st.ret == "ok";

    // ---- whole-buffer commit: every choice and break is gone with the buffer; the committed text shows the choices
    let commit_all = match st.key {
        Some(ev) => state0 == b'E' && ev.code == KeyCode::Enter && n > 0 && st.ret == "C",
        None => opname == "commit" && st.ret == "ok",
    };
    if commit_all {
        if !s1.is_empty() {
            bump(|s| s.unclassified_steps += 1);
            return;
        }
        if st.no_word_pre.is_none() && nchars(st.commit_post) == n {
            for (a, b, _, text) in &sel0 {
                bump(|s| s.commit_all_choices_checked += 1);
                let got = slice_hx(st.commit_post, *a, *b);
                if got != *text {
                    fail(out, st, &format!("whole-buffer commit: the committed text reads {} over the range {}..{} whose chosen text is {} (committed {})", got, a, b, text, hx(st.commit_post)));
                }
            }
        } else if !sel0.is_empty() {
            bump(|s| s.skipped_no_word += 1);
        }
        bump(|s| s.breaks_edited += g0.iter().filter(|g| **g == 'K').count() as u64);
        return;
    }

    // ---- (a) auto-commit: r symbols left through the front
    let committed = match st.key {
        Some(_) => st.ret == "C",
        None => select_ok && misc(post)[0] == "C",
    };
    // (Commit from an empty buffer in Entering is a directly committed character, not an auto-commit)
    // since fix 4573298 the length limit is also enforced while a syllable is being entered: a key that ends in
    // EnteringSyllable with the answer Commit has auto-committed (a fuzzy key inserted the previous partial syllable)
    let auto = committed && ((state1 == b'E' && (n > 0 || state0 != b'E')) || state1 == b'Y');
    let mut r = 0usize;
    if auto {
        if st.no_word_pre.is_some() || st.no_word_post.is_some() {
            // a word-less syllable is committed as its spelling: the character count is not the symbol count
            bump(|s| s.skipped_no_word += 1);
            return;
        }
        r = nchars(st.commit_post);
    }

    // ---- (a) what the operation itself did
    let mut unclassified = false;
    let chosen = |unclassified: &mut bool| -> Edit {
        // a candidate was picked from an open list and the list closed
        match sel_info(pre) {
            Some(si) if si.kind == 'P' => Edit::Choice { b: si.begin, e: si.end },
            Some(si) if si.action == 'I' => Edit::Insert { at: c0, k: 1 },
            Some(_) => Edit::Replace { at: c0 },
            None => {
                *unclassified = true;
                Edit::Nothing
            }
        }
    };
    let typed = |unclassified: &mut bool| -> Edit {
        let grown = s1.len() + r;
        if grown < n {
            *unclassified = true;
            Edit::Nothing
        } else if grown == n {
            Edit::Nothing
        } else {
            Edit::Insert { at: c0, k: grown - n }
        }
    };
    let edit = match st.key {
        Some(ev) => match state0 {
            b'E' => match ev.code {
                KeyCode::Backspace => if c0 > 0 && n > 0 { Edit::Remove { p: c0 - 1 } } else { Edit::Nothing },
                KeyCode::Del => if c0 < n { Edit::Remove { p: c0 } } else { Edit::Nothing },
                KeyCode::Esc => if n > 0 && s1.is_empty() && r == 0 { Edit::Clear } else { Edit::Nothing },
                KeyCode::Tab => if n > 0 && c0 < n { Edit::Tab { at: c0 } } else { Edit::Nothing },
                _ => typed(&mut unclassified),
            },
            b'Y' => match ev.code {
                KeyCode::Esc if n > 0 && s1.is_empty() && r == 0 => Edit::Clear,
                _ => typed(&mut unclassified),
            },
            b'S' if is_digit(ev.code) && state1 == b'E' && st.ret != "B" && st.ret != "I" => chosen(&mut unclassified),
            _ => Edit::Nothing,
        },
        None => match opname {
            "clear" => Edit::Clear,
            "select" if select_ok && state0 == b'S' && state1 == b'E' => chosen(&mut unclassified),
            _ => Edit::Nothing,
        },
    };
    // verify the classification against the buffer: post == (pre with the edit applied)[r..]; None = any symbol
    let mut want: Vec<Option<&str>> = s0.iter().map(|t| Some(*t)).collect();
    match edit {
        Edit::Nothing | Edit::Tab { .. } => {}
        Edit::Insert { at, k } => {
            if at > n {
                unclassified = true;
            } else {
                for _ in 0..k {
                    want.insert(at, None);
                }
            }
        }
        Edit::Remove { p } => {
            if p >= n {
                unclassified = true;
            } else {
                want.remove(p);
            }
        }
        Edit::Replace { at } => {
            if at >= n {
                unclassified = true;
            } else {
                want[at] = None;
            }
        }
        Edit::Choice { b, e } => {
            if !(b < e && e <= n) {
                unclassified = true;
            }
        }
        Edit::Clear => want.clear(),
    }
    if !unclassified {
        unclassified = want.len() < r
            || want.len() - r != s1.len()
            || want[r..].iter().zip(&s1).any(|(w, got)| w.is_some_and(|w| w != *got))
            || g1.len() != s1.len();
    }
    if unclassified {
        bump(|s| s.unclassified_steps += 1);
        if STATS.with(|s| s.borrow().unclassified_steps <= 3) {
            out.sample(&format!(
                "C04 editor: step not classified ({:?}, auto-commit of {}) :: op={} ret={} pre=[{} ; {}] post=[{} ; {}] committed={}",
                edit, r, st.op, st.ret, state0 as char, sections(pre)[1], state1 as char, sections(post)[1], hx(st.commit_post)));
        }
        return;
    }
    if auto {
        bump(|s| s.autocommit_steps += 1);
    }

    // ---- (b) the ledger of choices
    // images the post-state MUST hold (text None = the choice just made), images it MAY hold (edited inside but
    // not necessarily dropped), and the would-be images of overlapped choices (for the wording of the verdict)
    let mut must: Vec<(usize, usize, bool, Option<String>)> = vec![];
    let mut may: Vec<Sel> = vec![];
    let mut overlapped: Vec<Sel> = vec![];
    let mut shifted_choice = false;
    // a choice the step did not edit, after the body edit at a..b: through the auto-commit, into `must`
    let mut carry = |out: &mut Out, a: usize, b: usize, ph: bool, text: Option<&String>, must: &mut Vec<(usize, usize, bool, Option<String>)>| {
        match through_cut(r, a, b) {
            Cut::Kept(x, y) => {
                if r > 0 {
                    shifted_choice = true;
                    if a == r {
                        bump(|s| s.autocommit_choice_at_cut += 1);
                    }
                }
                must.push((x, y, ph, text.cloned()));
            }
            Cut::Committed => {
                bump(|s| s.choice_committed_by_autocommit += 1);
                if let Some(text) = text {
                    let got = slice_hx(st.commit_post, a, b);
                    if got != *text {
                        fail(out, st, &format!(
                            "auto-commit of {} symbols: the committed text reads {} over the range {}..{} whose chosen text is {} (committed {})",
                            r, got, a, b, text, hx(st.commit_post)));
                    }
                }
            }
            Cut::InTwo => fail(out, st, &format!(
                "auto-commit of {} symbols cuts the choice {}..{} ({}) in two", r, a, b, text.map_or("just made", |t| t.as_str()))),
        }
    };
    for (a, b, ph, text) in &sel0 {
        let (a, b) = (*a, *b);
        let (inside, image): (bool, Option<(usize, usize)>) = match edit {
            Edit::Nothing => (false, Some((a, b))),
            Edit::Insert { at, k } => {
                if a < at && at < b {
                    (true, None)
                } else if a >= at {
                    if a == at {
                        bump(|s| s.insert_at_choice_start += 1);
                    }
                    (false, Some((a + k, b + k)))
                } else {
                    (false, Some((a, b)))
                }
            }
            Edit::Remove { p } => {
                if a <= p && p < b {
                    (true, None)
                } else if a > p {
                    (false, Some((a - 1, b - 1)))
                } else {
                    (false, Some((a, b)))
                }
            }
            Edit::Tab { at } => (a < at && at < b, Some((a, b))),
            Edit::Replace { at } => (a <= at && at < b, Some((a, b))),
            Edit::Choice { b: nb, e: ne } => {
                if a < ne && nb < b {
                    bump(|s| s.choices_replaced_by_overlap += 1);
                    if let Cut::Kept(x, y) = through_cut(r, a, b) {
                        overlapped.push((x, y, *ph, text.clone()));
                    }
                    continue;
                }
                (false, Some((a, b)))
            }
            Edit::Clear => (true, None),
        };
        if inside {
            bump(|s| s.choices_edited_inside += 1);
            if let Some((x, y)) = image {
                if let Cut::Kept(x, y) = through_cut(r, x, y) {
                    may.push((x, y, *ph, text.clone()));
                }
            }
            continue;
        }
        let (x, y) = image.unwrap();
        carry(out, x, y, *ph, Some(text), &mut must);
    }
    if let Edit::Choice { b, e } = edit {
        bump(|s| {
            s.new_choices += 1;
            if g0.get(b) == Some(&'K') {
                s.choice_starting_at_break += 1;
            }
        });
        carry(out, b, e, true, None, &mut must);
    }
    let mut used = vec![false; sel1.len()];
    let mut alive = 0u64;
    for (a, b, ph, text) in &must {
        match text {
            Some(text) => {
                match (0..sel1.len()).find(|i| !used[*i] && sel1[*i] == (*a, *b, *ph, text.clone())) {
                    Some(i) => {
                        used[i] = true;
                        alive += 1;
                    }
                    None => {
                        let there = sel1.iter().find(|s| s.0 == *a && s.1 == *b);
                        fail(out, st, &format!(
                            "the choice {} was not edited by this step ({:?}, auto-commit of {} symbols) and must be at {}..{} afterwards, but {}",
                            text, edit, r, a, b,
                            match there {
                                Some(s) => format!("that range now holds {} (is_phrase {})", s.3, s.2 as u8),
                                None => "no choice is recorded for that range".to_string(),
                            }));
                    }
                }
            }
            None => {
                match (0..sel1.len()).find(|i| !used[*i] && sel1[*i].0 == *a && sel1[*i].1 == *b) {
                    Some(i) => {
                        used[i] = true;
                        // the text recorded is a candidate that was on offer (for `select n`: the n-th of the page)
                        if let Some(c) = st.cand_pre.filter(|c| !c.panicked) {
                            bump(|s| s.new_choice_text_checked += 1);
                            let offered = match st.key {
                                Some(_) => c.all.iter().any(|t| hx(t) == sel1[i].3),
                                None => {
                                    let k: Option<usize> = st.op.split(' ').nth(1).and_then(|t| t.parse().ok());
                                    k.and_then(|k| c.paginated.get(k)).is_some_and(|t| hx(t) == sel1[i].3)
                                }
                            };
                            if !offered {
                                fail(out, st, &format!("the choice recorded for {}..{} has the text {} which is not the candidate that was picked", a, b, sel1[i].3));
                            }
                        }
                    }
                    None => fail(out, st, &format!("the choice just made for {}..{} is not recorded afterwards (expected at {}..{})", a + r, b + r, a, b)),
                }
            }
        }
    }
    for m in &may {
        if let Some(i) = (0..sel1.len()).find(|i| !used[*i] && sel1[*i] == *m) {
            used[i] = true;
        }
    }
    for (i, s) in sel1.iter().enumerate() {
        if used[i] {
            continue;
        }
        if overlapped.contains(s) {
            fail(out, st, &format!("the choice {} at {}..{} is overlapped by the new choice but was not replaced by it", s.3, s.0, s.1));
        } else {
            fail(out, st, &format!("a choice {} at {}..{} (is_phrase {}) appears that is neither an earlier choice carried over nor the choice just made ({:?}, auto-commit of {} symbols)", s.3, s.0, s.1, s.2 as u8, edit, r));
        }
    }
    bump(|s| {
        s.choices_alive_checked += alive;
        if auto && shifted_choice {
            s.autocommit_steps_with_choice += 1;
        }
    });
    if auto && shifted_choice && alive > 0 && STATS.with(|s| s.borrow().samples < 2) {
        bump(|s| s.samples += 1);
        out.sample(&format!(
            "C04 editor: choice survived an auto-commit of {} symbols :: op={} pre=[{}] post=[{}] committed={}",
            r, st.op, sections(pre)[1], sections(post)[1], hx(st.commit_post)));
    }

    // ---- (d) the ledger of break points
    let mut want_k = vec![false; g1.len()];
    let mut may_k = vec![false; g1.len()];
    for j in 1..g0.len() {
        if g0[j] != 'K' {
            continue;
        }
        // (edited at that gap, image before the auto-commit)
        let (edited, image): (bool, usize) = match edit {
            Edit::Nothing => (false, j),
            Edit::Insert { at, k } => (at == j, if j > at { j + k } else { j }),
            Edit::Remove { p } => (p == j || (p == 0 && j == 1), if j > p { j - 1 } else { j }),
            Edit::Tab { at } => (at == j, j),
            Edit::Replace { at } => {
                if at == j {
                    // the symbol behind the gap became another one: the break may go with it
                    bump(|s| s.replace_at_break += 1);
                    if j > r && j - r < may_k.len() {
                        may_k[j - r] = true;
                    }
                }
                (at == j, j)
            }
            Edit::Choice { b, e } => (b < j && j < e, j),
            Edit::Clear => (true, j),
        };
        // the gap at the cut becomes the beginning of the buffer
        if edited || (r > 0 && image <= r) {
            bump(|s| s.breaks_edited += 1);
            continue;
        }
        let at = image - r;
        if at >= g1.len() {
            fail(out, st, &format!("the break point at gap {} should be at gap {} afterwards, beyond the buffer", j, at));
            continue;
        }
        want_k[at] = true;
        if g1[at] == 'K' {
            bump(|s| {
                s.breaks_alive_checked += 1;
                if r > 0 {
                    s.autocommit_break_shifted += 1;
                }
            });
        } else {
            fail(out, st, &format!(
                "the break point at gap {} was not edited by this step ({:?}, auto-commit of {} symbols) and must be at gap {} afterwards, which is '{}'",
                j, edit, r, at, g1[at]));
        }
    }
    if let Edit::Tab { at } = edit {
        if at >= r && at - r < may_k.len() {
            may_k[at - r] = true;
        }
    }
    for (i, g) in g1.iter().enumerate() {
        if *g == 'K' && !want_k[i] && !may_k[i] {
            fail(out, st, &format!("a break point appears at gap {} that the user did not set ({:?}, auto-commit of {} symbols)", i, edit, r));
        }
    }
}
